"""C01 - expression simplification preserves meaning and never crashes (see mc/simplattice.py)."""
from mc import simplattice

PROP = "C01"
LEVEL = "exploration"
ENGINE = "enum"
RULE = ("complete enumeration of the expression lattice of mc/exprgen.py (all depth-1 trees, depth-2 spine trees, "
        "rule-directed depth-3 families, byte-memory and machine-width boundary families) x the three shipped simplifier "
        "objects; every valuation of the identifiers when they total <= 10 bits (boundary product otherwise) x 3 memory "
        "contents; distinct = distinct expression; non-trivial = expr_simp rewrote it")
LEVEL_TEXT = ("Bounded-exhaustive: every expression of a finite, explicitly described lattice is simplified by each shipped "
              "simplifier object and compared with the original under every valuation of a small-width domain by an "
              "independent reference evaluator. The rewrite rules are width-generic, so boundary mistakes (constant == 2^n, "
              "count == width, sign bit) show at widths 1-4 where the whole valuation space is enumerated.")
LEVEL_NOTE = ("Trusted: mc/refsem.py. Values above ~10 identifier bits are boundary-only; operators without a reference meaning "
              "(segm, fp*, call_*, FLAG_SIGN_ADD which no lifter emits and no explicit formula defines) are outside the alphabet; "
              "depth-3 trees only through the rule-directed families.")
TECHNIQUE = "bounded-exhaustive enumeration of an expression lattice x all small-width valuations against a reference evaluator"
ASSUMPTIONS = ["division/modulo by zero is undefined: such valuations are skipped",
               "memory is a byte map per pointer width, little-endian"]


def run(ctx):
    return simplattice.run(ctx, "meaning")


def replay(case):
    return simplattice.replay(case, "meaning")
