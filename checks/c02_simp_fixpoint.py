"""C02 - simplification reaches a stable fixed point (see mc/simplattice.py)."""
from mc import simplattice

PROP = "C02"
LEVEL = "exploration"
ENGINE = "enum"
RULE = ("same lattice as C01 x the three shipped simplifier objects; per case: terminates within a rule-application budget "
        "(counted by wrappers around every rule), simp(simp(e)) is simp(e) on the long-lived instance and on a fresh "
        "cold-cache instance with the same rule table, and both instances agree; non-trivial = the simplifier changed the expression")
LEVEL_TEXT = ("Bounded-exhaustive enumeration of the expression lattice; for every expression and shipped configuration the real "
              "simplifier must terminate within the step budget and be idempotent (identity of the hash-consed result), with a "
              "cold-cache instance as a differential oracle for cache transparency.")
LEVEL_NOTE = ("Termination is decided up to the budget of 20000 rule applications per expression (3 orders above the observed "
              "maximum) and Python's recursion limit; same lattice limits as C01.")
TECHNIQUE = "bounded-exhaustive enumeration of an expression lattice with idempotence / termination-budget / cold-cache differential oracles"
ASSUMPTIONS = ["a run exceeding 20000 rule applications on a depth<=3 expression is a non-termination"]


def run(ctx):
    return simplattice.run(ctx, "fixpoint")


def replay(case):
    return simplattice.replay(case, "fixpoint")
