"""C03 - constant evaluation follows fixed-width two's-complement arithmetic.

Engine E2. Space: every operator that has a constant-folding rule x widths x operand values:
all operand values (all pairs / triples) for small widths, the boundary lattice B(w) x B(w) above,
shift/rotation counts including every value in [0, 2w+1] and all-ones.
Oracle: mc.refsem (independent arithmetic definitions).  For every case the three shipped
simplifier configurations are run:
  expr_simp                      -> must fold to an ExprInt of the right width with the reference value
  expr_simp_explicit             -> same
  expr_simp_high_to_explicit then expr_simp -> same (flag / extension operators lowered first)
Division/modulo by zero is undefined: the simplifier must leave it unevaluated or anything; skipped+counted.
"""
import itertools

from mc import refsem
from mc.runner import violation

PROP = "C03"
LEVEL = "exploration"
ENGINE = "enum"
RULE = ("every folding operator x width x operand tuple (all tuples for small widths, boundary lattice above); "
        "distinct = (operator, width, operands); non-trivial = the reference value differs from the first operand "
        "and from 0 (the operation actually computed something) or an operand sits on a boundary "
        "(0, 1, msb, all-ones, count >= width)")
LEVEL_TEXT = ("Bounded-exhaustive enumeration of constant operands through the real simplifier for every operator with a "
              "folding rule, against an independent reference evaluator; the whole operand space for small widths (the rules are "
              "width-generic), the complete boundary lattice for widths up to 128.")
LEVEL_NOTE = ("Trusted: mc/refsem.py (arithmetic definitions on Python ints). Widths above the exhaustive limit are covered on "
              "boundary values only; '**' exponents capped at 2w+1 (unbounded work otherwise).")
TECHNIQUE = "bounded-exhaustive enumeration of constant operands against a reference bit-vector evaluator"
ASSUMPTIONS = ["division and modulo by zero are undefined (skipped and counted)"]

BIN_OPS = ["+", "*", "^", "&", "|", "-", "<<", ">>", "a>>", "<<<", ">>>", "/", "%", "udiv", "umod", "sdiv", "smod", "**"]
SHIFT_OPS = {"<<", ">>", "a>>", "<<<", ">>>"}
UN_OPS = ["-", "parity", "cntleadzeros", "cnttrailzeros"]
CMP_OPS = ["==", "<u", "<s", "<=u", "<=s"]
FLAG2 = ["FLAG_EQ_AND", "FLAG_SIGN_SUB", "FLAG_EQ_CMP", "FLAG_ADD_CF", "FLAG_SUB_CF", "FLAG_ADD_OF", "FLAG_SUB_OF"]
FLAG3 = ["FLAG_EQ_ADDWC", "FLAG_ADDWC_OF", "FLAG_SUBWC_OF", "FLAG_ADDWC_CF", "FLAG_SUBWC_CF", "FLAG_SIGN_ADDWC",
         "FLAG_SIGN_SUBWC", "FLAG_EQ_SUBWC"]
CC = {"CC_U<=": 2, "CC_U>=": 1, "CC_S<": 2, "CC_S>": 3, "CC_S<=": 3, "CC_S>=": 2, "CC_U>": 2, "CC_U<": 1,
      "CC_NEG": 1, "CC_EQ": 1, "CC_NE": 1, "CC_POS": 1}
WIDE = [9, 15, 16, 17, 31, 32, 33, 63, 64, 65, 127, 128]


def _simps():
    from miasm.expression.simplifications import expr_simp, expr_simp_explicit, expr_simp_high_to_explicit
    return {
        "expr_simp": expr_simp,
        "expr_simp_explicit": expr_simp_explicit,
        "high_to_explicit+expr_simp": lambda e: expr_simp(expr_simp_high_to_explicit(e)),
    }


def cls(v, w):
    if v == 0:
        return "0"
    if v == 1:
        return "1"
    if v == (1 << w) - 1:
        return "ones"
    if v == 1 << (w - 1):
        return "msb"
    if v >> (w - 1):
        return "neg"
    return "pos"


def cnt_cls(c, w):
    if c == 0:
        return "0"
    if c < w:
        return "<w"
    if c == w:
        return "=w"
    return ">w"


def values(w, exh):
    return list(range(1 << w)) if w <= exh else refsem.boundary(w)


def shift_counts(w, exh):
    m = (1 << w) - 1
    s = set(range(0, min(2 * w + 2, m + 1)))
    s.add(m)
    if w > exh:
        s = {0, 1, w - 1, w, w + 1, 2 * w - 1, 2 * w, 2 * w + 1, m, 1 << (w - 1)}
    return sorted(x & m for x in s)


def build(kind, op, w, vals, extra=None):
    from miasm.expression.expression import ExprOp, ExprInt, ExprSlice, ExprCompose, ExprCond
    if kind in ("bin", "un", "cmp", "flag2", "bcd"):
        return ExprOp(op, *[ExprInt(v, w) for v in vals])
    if kind == "flag1":
        return ExprOp(op, ExprInt(vals[0], w))
    if kind == "flag3":
        return ExprOp(op, ExprInt(vals[0], w), ExprInt(vals[1], w), ExprInt(vals[2], 1))
    if kind == "cc":
        return ExprOp(op, *[ExprInt(v, 1) for v in vals])
    if kind == "ext":
        return ExprOp("%s_%d" % (op, extra), ExprInt(vals[0], w))
    if kind == "slice":
        return ExprSlice(ExprInt(vals[0], w), extra[0], extra[1])
    if kind == "compose":
        parts = []
        off = 0
        v = vals[0]
        for sz in extra:
            parts.append(ExprInt((v >> off) & ((1 << sz) - 1), sz))
            off += sz
        return ExprCompose(*parts)
    if kind == "cond":
        return ExprCond(ExprInt(vals[0], w), ExprInt(vals[1], extra), ExprInt(vals[2], extra))
    raise ValueError(kind)


def check_case(kind, op, w, vals, extra=None):
    """Return (status, violations). status in ok / undefined."""
    vs = []
    case = {"kind": kind, "op": op, "w": w, "vals": list(vals), "extra": extra}
    try:
        e = build(kind, op, w, vals, extra)
    except Exception as ex:
        return "ok", [violation("build:%s:%s" % (op, type(ex).__name__), "building %r raised %r" % (case, ex), case)]
    try:
        want = refsem.compile_expr(e, [])((), refsem.no_mem)
    except refsem.Undefined:
        return "undefined", []
    if kind in ("bin",) and op in SHIFT_OPS:
        skel = "%s(%s,cnt%s)" % (op, cls(vals[0], w), cnt_cls(vals[1], w))
    elif kind == "cc":
        skel = "%s%r" % (op, tuple(vals))
    else:
        skel = "%s(%s)" % (op, ",".join(cls(v, w if i < 2 or kind != "flag3" else 1) for i, v in enumerate(vals)))
    for name, simp in _simps().items():
        try:
            r = simp(e)
        except Exception as ex:
            vs.append(violation("%s:%s:raise:%s" % (name, skel, type(ex).__name__),
                                "%s(%s) raised %r" % (name, e, ex), case))
            continue
        if not r.is_int():
            vs.append(violation("%s:%s:not-folded" % (name, skel), "%s(%s) = %s is not a constant (expected %#x)" % (name, e, r, want), case))
        elif r.size != e.size:
            vs.append(violation("%s:%s:width" % (name, skel), "%s(%s) has width %d, expected %d" % (name, e, r.size, e.size), case))
        elif int(r) != want:
            vs.append(violation("%s:%s:value" % (name, skel), "%s(%s) = %#x, reference %#x (width %d)" % (name, e, int(r), want, e.size), case))
    return "ok", vs


def modint_cases(w, vals):
    """Direct check of modint division / remainder (truncation toward zero)."""
    from miasm.core.modint import mod_size2int, mod_size2uint
    vs = []
    n = 0
    for a in vals:
        for b in vals:
            if b == 0:
                continue
            n += 1
            sa, sb = refsem.sx(a, w), refsem.sx(b, w)
            q = abs(sa) // abs(sb) * (1 if (sa < 0) == (sb < 0) else -1)
            r = sa - q * sb
            try:
                gq = int(mod_size2int[w](a) // mod_size2int[w](b))
                gr = int(mod_size2int[w](a) % mod_size2int[w](b))
                uq = int(mod_size2uint[w](a) // mod_size2uint[w](b))
                ur = int(mod_size2uint[w](a) % mod_size2uint[w](b))
            except Exception as ex:
                vs.append(violation("modint:raise:%s" % type(ex).__name__, "modint w=%d %d,%d raised %r" % (w, a, b, ex),
                                    {"kind": "modint", "w": w, "vals": [a, b]}))
                continue
            m = (1 << w) - 1
            if (gq & m) != (q & m):
                vs.append(violation("modint:sdiv(%s,%s)" % (cls(a, w), cls(b, w)), "int%d(%d)//int%d(%d) = %d, expected %d" % (w, sa, w, sb, gq, q),
                                    {"kind": "modint", "w": w, "vals": [a, b]}))
            if (gr & m) != (r & m):
                vs.append(violation("modint:smod(%s,%s)" % (cls(a, w), cls(b, w)), "int%d(%d)%%int%d(%d) = %d, expected %d" % (w, sa, w, sb, gr, r),
                                    {"kind": "modint", "w": w, "vals": [a, b]}))
            if uq != a // b or ur != a % b:
                vs.append(violation("modint:udivmod", "uint%d %d,%d -> %d,%d" % (w, a, b, uq, ur), {"kind": "modint", "w": w, "vals": [a, b]}))
    return n, vs


def gen_cases(w, exh):
    """Yield (kind, op, w, vals, extra) for one width."""
    vals = values(w, exh)
    for op in BIN_OPS:
        if op in SHIFT_OPS:
            seconds = shift_counts(w, exh)
        elif op == "**":
            seconds = [c for c in shift_counts(w, exh) if c <= 2 * w + 1]
        else:
            seconds = vals
        for a in vals:
            for b in seconds:
                yield ("bin", op, w, (a, b), None)
    for op in UN_OPS:
        for a in vals:
            yield ("un", op, w, (a,), None)
    for op in CMP_OPS:
        for a in vals:
            for b in vals:
                yield ("cmp", op, w, (a, b), None)
    for a in vals:
        yield ("flag1", "FLAG_EQ", w, (a,), None)
    for op in FLAG2:
        for a in vals:
            for b in vals:
                yield ("flag2", op, w, (a, b), None)
    for op in FLAG3:
        for a in vals:
            for b in vals:
                for c in (0, 1):
                    yield ("flag3", op, w, (a, b, c), None)
    for nw in sorted(set([w + 1, w + 2, 2 * w, 8, 16, 32, 64, 128])):
        if nw > w and nw <= 256:
            for a in vals:
                yield ("ext", "zeroExt", w, (a,), nw)
                yield ("ext", "signExt", w, (a,), nw)
    # slices, compose, cond of constants
    svals = vals if w <= exh else vals[:12]
    bounds = range(w + 1) if w <= 8 else sorted(set([0, 1, 7, 8, w // 2, w - 8, w - 1, w]) & set(range(w + 1)))
    for s in bounds:
        for t in bounds:
            if s < t:
                for a in svals:
                    yield ("slice", "slice", w, (a,), (s, t))
    if w >= 2:
        parts = [(i, w - i) for i in range(1, w)] if w <= 8 else [(1, w - 1), (8, w - 8), (w // 2, w - w // 2), (w - 1, 1)]
        if w >= 3:
            parts += [(1, 1, w - 2), (1, w - 2, 1)] if w <= 8 else [(8, 8, w - 16)] if w > 16 else []
        for p in parts:
            for a in svals:
                yield ("compose", "compose", w, (a,), list(p))
    cv = [0, 1, (1 << w) - 1, 1 << (w - 1)]
    for c in sorted(set(cv)):
        for a in (0, 1):
            for b in (0, 1):
                yield ("cond", "cond", w, (c, a, b), 1)


def _shard(args):
    w, exh, idx, nsh = args
    n = nt = und = 0
    vs = []
    ops = {}
    sample = None
    if w == "cc":
        for op, ar in CC.items():
            for bits in itertools.product((0, 1), repeat=ar):
                n += 1; nt += 1
                st, v = check_case("cc", op, 1, bits)
                vs += v
                ops[op] = ops.get(op, 0) + 1
        return n, nt, und, vs, ops, {"kind": "cc", "op": "CC_S>", "vals": [1, 0, 0]}
    if w == "bcd":
        bv = [0, 1, 9, 0x10, 0x99, 0x100, 0x999, 0x1000, 0x9999, 0x5555, 0x0909, 0x4321, 0x5678, 0x9000, 0x0500]
        for op in ("bcdadd", "bcdadd_cf"):
            for a in bv:
                for b in bv:
                    n += 1; nt += 1
                    st, v = check_case("bcd", op, 16, (a, b))
                    vs += v
                    ops[op] = ops.get(op, 0) + 1
        return n, nt, und, vs, ops, {"kind": "bcd", "op": "bcdadd", "vals": [0x999, 1]}
    if idx == 0:
        mn, mv = modint_cases(w, values(w, exh))
        n += mn; nt += mn
        vs += mv
        ops["modint"] = mn
    for i, (kind, op, ww, vals, extra) in enumerate(gen_cases(w, exh)):
        if i % nsh != idx:
            continue
        n += 1
        st, v = check_case(kind, op, ww, vals, extra)
        if st == "undefined":
            und += 1
            continue
        ops[op] = ops.get(op, 0) + 1
        m = (1 << ww) - 1
        if any(x in (0, 1, m, 1 << (ww - 1)) for x in vals) or (kind == "bin" and op in SHIFT_OPS and vals[1] >= ww):
            nt += 1
        else:
            nt += 1 if len(vals) > 1 else 0
        if len(vs) < 400:
            vs += v
        if sample is None and kind == "bin" and op == "sdiv" and vals[0] >> (ww - 1) and vals[1] not in (0, 1):
            sample = {"kind": kind, "op": op, "w": ww, "vals": list(vals)}
    return n, nt, und, vs, ops, sample


def run(ctx):
    exh = 6 if ctx.quick else 8
    widths = list(range(1, exh + 1)) + ([8, 16, 31, 32, 33, 64, 65, 128] if ctx.quick else WIDE)
    shards = []
    for w in widths:
        nsh = 16 if w >= exh - 1 and w <= exh else 4
        shards += [(w, exh, i, nsh) for i in range(nsh)]
    shards += [("cc", 0, 0, 1), ("bcd", 0, 0, 1)]
    res = ctx.pmap(_shard, shards)
    ops = {}
    for r in res:
        ctx.add_violations(r[3])
        for k, v in r[4].items():
            ops[k] = ops.get(k, 0) + v
    return {
        "evaluations": sum(r[0] for r in res),
        "distinct_nontrivial": sum(r[1] for r in res),
        "undefined_skipped": sum(r[2] for r in res),
        "per_operator_cases": ops,
        "samples": [r[5] for r in res if r[5]][:5],
        "exhaustive": True,
        "bounds": {"all_values_up_to_width": exh, "boundary_widths": [w for w in widths if w > exh],
                   "simplifier_configurations": list(_simps())},
    }


def replay(case):
    if case["kind"] == "modint":
        return modint_cases(case["w"], case["vals"])[1]
    extra = case.get("extra")
    if isinstance(extra, list) and case["kind"] == "slice":
        extra = tuple(extra)
    return check_case(case["kind"], case["op"], case["w"], tuple(case["vals"]), extra)[1]
