"""C04 - the C code generated for an expression computes the reference value of that expression.

Engine E2 + compiled oracle.  Every expression of a finite, explicitly described lattice is handed to the real
TranslatorC; the exact string it returns is wrapped in a C function whose parameters are declared the way the jitter
declares them (uintN_t with N the next power of two >= max(width, 8), bn_t above 64 bits), the result is masked to the
expression width exactly as CGen.gen_c_assignments does (`(expr)&mask` / `bignum_mask(expr, size)`), the file is compiled
with the jitter's own include line (jitcore_cc_base.gen_core + jitcore_gcc.gen_C_source) and -O3 like a JIT block, and
linked with the WORKING TREE's op_semantics.c and bn.c (mc.native shadow tree, built with the extension flags:
-O2 -fno-strict-overflow -DNDEBUG).  A table driven main() evaluates every (function, operand tuple) and writes one
result line per case to a result file (never stdout).

Oracle (only what the property states)
  * value == mc.refsem value wherever the reference is defined (division/modulo by zero: skipped in C and counted);
  * the harness process's stdout stays EMPTY (stdout is a regular file, fully buffered; the pending byte count is sampled
    after every case and the file size must equal the sum attributed to cases);
  * no signal (sigsetjmp/siglongjmp around every call: SIGFPE/SIGSEGV/SIGABRT/... is that case's outcome), no exit()
    (op_semantics.c/bn.c are compiled with -Dexit=c04_exit), no run-away loop (periodic CPU-time tick: two ticks inside
    one call make a suspect, which is run again and must survive CONFIRM_TICKS ticks to be reported);
  * an accepted expression whose C does not compile/link is a violation (gcc's diagnostics name the function);
  * a translation that raises NotImplementedError is "not accepted" (counted); any other exception is counted as
    `translator_raises` and reported as a finding candidate, but is not a violation (the property only constrains
    accepted expressions).

Attribution (the runtime is built like the extensions, with require() compiled out, so some defects are undefined
behaviour that damages the caller's memory): the cases run in child processes of the driver; a memory fault inside a
call ends the child and a fresh one resumes with the next case; a function during which the child dies is run again
from its first case in a fresh child unless it started in one; and every function with a fault or a death is judged
only on a second harness in which each function starts in a fresh process and results are written line by line.
Signatures: operator | width class | operand class : outcome, outcome in {wrong (value differs, or memory fault / abort /
death of the process), SIGFPE, timeout, exit, compile-error:<normalised gcc message>} or `stdout`.

Space: see RULE / bounds.  Memory operands (MEM_LOOKUP_*) need a live jitcpu and are left out (C20/C24/C49).
"""
import hashlib
import itertools
import os
import re
import shutil
import subprocess
import sys
import tempfile

from mc import refsem
from mc.runner import violation

PROP = "C04"
LEVEL = "exploration"
ENGINE = "enum"
RULE = ("every operator/shape TranslatorC accepts and mc.refsem gives a meaning to (n-ary + * & | ^ with 2 and 3 operands, "
        "unary and binary -, << >> a>>, <<< >>>, udiv umod sdiv smod, cntleadzeros cnttrailzeros, parity, zeroExt signExt, "
        "== <u <s <=u <=s, ExprSlice, ExprCompose of 2-3 parts, ExprCond, bcdadd bcdadd_cf, ExprInt literals, '!' read as "
        "bitwise complement, ExprLoc with an offset in the LocationDB) over the "
        "identifiers a, b, c and constants of the boundary lattice, at native widths 8/16/32/64, a spread of widths 1..63 "
        "for the width-agnostic shapes (rotations also at the RCL widths 9/17/33) and big-number widths 65..256, plus a "
        "depth-2 family context(inner) where the context is sensitive to bits above the inner expression's width, and "
        "all-constant operand shapes (both / all three operands ExprInt, unary operators, extensions, slices, compositions and "
        "conditions of ExprInt, 32-bit-boundary constants as left operand) at widths around the 32-bit C literal boundary and at "
        "big-number widths whose top 32-bit word is partial; each "
        "compiled function is evaluated on every operand tuple (all values for widths <= 4, B(w) x B(w) above, a reduced "
        "boundary set for 3-operand shapes).  distinct = (expression, operand tuple); a case is non-trivial when its "
        "reference is defined and the tuple is not all-zero")
LEVEL_TEXT = ("Bounded-exhaustive: the complete lattice of accepted operators x width classes x operand shapes is translated by "
              "the real translator, compiled against the working tree's runtime and executed on the whole boundary lattice "
              "(INT_MIN dividends, divisor -1, shift/rotation counts 0, size-1, size, size+1, >= 64, >= 2^31/2^32/2^64), and each "
              "result is compared with an independent evaluator; stdout, signals, exit() and compile failures are observed "
              "per case.  The C helpers are per-type instantiations (8/16/32/64) or size-generic loops, so the native widths "
              "plus the limb-aligned and unaligned big-number widths exercise every instantiation.")
LEVEL_NOTE = ("Trusted: mc/refsem.py, gcc, the C driver emitted by this module (DRIVER_HEAD/DRIVER_MAIN).  Not covered: memory operands "
              "(MEM_LOOKUP_* need a live jitcpu; C20/C24/C49), operators without a reference meaning (fpu_*, segm, x86_cpuid, "
              "access_*/load_*), depth > 2, values outside the boundary lattice for widths > 4, the per-C-type operators "
              "(shifts, div/mod, rotations outside 9/17/33) at non power-of-two widths (recorded under "
              "coverage.odd_width_per_type_probe for information: the translator emits uintN_t for such N).")
TECHNIQUE = "complete enumeration of operator x width x operand-shape lattice, compiled C vs reference evaluator on boundary tuples"
ASSUMPTIONS = ["mc/refsem.py states miasm's constant evaluation (tied to it by C03); division and modulo by zero are undefined "
               "(skipped in C, counted)",
               "'!' has no entry in mc.refsem: it is given the meaning TranslatorC implements (bitwise complement on the operand "
               "width) and evaluated by the reference as x ^ mask; an ExprLoc evaluates to its offset in the LocationDB",
               "identifiers hold values below 2^width (the jitter masks every assignment) in a C variable of the type the "
               "jitter declares: uintN_t, N = next power of two >= max(width, 8); bn_t above 64 bits",
               "the value of a translated expression is observed the way CGen.gen_c_assignments consumes it: masked to the "
               "expression width",
               "op_semantics.c / bn.c are built with the flags mc.native uses for the extensions (-O2 -fno-strict-overflow "
               "-DNDEBUG, as python's sysconfig CFLAGS do: require() is compiled out); generated code with -O3 like a JIT block"]

NATIVE = (8, 16, 32, 64)
ODD_QUICK = (1, 2, 3, 4, 7, 9, 13, 17, 33, 63)
ODD_THOROUGH = tuple(w for w in range(1, 64) if w not in NATIVE)
BN_QUICK = (65, 96, 127, 128, 129, 192, 255, 256)
BN_THOROUGH = (65, 66, 80, 95, 96, 97, 127, 128, 129, 160, 191, 192, 193, 224, 255, 256)
RCL = (9, 17, 33)
NESTED_QUICK = (8, 32, 64, 128)
NESTED_THOROUGH = (3, 8, 13, 16, 32, 33, 64, 65, 128, 256)
# widths of the all-constant shapes: around the 32-bit C literal boundary, plus big numbers whose top 32-bit word is partial
CONST_QUICK = (31, 32, 33, 48, 64, 65, 72, 80, 127)
CONST_THOROUGH = (17, 24, 31, 32, 33, 40, 48, 56, 63, 64, 65, 72, 80, 96, 112, 120, 127, 129, 176)
PROBE_ODD = (13,)
NSHARDS_QUICK = 16
NSHARDS_THOROUGH = 32
MAX_PER_SIG = 2
TICK_MS = 10               # period of the CPU-time tick; two ticks inside one evaluation make a *suspected* run-away loop
CONFIRM_TICKS = 20         # a suspected case is run again and must survive that many ticks (0.2 s of CPU; the slowest
                           # helper, bignum_smod, needs < 0.1 ms) to be reported as a time-out
MAX_CONFIRMED = 1          # confirmed time-outs per function; later suspected ones are not confirmed and not judged (counted)
MAX_FAULTS = 4              # memory faults per function (each costs a fresh process); the remaining cases are then not run (counted)
MAX_TIMEOUTS = 8            # after that many in one function its remaining cases are not run (counted)

NARY = ["+", "*", "&", "|", "^"]
SHIFTS = ["<<", ">>", "a>>"]
ROTS = ["<<<", ">>>"]
DIVS = ["udiv", "umod", "sdiv", "smod"]
CMPS = ["==", "<u", "<s", "<=u", "<=s"]
CNT = ["cntleadzeros", "cnttrailzeros"]

SIGNAMES = {4: "SIGILL", 6: "SIGABRT", 7: "SIGBUS", 8: "SIGFPE", 11: "SIGSEGV", 26: "SIGVTALRM (CPU-time bound: run-away loop)"}
# outcome part of a signature.  "wrong" = the value differs from the reference OR the call hit a memory fault / abort /
# damaged its caller: with require() compiled out these are manifestations of the same undefined behaviour (negative
# shift counts, out-of-bounds limb indexes) and which one shows depends on the stack content, so they share a class.
OUTCOME_OF_SIGNAL = {8: "SIGFPE", 26: "timeout"}


def mask(w):
    return (1 << w) - 1


def wclass(w):
    if w > 64:
        return "bn"
    if w in NATIVE:
        return "native%d" % w
    return "odd<64"


def cat(w):
    return "bn" if w > 64 else "nat"


def vals(w):
    """all values for w <= 4, the boundary lattice above"""
    if w <= 4:
        return list(range(1 << w))
    return refsem.boundary(w)


def small(w):
    """reduced boundary set for 3-operand shapes and constant operands"""
    if w <= 2:
        return list(range(1 << w))
    m = mask(w)
    s = {0, 1, 1 << (w - 1), (1 << (w - 1)) - 1, m, m - 1, int("55" * ((w + 7) // 8), 16) & m}
    return sorted(s)


def kconsts(w, quick):
    """constants used as the second operand inside an expression"""
    m = mask(w)
    if quick:
        return sorted({w & m, 1 << (w - 1), m})
    s = {0, 1, (w - 1) & m, w & m, (w + 1) & m, 1 << (w - 1), m}
    if w > 7:
        s.add(64 & m)
    if w > 32:
        s.add(1 << 32)
    if w > 64:
        s.add(1 << 64)
        s.add((1 << 64) + 1)
    return sorted(s)


# ------------------------------------------------------------------ expression specs (json round-trippable)

def I(name, w):
    return ["id", name, w]


def K(v, w):
    return ["int", v & mask(w), w]


def OP(op, *args):
    return ["op", op, list(args)]


def SL(arg, start, stop):
    return ["slice", arg, start, stop]


def CO(*args):
    return ["compose", list(args)]


def CD(c, a, b):
    return ["cond", c, a, b]


def LOC(offset, w):
    """ExprLoc of width w whose location has that offset in the translator's LocationDB"""
    return ["loc", offset, w]


def build(spec, db=None):
    import miasm.expression.expression as E
    k = spec[0]
    if k == "id":
        return E.ExprId(str(spec[1]), spec[2])
    if k == "int":
        return E.ExprInt(spec[1], spec[2])
    if k == "loc":
        return E.ExprLoc(db.get_or_create_offset_location(spec[1]), spec[2])
    if k == "op":
        return E.ExprOp(str(spec[1]), *[build(x, db) for x in spec[2]])
    if k == "slice":
        return E.ExprSlice(build(spec[1], db), spec[2], spec[3])
    if k == "compose":
        return E.ExprCompose(*[build(x, db) for x in spec[1]])
    if k == "cond":
        return E.ExprCond(build(spec[1], db), build(spec[2], db), build(spec[3], db))
    raise ValueError(spec)


def ref_spec(spec):
    """The same expression for the reference evaluator: '!' (bitwise complement, `(~x)&mask` / bignum_not in TranslatorC)
    has no entry in mc.refsem and is stated as x ^ mask."""
    k = spec[0]
    if k in ("id", "int", "loc"):
        return spec
    if k == "op":
        args = [ref_spec(x) for x in spec[2]]
        if spec[1] == "!" and len(args) == 1:
            w = spec_size(args[0])
            return ["op", "^", [args[0], K(mask(w), w)]]
        return ["op", spec[1], args]
    if k == "slice":
        return ["slice", ref_spec(spec[1]), spec[2], spec[3]]
    if k == "compose":
        return ["compose", [ref_spec(x) for x in spec[1]]]
    return ["cond"] + [ref_spec(x) for x in spec[1:]]


def spec_ids(spec, out=None):
    """identifiers of a spec: sorted list of (name, width)"""
    top = out is None
    if out is None:
        out = {}
    k = spec[0]
    if k == "id":
        out[spec[1]] = spec[2]
    elif k == "op":
        for x in spec[2]:
            spec_ids(x, out)
    elif k == "slice":
        spec_ids(spec[1], out)
    elif k == "compose":
        for x in spec[1]:
            spec_ids(x, out)
    elif k == "cond":
        for x in spec[1:]:
            spec_ids(x, out)
    if top:
        return sorted(out.items())
    return None


def spec_size(spec):
    k = spec[0]
    if k in ("id", "int", "loc"):
        return spec[2]
    if k == "slice":
        return spec[3] - spec[2]
    if k == "compose":
        return sum(spec_size(x) for x in spec[1])
    if k == "cond":
        return spec_size(spec[2])
    op = spec[1]
    if op in CMPS or op in ("parity", "bcdadd_cf") or op.startswith("FLAG_") or op.startswith("CC_"):
        return 1
    if op.startswith("zeroExt_") or op.startswith("signExt_"):
        return int(op[8:])
    return spec_size(spec[2][0])


def spec_str(spec):
    k = spec[0]
    if k == "id":
        return "%s:%d" % (spec[1], spec[2])
    if k == "int":
        return "0x%x:%d" % (spec[1], spec[2])
    if k == "loc":
        return "loc@0x%x:%d" % (spec[1], spec[2])
    if k == "op":
        return "%s(%s)" % (spec[1], ", ".join(spec_str(x) for x in spec[2]))
    if k == "slice":
        return "%s[%d:%d]" % (spec_str(spec[1]), spec[2], spec[3])
    if k == "compose":
        return "{%s}" % ", ".join(spec_str(x) for x in spec[1])
    return "(%s ? %s : %s)" % tuple(spec_str(x) for x in spec[1:])


# ------------------------------------------------------------------ the lattice

def F(tag, wc, fam, w, spec, lists=None, inner=None, probe=False):
    ids = spec_ids(spec)
    if lists is None:
        lists = [vals(iw) if len(ids) <= 2 else small(iw) for _, iw in ids]
    return {"tag": tag, "wc": wc, "fam": fam, "w": w, "spec": spec, "lists": lists, "inner": inner, "probe": probe}


def fam_of(op):
    if op in DIVS:
        return "div"
    if op in SHIFTS:
        return "shift"
    if op in ROTS:
        return "rot"
    if op in CMPS:
        return "cmp"
    return "any"


def binary_ops(w):
    """binary operators in the space at width w"""
    ops = list(NARY) + ["-"] + list(CMPS)
    if w in NATIVE or w > 64:
        ops += SHIFTS + DIVS + ROTS
    elif w in RCL:
        ops += ROTS
    return ops


def ext_targets(w):
    s = set([w + 1, 8, 16, 32, 64, 65, 128, 256])
    if w > 64:
        s |= {w + 63, w + 64}
    return [t for t in sorted(s) if w < t <= 256]


def slices(w):
    s = set([(0, 1), (w - 1, w), (0, w), (0, w // 2), (w // 2, w), (1, w - 1), (1, w)])
    if w > 64:
        s |= {(0, 64), (0, 65), (63, 64), (64, 65), (60, 70), (64, w), (w - 64, w), (w - 65, w), (1, 65), (32, 96 if w >= 96 else w)}
    return sorted((a, b) for a, b in s if 0 <= a < b <= w)


def splits(W):
    s2 = set([(1, W - 1), (W - 1, 1), (W // 2, W - W // 2)])
    s3 = set([(1, W - 2, 1), (W // 3, W // 3, W - 2 * (W // 3))])
    if W > 64:
        s2 |= {(64, W - 64), (W - 64, 64)}
        s3 |= {(32, W - 64, 32), (1, 64, W - 65)}
        if W > 129:
            s2 |= {(65, W - 65)}
    out = [p for p in sorted(s2) if all(x > 0 for x in p)]
    out += [p for p in sorted(s3) if all(x > 0 for x in p)]
    return out


def cond_widths(w, rich):
    s = [1, w]
    if rich:
        s += [7, 8, 32, 64, 65, 128, 256]
    return sorted(set(s))


def depth1(w, quick):
    """every shape at principal width w over leaves"""
    a, b, c = I("a", w), I("b", w), I("c", w)
    wc = wclass(w)
    out = []
    # literals
    for v in (small(w) if quick else vals(w)):
        out.append(F("int", wc, "any", w, K(v, w)))
    # binary operators: ids, constant second operand, constant first operand
    for op in binary_ops(w):
        if op in ("bcdadd", "bcdadd_cf"):
            continue
        fam = fam_of(op)
        out.append(F(op, wc, fam, w, OP(op, a, b)))
        for k in kconsts(w, quick):
            out.append(F(op, wc, fam, w, OP(op, a, K(k, w))))
        for k in ([1 << (w - 1)] if quick else small(w)):
            out.append(F(op, wc, fam, w, OP(op, K(k, w), b)))
    if w == 16:
        for op in ("bcdadd", "bcdadd_cf"):
            out.append(F(op, wc, "any", w, OP(op, a, b)))
            out.append(F(op, wc, "any", w, OP(op, a, K(0x999, w))))
    # 3-ary
    for op in NARY:
        out.append(F(op + "3", wc, "any", w, OP(op, a, b, c)))
        out.append(F(op + "3", wc, "any", w, OP(op, a, b, K(mask(w), w))))
    # unary
    for op in ["-", "!", "parity"] + CNT:
        out.append(F({"-": "neg", "!": "not"}.get(op, op), wc, "any", w, OP(op, a)))
    # extensions
    for t in ext_targets(w):
        twc = "%s->%s" % (wc, wclass(t))
        out.append(F("zeroExt", twc, "any", w, OP("zeroExt_%d" % t, a)))
        out.append(F("signExt", twc, "any", w, OP("signExt_%d" % t, a)))
    # slices
    for (s, e) in slices(w):
        out.append(F("slice", "%s->%s" % (cat(w), cat(e - s)) if w > 64 else wc, "any", w, SL(a, s, e)))
    # compose with total width w
    if w >= 2:
        for parts in splits(w):
            names = "abc"
            args = [I(names[i], pw) for i, pw in enumerate(parts)]
            pc = "+".join(sorted(set(cat(pw) for pw in parts)))
            cwc = wc if w <= 64 else "bn<-" + pc
            out.append(F("compose%d" % len(parts), cwc, "any", w, CO(*args)))
            args2 = list(args)
            args2[-1] = K(mask(parts[-1]) ^ 1 if parts[-1] > 1 else 1, parts[-1])
            out.append(F("compose%d" % len(parts), cwc, "any", w, CO(*args2)))
    # cond
    for cw in cond_widths(w, w in (8, 128)):
        cc = I("c", cw)
        out.append(F("cond", "%s,cond:%s" % (wc, cat(cw)), "any", w, CD(cc, a, b)))
        out.append(F("cond", "%s,cond:%s" % (wc, cat(cw)), "any", w, CD(cc, a, K(mask(w) >> 1, w))))
    return out


def contexts(w):
    """contexts sensitive to bits above the width of their operand X (an expression of width w)"""
    def ctx(X):
        b = I("c", w)
        out = [("cond", CD(X, K(1, 8), K(2, 8))),
               (">>", OP(">>", X, K(1, w))) if (w in NATIVE or w > 64) else None,
               ("udiv", OP("udiv", X, K(3, w))) if (w in NATIVE or w > 64) and w >= 2 else None,
               ("==", OP("==", X, b)),
               ("<u", OP("<u", X, b)),
               ("<s", OP("<s", X, b)),
               ("slice", SL(X, w - 1, w)),
               ("slice", SL(X, w // 2, w)) if w >= 2 else None,
               ("zeroExt", OP("zeroExt_%d" % (2 * w if w != 256 else 256), X)) if w < 256 else None,
               ("signExt", OP("signExt_%d" % (w + 8), X)) if w + 8 <= 256 else None,
               ("cntleadzeros", OP("cntleadzeros", X)),
               ("neg", OP("-", X)),
               ("not", OP("!", X)),
               ("+", OP("+", X, b)),
               ("compose2", CO(X, K(0, 8))) if w + 8 <= 256 else None,
               ]
        return [x for x in out if x is not None]
    return ctx


def nested(w):
    a, b = I("a", w), I("b", w)
    wc = wclass(w)
    inners = []
    for op in binary_ops(w):
        if spec_size(OP(op, a, b)) != w:
            continue
        inners.append((op, OP(op, a, b)))
    inners.append(("neg", OP("-", a)))
    inners.append(("not", OP("!", a)))
    for op in CNT:
        inners.append((op, OP(op, a)))
    if w >= 2:
        inners.append(("compose2", CO(I("a", w // 2), I("b", w - w // 2))))
        inners.append(("slice", SL(I("a", min(2 * w, 256)), 0, w)) if min(2 * w, 256) > w else ("slice", SL(I("a", w), 0, w)))
    inners.append(("cond", CD(I("a", w), I("b", w), K(mask(w), w))))
    if w > 1:
        inners.append(("signExt", OP("signExt_%d" % w, I("a", w - 1))))
    out = []
    ctx = contexts(w)
    for itag, ispec in inners:
        for ctag, cspec in ctx(ispec):
            ids = spec_ids(cspec)
            lists = [small(iw) if len(ids) > 2 else vals(iw) for _, iw in ids]
            out.append(F("%s(%s)" % (ctag, itag), wc, fam_of(ctag), w, cspec, lists=lists, inner=[itag, ctag]))
    return out


def cvals(w):
    """constants of the all-constant shapes: the 32-bit literal boundary and the width's own boundary"""
    m = mask(w)
    s = {0, 1, 0x7fffffff, 0x80000000, 0xffffffff, 0x100000000, 0x1ffffffff, 1 << (w - 1), m - 1, m}
    if w > 64:
        top = ((w - 1) // 32) * 32                      # lowest bit of the top (possibly partial) 32-bit word
        s |= {1 << 64, (1 << 64) - 1, 1 << top, m ^ ((1 << top) - 1), int("a5" * 32, 16) & m, (1 << (w - 1)) | 1}
    return sorted(v for v in s if v <= m)


def cpairs(w, quick):
    m = mask(w)
    imin = 1 << (w - 1)
    if w > 64:
        top = ((w - 1) // 32) * 32
        hi = m ^ ((1 << top) - 1)                      # only the top partial word set
        ps = [(m, 1), (imin, m), (hi, 3), (int("a5" * 32, 16) & m, hi)]
        if not quick:
            ps += [(1 << 64, (1 << 64) - 1), (imin | 1, imin)] + [(x, hi) for x in cvals(w)]
    elif quick:
        ps = [(0xffffffff, 1), (0x7fffffff, 0x7fffffff), (0x80000000, 0x80000000), (0x100000000, 0xffffffff), (imin, m),
              (2, 0x80000000)]
    else:
        ps = [(0xffffffff, 1), (0x7fffffff, 0x7fffffff), (0x80000000, 0x80000000), (0x100000000, 0xffffffff), (imin, m),
              (2, 0x80000000), (m, 1), (1, 0xffffffff), (0x80000000, 1), (0x7fffffff, 1), (0xffffffff, 0xffffffff)]
        ps += [(x, 0x80000000) for x in cvals(w)] + [(x, m) for x in cvals(w)]
    out = []
    for x, y in ps:
        if x <= m and y <= m and (x, y) not in out:
            out.append((x, y))
    return out


def constfam(w, quick):
    """all-constant operand shapes and 32-bit-boundary constants as LEFT operand (a C literal's type depends on its value
    and suffix, not on the expression width)"""
    wc = wclass(w)
    b = I("b", w)
    m = mask(w)
    out = []
    for op in binary_ops(w):
        fam = fam_of(op)
        for x, y in cpairs(w, quick):
            out.append(F(op + "#const", wc, fam, w, OP(op, K(x, w), K(y, w))))
        if w <= 64:
            for x in (0x7fffffff, 0x80000000, 0xffffffff, 0x100000000):
                if x <= m:
                    out.append(F(op, wc, fam, w, OP(op, K(x, w), b)))
    if w > 64:
        top = ((w - 1) // 32) * 32
        uvals = sorted({m ^ ((1 << top) - 1), m, 1 << (w - 1)}) if quick else cvals(w)
    else:
        uvals = [v for v in (0x80000000, 0xffffffff, 0x100000000, m) if v <= m] if quick else cvals(w)
    uvals = sorted(set(uvals))
    for x in uvals:
        k = K(x, w)
        for op in ["-", "!", "parity"] + CNT:
            out.append(F({"-": "neg", "!": "not"}.get(op, op) + "#const", wc, "any", w, OP(op, k)))
        for t in ([64, 128] if quick else [64, 65, 128, 256]):
            if t > w:
                twc = "%s->%s" % (wc, wclass(t))
                if not quick:
                    out.append(F("zeroExt#const", twc, "any", w, OP("zeroExt_%d" % t, k)))
                out.append(F("signExt#const", twc, "any", w, OP("signExt_%d" % t, k)))
        for (lo, hi) in ((0, w // 2), (w // 2, w), (1, w)):
            if 0 <= lo < hi <= w:
                out.append(F("slice#const", ("%s->%s" % (cat(w), cat(hi - lo))) if w > 64 else wc, "any", w, SL(k, lo, hi)))
        out.append(F("cond#const", wc, "any", w, CD(k, K(x ^ m, w), K(1, w))))
    # compositions of constants with total width w
    h = w // 2
    for x, y in cpairs(w, quick)[:4]:
        out.append(F("compose2#const", wc if w <= 64 else "bn<-" + "+".join(sorted({cat(h), cat(w - h)})), "any", w,
                     CO(K(x, h), K(y, w - h))))
    # 3 operands, all constant
    for op in NARY:
        for t in ((0xffffffff, 1, 1), (0x7fffffff, 0x7fffffff, 2), (m, m, m), (0x80000000, 0x80000000, 0x100000000),
                  (1 << (w - 1), m, 3)):
            if all(v <= m for v in t):
                out.append(F(op + "3#const", wc, "any", w, OP(op, *[K(v, w) for v in t])))
    return out


def locfam(quick):
    """ExprLoc with an offset in the translator's LocationDB: another literal-emitting node"""
    out = []
    for w in (32, 48, 64, 128):
        wc = wclass(w)
        a = I("a", w)
        offs = [0x10, 0x7fffffff, 0x80000000, 0xffffffff] + ([0x100000000, 0xffffffff00000000 & mask(w)] if w > 32 else [])
        for o in offs:
            L = LOC(o, w)
            out.append(F("loc", wc, "any", w, L))
            out.append(F("+", wc, "any", w, OP("+", L, a)))
            out.append(F("-", wc, "any", w, OP("-", a, L)))
            out.append(F("+#const", wc, "any", w, OP("+", L, K(1, w))))
            out.append(F("neg#loc", wc, "any", w, OP("-", L)))
            out.append(F("+#loc", wc, "any", w, OP("+", L, LOC(1, w))))
            out.append(F("==", wc, "cmp", w, OP("==", L, a)))
            out.append(F("cond", wc + ",cond:" + cat(w), "any", w, CD(a, L, K(0, w))))
    return out



def probes(w):
    """per-C-type operators at a width that is not a power of two: information only"""
    a, b = I("a", w), I("b", w)
    out = []
    for op in SHIFTS + DIVS + ([] if w in RCL else ROTS):
        out.append(F(op, "odd<64", fam_of(op), w, OP(op, a, b), lists=[small(w), [1, 2]], probe=True))
    return out


def not_accepted_probes():
    a, b = I("a", 8), I("b", 8)
    a1, b1 = I("a", 1), I("b", 1)
    out = [F(op, "native8", "any", 8, OP(op, a, b), lists=[[1], [1]]) for op in ("/", "%", "**", "FLAG_EQ_CMP", "FLAG_ADD_CF",
                                                                                 "FLAG_SIGN_SUB")]
    out.append(F("CC_U<=", "odd<64", "any", 1, OP("CC_U<=", a1, b1), lists=[[1], [1]]))
    return out


def lattice(quick):
    odd = ODD_QUICK if quick else ODD_THOROUGH
    bn = BN_QUICK if quick else BN_THOROUGH
    nest = NESTED_QUICK if quick else NESTED_THOROUGH
    fs = []
    for w in sorted(set(NATIVE) | set(odd) | set(bn)):
        fs += depth1(w, quick)
    for w in nest:
        fs += nested(w)
    for w in (CONST_QUICK if quick else CONST_THOROUGH):
        fs += constfam(w, quick)
    fs += locfam(quick)
    for w in PROBE_ODD:
        fs += probes(w)
    fs += not_accepted_probes()
    seen = set()
    out = []
    for f in fs:
        key = spec_str(f["spec"])
        if key in seen:
            continue
        seen.add(key)
        f["key"] = key
        out.append(f)
    return out


# ------------------------------------------------------------------ C generation

def ctype(w):
    if w > 64:
        return "bn_t"
    n = 8
    while n < w:
        n <<= 1
    return "uint%d_t" % n


DRIVER_HEAD = r"""
#include <stdio.h>
#include <stdio_ext.h>
#include <stdlib.h>
#include <string.h>
#include <signal.h>
#include <setjmp.h>
#include <ucontext.h>
#include <unistd.h>
#include <sys/time.h>
#include <sys/types.h>
#include <sys/wait.h>
#include <sys/mman.h>
#include <sys/prctl.h>

static sigjmp_buf c04_env;
static volatile sig_atomic_t c04_armed;
static volatile int c04_idx;
static volatile long c04_seq, c04_seen;
static volatile int c04_ticks, c04_need = 2;
static FILE *c04_res;

void c04_exit(int code)
{
	if (c04_armed) siglongjmp(c04_env, 1000 + (code & 0xff));
	_exit(code);
}

/* shared with the supervising parent */
struct c04_shared { size_t func; size_t first; int idx; int faults; };
static volatile struct c04_shared *c04_sh;

extern char __executable_start, etext;

static void c04_sig(int signo, siginfo_t *si, void *ucv)
{
	int in_exe = 1;
#if defined(__x86_64__) && defined(REG_RIP)
	/* siglongjmp() out of the C library is not safe (glibc runs the stdio cleanup handlers of the frames it skips, e.g.
	   those of the sscanf() in bignum_from_string): only jump when the interrupted code is the harness / the runtime */
	uintptr_t pc = (uintptr_t)((ucontext_t *)ucv)->uc_mcontext.gregs[REG_RIP];
	in_exe = pc >= (uintptr_t)&__executable_start && pc < (uintptr_t)&etext;
#endif
	(void)si;
	if (signo == SIGVTALRM) {
		/* periodic CPU-time tick: the c04_need-th one inside the same protected call ends it */
		if (!c04_armed) { c04_seen = -1; return; }
		if (c04_seen != c04_seq) { c04_seen = c04_seq; c04_ticks = 0; }
		if (++c04_ticks >= c04_need && in_exe) siglongjmp(c04_env, signo);
		return;
	}
	if (c04_armed && signo == SIGFPE && in_exe) siglongjmp(c04_env, signo);
	if (c04_armed) {
		/* memory fault / abort inside the protected call: report it and end this process, whose memory is not
		   trusted any more; the parent resumes with the next case in a fresh child */
		size_t pend;
		c04_armed = 0;
		fprintf(c04_res, "%d !S%d", c04_idx, signo);
		pend = __fpending(stdout);
		if (pend) { fflush(stdout); fprintf(c04_res, " O%lu", (unsigned long)pend); }
		fputc('\n', c04_res);
		fflush(c04_res);
		c04_sh->idx = c04_idx + 1;
		c04_sh->faults++;
		_exit(96);
	}
	/* a fault outside the protected call: the call damaged its caller's memory */
	fprintf(c04_res, "\n%d !C%d\n", c04_idx, signo);
	fflush(c04_res);
	_exit(97);
}

static bn_t c04_ld(const uint64_t *in)
{
	bn_t n;
	unsigned int i;
	for (i = 0; i < BN_ARRAY_SIZE; i++)
		n.array[i] = (DTYPE)(in[(i * WORD_SIZE) / 8] >> (((i * WORD_SIZE) % 8) * 8));
	return n;
}

static void c04_st(uint64_t *out, bn_t n)
{
	unsigned int i;
	out[0] = out[1] = out[2] = out[3] = 0;
	for (i = 0; i < BN_ARRAY_SIZE; i++)
		out[(i * WORD_SIZE) / 8] |= ((uint64_t)n.array[i]) << (((i * WORD_SIZE) % 8) * 8);
}

typedef void (*c04_fn)(const uint64_t *in, uint64_t *out);
struct c04_desc {
	int id; c04_fn fn; int nops; int wide;
	const uint64_t (*l0)[4]; int n0;
	const uint64_t (*l1)[4]; int n1;
	const uint64_t (*l2)[4]; int n2;
	const unsigned char *skip;
};
"""

DRIVER_MAIN = r"""
static int c04_iso;     /* argv[2] == "iso": every function starts in a fresh child */

static void c04_run(const struct c04_desc *d, int start)
{
	static uint64_t in[12], out[4];
	static size_t pend;
	static int i0, i1, i2, idx, timeouts, confirmed, attempt, n0, n1, n2, rc, from;
	FILE *res = c04_res;

	n0 = d->nops > 0 ? d->n0 : 1;
	n1 = d->nops > 1 ? d->n1 : 1;
	n2 = d->nops > 2 ? d->n2 : 1;
	idx = 0;
	timeouts = 0;
	confirmed = 0;
	from = start;
	for (i0 = 0; i0 < n0; i0++) for (i1 = 0; i1 < n1; i1++) for (i2 = 0; i2 < n2; i2++, idx++) {
		if (idx < from) continue;
		if (d->skip && d->skip[idx]) continue;
		if (timeouts >= C04_MAX_TIMEOUTS || c04_sh->faults >= C04_MAX_FAULTS) { fprintf(res, "%d !N\n", idx); continue; }
		memset(in, 0, sizeof(in));
		if (d->nops > 0) memcpy(in, d->l0[i0], 32);
		if (d->nops > 1) memcpy(in + 4, d->l1[i1], 32);
		if (d->nops > 2) memcpy(in + 8, d->l2[i2], 32);
		c04_idx = idx;
		attempt = 0;
again:
		out[0] = out[1] = out[2] = out[3] = 0;
		c04_need = attempt ? C04_CONFIRM_TICKS : 2;
		c04_seq++;
		rc = sigsetjmp(c04_env, 0);
		if (rc == 0) {
			c04_armed = 1;
			d->fn(in, out);
			c04_armed = 0;
			if (d->wide)
				fprintf(res, "%d =%llx%016llx%016llx%016llx", idx, (unsigned long long)out[3],
					(unsigned long long)out[2], (unsigned long long)out[1], (unsigned long long)out[0]);
			else
				fprintf(res, "%d =%llx", idx, (unsigned long long)out[0]);
		} else {
			c04_armed = 0;
			if (rc == SIGVTALRM && !attempt && confirmed < C04_MAX_CONFIRMED) {
				/* two ticks can be an accounting artefact on a loaded machine: run the case again with a long bound */
				attempt = 1;
				goto again;
			}
			if (rc >= 1000) fprintf(res, "%d !X%d", idx, rc - 1000);
			else if (rc == SIGVTALRM && !attempt) fprintf(res, "%d !U", idx);
			else fprintf(res, "%d !S%d", idx, rc);
			if (rc == SIGVTALRM) { timeouts++; confirmed += attempt; }
		}
		pend = __fpending(stdout);
		if (pend) { fflush(stdout); fprintf(res, " O%lu", (unsigned long)pend); }
		fputc('\n', res);
	}
}

int main(int argc, char **argv)
{
	static const int sigs[] = {SIGFPE, SIGSEGV, SIGBUS, SIGILL, SIGABRT, SIGVTALRM};
	/* static: a call that writes above its frame must not be able to rewind the loop */
	static const size_t n = sizeof(c04_table) / sizeof(c04_table[0]);
	static struct sigaction sa;
	static unsigned int s;
	static size_t j;

	prctl(PR_SET_PDEATHSIG, SIGKILL);
	if (argc < 2 || !(c04_res = fopen(argv[1], "a"))) return 98;
	c04_iso = argc > 2 && !strcmp(argv[2], "iso");
	/* isolated mode: one write per result line, so that an abrupt death loses nothing and the first missing case is
	   the one that killed the process */
	if (c04_iso) setvbuf(c04_res, NULL, _IOLBF, 0);
	c04_sh = mmap(NULL, sizeof(*c04_sh), PROT_READ | PROT_WRITE, MAP_SHARED | MAP_ANONYMOUS, -1, 0);
	if (c04_sh == MAP_FAILED) return 95;
	memset(&sa, 0, sizeof(sa));
	sa.sa_sigaction = c04_sig;
	sa.sa_flags = SA_NODEFER | SA_SIGINFO;
	sigemptyset(&sa.sa_mask);
	c04_sh->func = 0;
	c04_sh->idx = 0;
	c04_sh->faults = 0;

	/* The functions run in a child process.
	   - a memory fault inside a protected call ends the child (exit 96); a fresh child resumes with the next case;
	   - a fault outside a protected call (the call returned but damaged memory) or an abrupt death is charged to the
	     function being run only if that function started in a fresh child; otherwise the function is run again from
	     its first case in a fresh child ("R" line: earlier results of it are discarded) so that damage left behind by a
	     predecessor is never charged to an innocent function. */
	while (c04_sh->func < n) {
		pid_t pid;
		int st = 0;
		fflush(c04_res);
		fflush(stdout);
		c04_sh->first = c04_sh->func;
		pid = fork();
		if (pid < 0) return 96;
		if (pid == 0) {
			struct itimerval tv;
			static char obuf[1 << 16];
			prctl(PR_SET_PDEATHSIG, SIGKILL);
			setvbuf(stdout, obuf, _IOFBF, sizeof(obuf));
			for (s = 0; s < sizeof(sigs) / sizeof(sigs[0]); s++) sigaction(sigs[s], &sa, NULL);
			memset(&tv, 0, sizeof(tv));
			tv.it_value.tv_usec = tv.it_interval.tv_usec = C04_CPU_USEC;
			setitimer(ITIMER_VIRTUAL, &tv, NULL);
			for (j = c04_sh->func; j < n; j++) {
				if (j != c04_sh->func) { c04_sh->func = j; c04_sh->idx = 0; c04_sh->faults = 0; }
				if (c04_iso && j != c04_sh->first) { fflush(c04_res); fflush(stdout); _exit(94); }
				fprintf(c04_res, "F %d\n", c04_table[j].id);
				c04_run(&c04_table[j], c04_sh->idx);
				fflush(c04_res);     /* a later abrupt death must not lose this function's results */
			}
			c04_sh->func = n;
			fflush(c04_res);
			fflush(stdout);
			_exit(0);
		}
		while (waitpid(pid, &st, 0) < 0) ;
		if (WIFEXITED(st) && WEXITSTATUS(st) == 0) break;
		if (WIFEXITED(st) && (WEXITSTATUS(st) == 96 || WEXITSTATUS(st) == 94)) continue;
		if (c04_sh->func >= n) break;
		if (c04_sh->func != c04_sh->first) {
			fprintf(c04_res, "\nR %d\n", c04_table[c04_sh->func].id);
			c04_sh->idx = 0;
			c04_sh->faults = 0;
			continue;
		}
		if (!(WIFEXITED(st) && WEXITSTATUS(st) == 97))
			fprintf(c04_res, "\nD %d %d\n", c04_table[c04_sh->func].id,
				WIFSIGNALED(st) ? WTERMSIG(st) : 1000 + WEXITSTATUS(st));
		c04_sh->func++;
		c04_sh->idx = 0;
		c04_sh->faults = 0;
	}
	fprintf(c04_res, "END\n");
	fclose(c04_res);
	return 0;
}
"""


def include_block(shadow):
    """the include line of a JIT block: jitcore_gcc.gen_C_source + jitcore_cc_base.gen_core(arch x86)"""
    lib_dir = os.path.join(shadow, "miasm", "jitter")
    txt = "#define PARITY_IMPORT\n#include <Python.h>\n"
    for h in ("queue.h", "op_semantics.h", "vm_mngr.h", "bn.h", "vm_mngr_py.h", "JitCore.h", "arch/JitCore_x86.h"):
        txt += '#include "%s/%s"\n' % (lib_dir, h)
    return txt


def limbs(v):
    return "{%s}" % ",".join("0x%xULL" % ((v >> (64 * i)) & mask(64)) for i in range(4))


def gen_function(k, f, ctext):
    """C wrapper of one translated expression"""
    ids = spec_ids(f["spec"])
    size = spec_size(f["spec"])
    lines = ["static void f_%d(const uint64_t *in, uint64_t *out)" % k, "{"]
    for pos, (name, w) in enumerate(ids):
        if w > 64:
            lines.append("\tbn_t %s = c04_ld(in + %d);" % (name, 4 * pos))
        else:
            lines.append("\t%s %s = (%s)in[%d];" % (ctype(w), name, ctype(w), 4 * pos))
    if size > 64:
        lines.append("\tc04_st(out, bignum_mask(%s, %d));" % (ctext, size))
    else:
        lines.append("\tout[0] = (uint64_t)((%s)&0x%xULL);" % (ctext, mask(size)))
    lines.append("}")
    return "\n".join(lines)


def gen_file(shadow, items):
    """items: list of (k, f, ctext, skip or None). Returns C source."""
    src = [include_block(shadow), "#define C04_CPU_USEC %d\n#define C04_MAX_TIMEOUTS %d\n#define C04_MAX_FAULTS %d\n#define C04_CONFIRM_TICKS %d\n"
           "#define C04_MAX_CONFIRMED %d" % (TICK_MS * 1000, MAX_TIMEOUTS, MAX_FAULTS, CONFIRM_TICKS, MAX_CONFIRMED), DRIVER_HEAD]
    tables = {}
    table_src = []

    def table(lst):
        key = tuple(lst)
        if key not in tables:
            name = "c04_L%d" % len(tables)
            tables[key] = name
            table_src.append("static const uint64_t %s[][4] = {%s};" % (name, ",".join(limbs(v) for v in lst)))
        return tables[key]

    descs = []
    for k, f, ctext, skip in items:
        src.append(gen_function(k, f, ctext))
        ids = spec_ids(f["spec"])
        ent = []
        for pos in range(3):
            if pos < len(ids):
                ent.append("%s, %d" % (table(f["lists"][pos]), len(f["lists"][pos])))
            else:
                ent.append("0, 0")
        sk = "0"
        if skip is not None:
            table_src.append("static const unsigned char c04_S%d[] = {%s};" % (k, ",".join("1" if s else "0" for s in skip)))
            sk = "c04_S%d" % k
        descs.append("{%d, f_%d, %d, %d, %s, %s}" % (k, k, len(ids), 1 if spec_size(f["spec"]) > 64 else 0, ", ".join(ent), sk))
    src += table_src
    src.append("static const struct c04_desc c04_table[] = {\n%s\n};" % ",\n".join(descs))
    src.append(DRIVER_MAIN)
    return "\n".join(src) + "\n"


# ------------------------------------------------------------------ build + run

RT_FLAGS = ["-O2", "-fno-strict-overflow", "-DNDEBUG", "-w", "-Dexit=c04_exit"]
GEN_FLAGS = ["-w", "-fno-diagnostics-color", "-fmax-errors=0"]
GEN_OPT = {"quick": "-O0", "thorough": "-O3"}      # thorough compiles the generated code like a JIT block (cc -O3)
_opt = ["-O0"]


def runtime_objects(shadow):
    """op_semantics.o and bn.o of the working tree (cached next to the rebuilt extensions, keyed by the source hash)"""
    from mc import native
    key = native.source_hash()
    d = os.path.join(native.CACHE, key)
    os.makedirs(d, exist_ok=True)
    fl = hashlib.sha256(" ".join(RT_FLAGS).encode()).hexdigest()[:8]
    out = []
    for name in ("op_semantics", "bn"):
        obj = os.path.join(d, "c04_%s_%s.o" % (name, fl))
        if not os.path.exists(obj):
            tmp = obj + ".tmp%d" % os.getpid()
            cmd = ["gcc", "-c"] + RT_FLAGS + native.include_dirs() + [os.path.join(shadow, "miasm", "jitter", name + ".c"), "-o", tmp]
            p = subprocess.run(cmd, stdout=subprocess.PIPE, stderr=subprocess.STDOUT)
            if p.returncode:
                raise RuntimeError("building %s.c failed:\n%s" % (name, p.stdout.decode(errors="replace")[-3000:]))
            os.replace(tmp, obj)
        out.append(obj)
    return out


_FN_RE = re.compile(r"[Ii]n function [`'‘]?(f_\d+)")
_ERR_RE = re.compile(r"(?:error|undefined reference)[: ].*")


def norm_err(msg):
    msg = re.sub(r"[`'‘’][^`'‘’]*[`'‘’]", "", msg)
    msg = re.sub(r"\(.*?\)", "", msg)
    msg = re.sub(r"^error:\s*", "", msg)
    msg = re.sub(r"[0-9]+", "", msg)
    msg = re.sub(r"[^A-Za-z]+", "-", msg).strip("-")
    return msg[:48] or "error"


def failing_functions(text):
    """{function name: first error message} from gcc/ld diagnostics"""
    cur = None
    out = {}
    for line in text.splitlines():
        m = _FN_RE.search(line)
        if m:
            cur = m.group(1)
            m2 = _ERR_RE.search(line)          # ld prints function and message on one line
            if m2 and cur not in out:
                out[cur] = m2.group(0)
            continue
        m2 = _ERR_RE.search(line)
        if m2 and cur is not None and cur not in out:
            out[cur] = m2.group(0)
    return out


def compile_items(shadow, rt_objs, items, workdir, name):
    """Compile; functions gcc rejects are removed and reported. Returns ([exe...], items kept, {k: message})."""
    from mc import native
    env = dict(os.environ, LC_ALL="C", LANG="C")
    rejected = {}
    items = list(items)
    for attempt in range(6):
        if not items:
            return [], [], rejected
        cfile = os.path.join(workdir, "%s_%d.c" % (name, attempt))
        exe = os.path.join(workdir, "%s_%d.exe" % (name, attempt))
        with open(cfile, "w") as fd:
            fd.write(gen_file(shadow, items))
        cmd = ["gcc"] + _opt + GEN_FLAGS + native.include_dirs() + [cfile] + rt_objs + ["-lm", "-o", exe]
        p = subprocess.run(cmd, stdout=subprocess.PIPE, stderr=subprocess.STDOUT, env=env)
        if p.returncode == 0:
            return [exe], items, rejected
        text = p.stdout.decode(errors="replace")
        bad = failing_functions(text)
        bad = {int(n[2:]): m for n, m in bad.items()}
        present = set(k for k, _, _, _ in items)
        bad = {k: m for k, m in bad.items() if k in present}
        if not bad:
            if len(items) == 1:
                rejected[items[0][0]] = (_ERR_RE.search(text) or re.search(r".+", text)).group(0)
                return [], [], rejected
            # cannot attribute from the diagnostics: split
            half = len(items) // 2
            e1, k1, r1 = compile_items(shadow, rt_objs, items[:half], workdir, name + "a")
            e2, k2, r2 = compile_items(shadow, rt_objs, items[half:], workdir, name + "b")
            rejected.update(r1)
            rejected.update(r2)
            return e1 + e2, k1 + k2, rejected
        rejected.update(bad)
        items = [it for it in items if it[0] not in bad]
    raise RuntimeError("compile loop did not converge")


def run_exe(exe, workdir, iso=False):
    """Run one harness; returns ({k: {idx: (kind, value, stdout_bytes)}}, stdout size, completed, return code)"""
    res = exe + ".res"
    so = exe + ".stdout"
    with open(so, "wb") as fo:
        p = subprocess.run([exe, res] + (["iso"] if iso else []), stdin=subprocess.DEVNULL, stdout=fo, stderr=subprocess.DEVNULL, timeout=3600)
    out = {}
    cur = None
    done = False
    reruns = [0, 0]        # functions run again in a fresh process, stdout bytes of their discarded first attempts
    if os.path.exists(res):
        with open(res, errors="replace") as fd:
            for line in fd:
                parts = line.split()
                if not parts:
                    continue
                try:
                    if parts[0] == "F":
                        cur = out.setdefault(int(parts[1]), {})
                        continue
                    if parts[0] == "END":
                        done = True
                        continue
                    if parts[0] == "R":
                        # the function is run again from its first case in a fresh process: forget the first attempt
                        reruns[1] += sum(c[2] for c in out.get(int(parts[1]), {}).values())
                        cur = out[int(parts[1])] = {}
                        reruns[0] += 1
                        continue
                    if parts[0] == "D":
                        out.setdefault(int(parts[1]), {})[-1] = ("died", int(parts[2]), 0)
                        continue
                    idx = int(parts[0])
                    r = parts[1]
                    so_bytes = int(parts[2][1:]) if len(parts) > 2 else 0
                    if r[0] == "=":
                        cur[idx] = ("v", int(r[1:], 16), so_bytes)
                    elif r[1] == "N":
                        cur[idx] = ("notrun", 0, so_bytes)
                    elif r[1] == "U":
                        cur[idx] = ("unconfirmed", 0, so_bytes)
                    elif r[1] == "C":
                        prev = cur.get(idx)
                        cur[idx] = ("corrupt", int(r[2:]), prev[2] if prev else 0)
                        cur[-2] = ("cidx", idx, 0)
                    elif r[1] == "S":
                        cur[idx] = ("sig", int(r[2:]), so_bytes)
                    else:
                        cur[idx] = ("exit", int(r[2:]), so_bytes)
                except (ValueError, IndexError, TypeError):
                    if cur is not None:
                        cur[-1] = ("died", -1, 0)      # torn line: the child died while writing
    out[None] = tuple(reruns)
    return out, os.path.getsize(so), done and p.returncode == 0, p.returncode


# ------------------------------------------------------------------ judging

def operand_class(f, expr, ids, tup):
    fam = f["fam"]
    if fam == "any" or not expr.is_op() or len(expr.args) != 2:
        return "any"
    env = {i: v for i, v in zip(ids, tup)}
    try:
        x = refsem.ev(expr.args[0], env)
        y = refsem.ev(expr.args[1], env)
    except Exception:
        return "any"
    w = expr.args[0].size
    imin = 1 << (w - 1)
    if fam == "div":
        if x == imin and y == mask(w):
            return "INT_MIN/-1"
        if x == imin:
            return "INT_MIN-dividend"
        if y == imin:
            return "INT_MIN-divisor"
        return "%s/%s" % ("neg" if x >= imin else "pos", "neg" if y >= imin else "pos")
    if fam in ("shift", "rot"):
        if y == 0:
            return "count==0"
        if y < w:
            return "count<size"
        if y == w:
            return "count==size"
        if w > 64:
            # the translator hands the count to an `int` parameter through bignum_to_uint64
            return "count>size" if y < (1 << 31) else "count>=2^31"
        return "size<count<64" if y < 64 else "count>=64"
    if fam == "cmp":
        if x == y:
            return "equal"
        return "same-sign" if (x >= imin) == (y >= imin) else "diff-sign"
    return "any"


def translate(f, db):
    """(expr, ctext, None) | (expr, None, ('not-accepted'|'raises', text))"""
    from miasm.ir.translators.C import TranslatorC
    expr = build(f["spec"], db)
    try:
        txt = TranslatorC(loc_db=db).from_expr(expr)
    except NotImplementedError as e:
        return expr, None, ("not-accepted", "NotImplementedError: %s" % e)
    except Exception as e:         # noqa
        return expr, None, ("raises", "%s: %s" % (type(e).__name__, e))
    if not isinstance(txt, str):
        return expr, None, ("raises", "returned-%s" % type(txt).__name__)
    return expr, txt, None


def evaluate(funcs, shadow, rt_objs, workdir, name):
    """Translate, compile, run and judge a list of function records.
    Returns dict(violations=[(record, inner_key)], counters...)."""
    import miasm.expression.expression as E
    stats = {"functions": 0, "evaluations": 0, "nontrivial": 0, "undefined_skipped": 0, "not_accepted": {}, "raises": {},
             "per_op": {}, "compile_rejected": 0, "not_run_after_faults_or_timeouts": 0, "not_run_after_crash": 0, "isolated_reruns": 0, "suspected_timeouts_not_confirmed": 0, "functions_rerun_isolated": 0,
             "faults_not_reproduced_in_isolation": 0, "signals": 0, "exits": 0, "stdout_cases": 0, "outcomes": set(),
             "probe": {}, "faulty": [], "samples": []}
    vio = []
    items = []
    meta = {}
    import time
    import resource

    def cpu():
        c = resource.getrusage(resource.RUSAGE_CHILDREN)
        m = resource.getrusage(resource.RUSAGE_SELF)
        return c.ru_utime + c.ru_stime, m.ru_utime + m.ru_stime
    t0 = time.time()
    c0 = cpu()
    from miasm.core.locationdb import LocationDB
    db = LocationDB()
    for k, f in enumerate(funcs):
        expr, ctext, err = translate(f, db)
        op_key = "%s|%s" % (f["tag"], f["wc"])
        if err is not None:
            kind, text = err
            bucket = stats["not_accepted"] if kind == "not-accepted" else stats["raises"]
            ent = bucket.setdefault(op_key, {"n": 0, "first": "%s -> %s" % (f["key"], text)})
            ent["n"] += 1
            continue
        ids = [E.ExprId(str(n), w) for n, w in spec_ids(f["spec"])]
        expr = build(ref_spec(f["spec"]), db)      # from here on: the reference form ('!' stated as xor)
        try:
            fn = refsem.compile_expr(expr, ids, loc=lambda e: db.get_location_offset(e.loc_key))
        except refsem.Unsupported:
            stats["not_accepted"].setdefault(op_key + "|no-reference", {"n": 0, "first": f["key"]})["n"] += 1
            continue
        tuples = list(itertools.product(*f["lists"])) if ids else [()]
        exp = []
        skip = []
        for t in tuples:
            try:
                exp.append(fn(t, refsem.no_mem))
                skip.append(0)
            except refsem.Undefined:
                exp.append(None)
                skip.append(1)
        meta[k] = (f, expr, ids, tuples, exp, ctext)
        items.append((k, f, ctext, skip if any(skip) else None))

    t1 = time.time()
    c1 = cpu()
    exes, kept, rejected = compile_items(shadow, rt_objs, items, workdir, name)
    t2 = time.time()
    c2 = cpu()

    def add(f, sig, what, case, inner, oc="*"):
        case = dict(case, opt=_opt[0])
        vio.append({"v": violation(sig, what, case), "inner": inner, "key": f["key"], "probe": f["probe"], "w": f["w"],
                    "oc": oc})
        if inner is None and not f["probe"]:
            stats["faulty"].append((f["tag"], f["w"], oc))

    for k, msg in sorted(rejected.items()):
        f, expr, ids, tuples, exp, ctext = meta[k]
        stats["compile_rejected"] += 1
        sig = "%s|%s|compile-error:%s" % (f["tag"], f["wc"], norm_err(msg))
        add(f, sig, "accepted expression %s translated to `%s` does not compile/link: %s" % (f["key"], ctext, msg.strip()),
            {"spec": f["spec"], "vals": None, "tag": f["tag"], "wc": f["wc"], "fam": f["fam"], "w": f["w"]}, f["inner"])

    results = {}
    for exe in exes:
        out, so_size, ok, rc = run_exe(exe, workdir)
        nrerun, discarded = out.pop(None)
        stats["isolated_reruns"] += nrerun
        results.update(out)
        flagged = sum(c[2] for r in out.values() for c in r.values())
        if so_size != flagged + discarded or not ok:
            # the driver died or wrote to stdout outside a case: harness-level failure, never silent
            raise RuntimeError("harness %s: rc=%s completed=%s stdout=%d bytes, %d attributed to cases" % (exe, rc, ok, so_size, flagged))

    # Memory faults and deaths are judged only on a second, isolated run: every suspected function is compiled into a file
    # of its own and each starts in a fresh process, so that damage left behind by a predecessor (or a transient death
    # of the evaluating process) is never charged to an innocent function.
    def suspect(res):
        return any(c[0] in ("died", "corrupt") or (c[0] == "sig" and c[1] not in OUTCOME_OF_SIGNAL) for c in res.values())
    sus = [it for it in kept if suspect(results.get(it[0], {}))]
    if sus:
        exes2, kept2, rejected2 = compile_items(shadow, rt_objs, sus, workdir, name + "_iso")
        if rejected2 or len(kept2) != len(sus):
            raise RuntimeError("isolated re-run: functions that compiled before do not compile now")
        for exe in exes2:
            out, so_size, ok, rc = run_exe(exe, workdir, iso=True)
            nrerun, discarded = out.pop(None)
            flagged = sum(c[2] for r in out.values() for c in r.values())
            if so_size != flagged + discarded or not ok:
                raise RuntimeError("isolated harness %s: rc=%s completed=%s stdout=%d bytes, %d attributed to cases" % (
                    exe, rc, ok, so_size, flagged))
            for k2, r2 in out.items():
                if suspect(results[k2]) and not suspect(r2):
                    stats["faults_not_reproduced_in_isolation"] += 1
                results[k2] = r2
        stats["functions_rerun_isolated"] += len(sus)
    t3 = time.time()
    c3 = cpu()
    stats["seconds"] = {"translate+reference": t1 - t0, "compile": t2 - t1, "run": t3 - t2,
                        "cpu_translate+reference": c1[1] - c0[1], "cpu_compile": c2[0] - c1[0], "cpu_run": c3[0] - c2[0],
                        "cpu_parse": c3[1] - c2[1]}
    for k, f, ctext, skip in kept:
        f, expr, ids, tuples, exp, ctext = meta[k]
        res = results.get(k)
        if res is None:
            raise RuntimeError("no results for function %d (%s)" % (k, f["key"]))
        stats["functions"] += 1
        po = stats["per_op"].setdefault(f["tag"].split("(")[0] if f["inner"] is None else "nested", [0, 0])
        po[0] += 1
        per_sig = {}
        died_seen = False
        for idx, t in enumerate(tuples):
            if exp[idx] is None:
                stats["undefined_skipped"] += 1
                continue
            got = res.get(idx)
            if got is None:
                # the child of this function died: the first missing case is where (unless the driver said which one)
                if -2 in res or died_seen:
                    stats["not_run_after_crash"] += 1
                    continue
                if -1 not in res:
                    raise RuntimeError("case %d of %s missing from the result file" % (idx, f["key"]))
                died_seen = True
                got = ("died", res[-1][1], 0)
            kind, val, so_bytes = got
            if kind == "unconfirmed":
                stats["suspected_timeouts_not_confirmed"] += 1
                continue
            if kind == "notrun":
                stats["not_run_after_faults_or_timeouts"] += 1
                continue
            stats["evaluations"] += 1
            po[1] += 1
            if any(t):
                stats["nontrivial"] += 1
            bad = []
            if kind == "sig":
                stats["signals"] += 1
                bad.append((OUTCOME_OF_SIGNAL.get(val, "wrong"), "the call raised %s" % SIGNAMES.get(val, "signal %d" % val)))
            elif kind == "corrupt":
                stats["signals"] += 1
                bad.append(("wrong", "the call returned but damaged its caller's memory (the driver got %s afterwards)"
                            % SIGNAMES.get(val, "signal %d" % val)))
            elif kind == "died":
                stats["signals"] += 1
                bad.append(("wrong", "the evaluating process died (%s)" % SIGNAMES.get(val, "status %d" % val)))
            elif kind == "exit":
                stats["exits"] += 1
                bad.append(("exit", "the runtime called exit(%d)" % val))
            elif val != exp[idx]:
                bad.append(("wrong", "C value 0x%x, reference 0x%x" % (val, exp[idx])))
            if so_bytes:
                stats["stdout_cases"] += 1
                bad.append(("stdout", "%d byte(s) written to stdout" % so_bytes))
            if not bad:
                if len(stats["samples"]) < 3 and any(t) and idx % 7 == 3:
                    stats["samples"].append("%s @ %s -> 0x%x" % (f["key"], ["0x%x" % v for v in t], val))
                continue
            oc = operand_class(f, expr, ids, t)
            for outcome, text in bad:
                if outcome == "stdout":
                    sig = "%s|%s|stdout" % (f["tag"], f["wc"])
                else:
                    # context(inner) shapes: the operand class only serves the duplicate filter, one signature per shape
                    sig = "%s|%s|%s:%s" % (f["tag"], f["wc"], oc if f["inner"] is None else "any", outcome)
                stats["outcomes"].add(sig)
                n = per_sig.get(sig, 0)
                per_sig[sig] = n + 1
                if n >= MAX_PER_SIG:
                    if f["inner"] is None and not f["probe"] and n == MAX_PER_SIG:
                        stats["faulty"].append((f["tag"], f["w"], oc))
                    continue
                what = "%s with %s: %s; C: `%s`" % (
                    f["key"], ", ".join("%s=0x%x" % (i.name, v) for i, v in zip(ids, t)) or "no operand", text, ctext)
                add(f, sig, what, {"spec": f["spec"], "vals": list(t), "tag": f["tag"], "wc": f["wc"], "fam": f["fam"],
                                   "w": f["w"]}, f["inner"], oc)
    return vio, stats


def _worker(shard):
    funcs, shadow, rt_objs, name, opt = shard
    _opt[0] = opt
    workdir = tempfile.mkdtemp(prefix="c04_")
    try:
        vio, stats = evaluate(funcs, shadow, rt_objs, workdir, name)
    finally:
        shutil.rmtree(workdir, ignore_errors=True)
    stats["outcomes"] = sorted(stats["outcomes"])
    return vio, stats


def _setup():
    from mc import native
    shadow = native.activate(["JitCore_x86"])
    rt = runtime_objects(shadow)
    return shadow, rt


def run(ctx):
    shadow, rt = _setup()
    quick = ctx.quick
    funcs = lattice(quick)
    n = NSHARDS_QUICK if quick else NSHARDS_THOROUGH
    opt = GEN_OPT["quick" if quick else "thorough"]
    # the information-only probes (expected not to compile) get a shard of their own: no other file is compiled twice for them
    plain = [f for f in funcs if not f["probe"]]
    shards = [(plain[i::n], shadow, rt, "s%d" % i, opt) for i in range(n)]
    shards.append(([f for f in funcs if f["probe"]], shadow, rt, "probe", opt))
    res = ctx.pmap(_worker, shards)

    tot = {"functions": 0, "evaluations": 0, "nontrivial": 0, "undefined_skipped": 0, "compile_rejected": 0, "not_run_after_faults_or_timeouts": 0, "not_run_after_crash": 0, "isolated_reruns": 0, "suspected_timeouts_not_confirmed": 0, "functions_rerun_isolated": 0,
             "faults_not_reproduced_in_isolation": 0, "signals": 0,
           "exits": 0, "stdout_cases": 0, "not_run_after_faults_or_timeouts": 0, "not_run_after_crash": 0, "isolated_reruns": 0,
           "suspected_timeouts_not_confirmed": 0, "functions_rerun_isolated": 0, "faults_not_reproduced_in_isolation": 0}
    per_op = {}
    not_acc = {}
    raises = {}
    outcomes = set()
    faulty = set()
    samples = []
    allv = []
    secs = {"translate+reference": [], "compile": [], "run": [], "cpu_translate+reference": [], "cpu_compile": [], "cpu_run": [],
            "cpu_parse": []}
    for vio, st in res:
        for key in secs:
            secs[key].append(round(st["seconds"][key], 1))
        for k in tot:
            tot[k] += st[k]
        for op, (nf, ne) in st["per_op"].items():
            e = per_op.setdefault(op, [0, 0])
            e[0] += nf
            e[1] += ne
        for src, dst in ((st["not_accepted"], not_acc), (st["raises"], raises)):
            for key, ent in src.items():
                d = dst.setdefault(key, {"n": 0, "first": ent["first"]})
                d["n"] += ent["n"]
                d["first"] = min(d["first"], ent["first"])
        outcomes |= set(st["outcomes"])
        faulty |= set(tuple(x) for x in st["faulty"])
        samples += st["samples"]
        allv += vio

    probe_info = {}
    nested_skipped = 0
    faulty_ops = set((t, w) for t, w, _ in faulty)
    kept = {}
    for rec in allv:
        v = rec["v"]
        if rec["probe"]:
            probe_info.setdefault(v["sig"], v["what"])
            continue
        if rec["inner"] is not None:
            # context(inner): reported only when neither the inner operator (any operands) nor the context operator
            # (same operand class) already fails on plain identifiers at this width - those are reported on their own
            itag, ctag = rec["inner"]
            if (itag, rec["w"]) in faulty_ops or (ctag, rec["w"], rec["oc"]) in faulty or (ctag, rec["w"], "*") in faulty:
                nested_skipped += 1
                continue
        lst = kept.setdefault(v["sig"], [])
        if len(lst) < MAX_PER_SIG:
            lst.append(v)
    for sig in sorted(kept):
        ctx.add_violations(kept[sig])

    cov = dict(tot)
    cov.update({
        "functions_in_lattice": len(funcs),
        "distinct_nontrivial": tot["nontrivial"],
        "distinct_outcomes": len(outcomes),
        "not_accepted_expressions": sum(e["n"] for e in not_acc.values()),
        "translator_raises_expressions": sum(e["n"] for e in raises.values()),
        "not_accepted": not_acc,
        "translator_raises": raises,
        "per_operator_functions_evaluations": {k: per_op[k] for k in sorted(per_op)},
        "failing_signatures_before_nested_filter": sorted(outcomes),
        "nested_violations_skipped_inner_faulty": nested_skipped,
        "odd_width_per_type_probe": probe_info,
        "samples": samples[:6],
        "shard_seconds_max": {key: max(v) for key, v in secs.items()},
        "shard_seconds_sum": {key: round(sum(v), 1) for key, v in secs.items()},
        "exhaustive": True,
        "bounds": {"native": list(NATIVE), "odd": list(ODD_QUICK if quick else ODD_THOROUGH),
                   "bn": list(BN_QUICK if quick else BN_THOROUGH), "nested": list(NESTED_QUICK if quick else NESTED_THOROUGH),
                   "rcl": list(RCL), "probe_odd": list(PROBE_ODD), "const_shapes": list(CONST_QUICK if quick else CONST_THOROUGH), "values": "all for w<=4, refsem.boundary(w) above; "
                   "reduced 7-value set per operand for 3-operand shapes", "shards": n, "generated_code_optimisation": opt},
    })
    return cov


def replay(case):
    shadow, rt = _setup()
    _opt[0] = str(case.get("opt", "-O0"))
    spec = case["spec"]
    ids = spec_ids(spec)
    if case.get("vals") is None:
        lists = [[0] for _ in ids]
    else:
        lists = [[int(v)] for v in case["vals"]]
    f = {"tag": case["tag"], "wc": case["wc"], "fam": case["fam"], "w": case["w"], "spec": spec, "lists": lists,
         "inner": None, "probe": False, "key": spec_str(spec)}
    workdir = tempfile.mkdtemp(prefix="c04r_")
    try:
        vio, stats = evaluate([f], shadow, rt, workdir, "replay")
    finally:
        shutil.rmtree(workdir, ignore_errors=True)
    return [r["v"] for r in vio]
