"""C05 - the z3 translation agrees with the reference semantics.

Engine E2 (complete enumeration of a finite expression lattice x concrete assignments).
Oracle: mc.refsem (independent evaluator on Python integers).  z3 is used ONLY as a constant folder:
the term produced by TranslatorZ3 is closed by substituting a numeral for every identifier and a
K-array/Store chain for every memory array, and z3.simplify must return a numeral equal to the
reference value.  No Solver is ever created.

Space (mc.translattice / mc.exprgen, restricted to the node kinds TranslatorZ3 accepts - probed on the
real translator, a NotImplementedError means "not accepted" and is counted):
  d1    every node kind over leaves (2 identifiers + the constant alphabet), widths {1,2,3,4}, ALL valuations
  d2    every node kind with one depth-1 child at each position (spine), small widths, ALL valuations
  wide  every node kind over leaves at widths {8,16,32,64,128} (thorough: also odd widths), boundary lattice B(w)
  mem   reads through both byte orders, pointer widths {8,16,32}, data sizes 8..64 and non-byte multiples,
        pointers at the top of the address space (wrap-around), computed / conditional / loaded pointers;
        two memory contents
Division by zero valuations are excluded (refsem.Undefined, counted).
"""
import sys

from mc import translattice as T

PROP = "C05"
LEVEL = "exploration"
ENGINE = "enum"
RULE = ("every expression of the depth-1 lattice and of the depth-2 spine over the node kinds TranslatorZ3 accepts, at "
        "widths 1-4 under every valuation of its identifiers, and at widths 8..128 under the boundary lattice; memory "
        "reads under both byte orders x 3 pointer widths x 2 memory contents.  distinct = (expression, valuation, "
        "memory content); an expression is non-trivial when its reference value takes at least two different values "
        "over the valuations explored (the translation had to compute something)")
LEVEL_TEXT = ("Bounded-exhaustive: the complete depth-1 lattice and depth-2 spine of accepted operators at widths 1-4 under "
              "all valuations, plus machine widths on the boundary lattice, each closed z3 term folded and compared with an "
              "independent evaluator.  The translator is width-generic (per-operator code, no width-specific branches except "
              "the cnt*zeros loops and the double-width sign test of sdiv), so the small widths exercise every branch.")
LEVEL_NOTE = ("Trusted: mc/refsem.py and z3's constant folding of closed terms (z3.simplify; no solver).  Not covered: depth > 2, "
              "ExprLoc, ExprAssign, the translator's expression cache across expressions (a fresh translator per expression), "
              "widths above 4 bits beyond boundary values; reads whose size is not a byte multiple have no miasm meaning "
              "(symbexec asserts size % 8 == 0): they are translated and compared with a little-endian extension for "
              "information only (counters nonbyte_*).")
TECHNIQUE = "complete enumeration of a small-width expression lattice x all valuations, z3 as closed-term folder vs reference evaluator"
ASSUMPTIONS = ["mc/refsem.py states miasm's documented operator semantics ('/' and '%' unsigned, sdiv/smod truncating)",
               "division and modulo by zero are undefined (skipped and counted)",
               "z3.simplify folds a closed bit-vector/array term to the numeral it denotes"]

WIDE_QUICK = (8, 16, 32, 64, 128)
WIDE_THOROUGH = (5, 7, 8, 13, 16, 31, 32, 33, 63, 64, 65, 127, 128)
PTR_WIDTHS = (8, 16, 32)
DATA_QUICK = (8, 16, 32, 12)
DATA_THOROUGH = (8, 16, 24, 32, 64, 128, 1, 4, 12, 20, 33)
MAXW = 128


class Z3Backend(object):
    name = "z3"

    def __init__(self, big_endian):
        self.big_endian = big_endian
        self.f = T.folder()

    def translate(self, e):
        from miasm.ir.translators import Translator
        return Translator.to_language("z3", endianness=">" if self.big_endian else "<").from_expr(e)

    def evaluate(self, h, e, ids, vals, memctx):
        return self.f.close_and_fold(h, e, ids, vals, memctx)

    def show(self, e):
        return self.translate(e).sexpr().replace("\n", " ")


def make_backend(name, big_endian):
    if "/verif/.deps" not in sys.path:
        sys.path.insert(0, "/verif/.deps")
    return Z3Backend(big_endian)


def plan(quick):
    return T.standard_plan("z3", quick, WIDE_QUICK if quick else WIDE_THOROUGH, DATA_QUICK if quick else DATA_THOROUGH,
                           PTR_WIDTHS, MAXW, (False, True))


def run(ctx):
    pl = plan(ctx.quick)
    # import miasm + z3, create the z3 context and probe the translator once, before the pool forks
    # (16 workers importing and creating a context each cost more than the enumeration itself)
    for be in (False, True):
        T.probe(make_backend("z3", be))
    cov = T.run(ctx, make_backend, pl)
    cov["bounds"] = {"small_widths": list(T.SMALL), "all_valuations_up_to_bits": T.ALL_BITS,
                     "wide_widths": list(WIDE_QUICK if ctx.quick else WIDE_THOROUGH),
                     "pointer_widths": list(PTR_WIDTHS), "data_sizes": list(DATA_QUICK if ctx.quick else DATA_THOROUGH),
                     "byte_orders": ["<", ">"], "memory_contents": len(T.MEMS),
                     "plan": [[b, be, f, repr(pa)] for b, be, f, pa, _ in pl]}
    return cov


def replay(case):
    return T.replay(case, make_backend)
