"""C06 - the SMT-LIB2 translation agrees with the reference semantics.

Engine E2 (complete enumeration of a finite expression lattice x concrete assignments).
Oracle: mc.refsem.  The text emitted by TranslatorSMT2.from_expr is wrapped as

    <translator's own declarations: to_smt2() - identifiers as declare-fun, one Array per pointer width>
    (define-fun verif_out () (_ BitVec w) <text>)        ; w = size of the miasm expression (sort check)
    (declare-fun verif_res () (_ BitVec w))
    (assert (= verif_res verif_out))

and read back with z3.parse_smt2_string - an independent reader of the text.  The parsed term is closed by
substituting a numeral for every identifier and a K-array/Store chain for every memory array, and
z3.simplify must yield a numeral equal to the reference value.  No Solver is created (the trailing
"(check-sat)" of to_smt2 is removed before parsing).

Space: as C05 restricted to the node kinds TranslatorSMT2 accepts (probed), widths 1..64.
Division by zero valuations are excluded (refsem.Undefined, counted).
"""
import sys

from mc import translattice as T

PROP = "C06"
LEVEL = "exploration"
ENGINE = "enum"
RULE = ("every expression of the depth-1 lattice and of the depth-2 spine over the node kinds TranslatorSMT2 accepts, at "
        "widths 1-4 under every valuation of its identifiers, and at widths 8..64 under the boundary lattice; memory "
        "reads under both byte orders x 3 pointer widths x 2 memory contents.  distinct = (expression, valuation, "
        "memory content); an expression is non-trivial when its reference value takes at least two different values "
        "over the valuations explored")
LEVEL_TEXT = ("Bounded-exhaustive: the complete depth-1 lattice and depth-2 spine of accepted operators at widths 1-4 under "
              "all valuations, plus machine widths on the boundary lattice; the emitted SMT-LIB2 text is parsed by an "
              "independent reader (z3's SMT-LIB2 front end), closed, folded and compared with an independent evaluator.")
LEVEL_NOTE = ("Trusted: mc/refsem.py, z3's SMT-LIB2 parser and constant folding of closed terms (no solver).  Not covered: "
              "depth > 2, ExprLoc, ExprAssign (assert form), identifiers that are not SMT-LIB simple symbols, the "
              "translator's cache across expressions (fresh translator per expression), widths above 4 bits beyond boundary "
              "values; reads whose size is not a byte multiple (no miasm meaning, information only).")
TECHNIQUE = "complete enumeration of a small-width expression lattice x all valuations, SMT-LIB2 text parsed and folded vs reference evaluator"
ASSUMPTIONS = ["mc/refsem.py states miasm's documented operator semantics ('/' and '%' unsigned, sdiv/smod truncating)",
               "division and modulo by zero are undefined (skipped and counted)",
               "z3.parse_smt2_string reads SMT-LIB2 text faithfully and z3.simplify folds a closed term to its numeral"]

WIDE_QUICK = (8, 16, 32, 64)
WIDE_THOROUGH = (5, 7, 8, 13, 16, 31, 32, 33, 63, 64)
PTR_WIDTHS = (8, 16, 32)
DATA_QUICK = (8, 16, 32, 12)
DATA_THOROUGH = (8, 16, 24, 32, 64, 1, 4, 12, 20, 33)
MAXW = 64


class Unparsable(Exception):
    """The emitted text is not well-formed / well-sorted SMT-LIB2 of the expression's width."""


class SMT2Backend(object):
    name = "smt2"

    def __init__(self, big_endian):
        self.big_endian = big_endian
        self.f = T.folder()

    def emit(self, e):
        """-> (text of the expression, complete SMT-LIB2 script given to the parser)"""
        from miasm.ir.translators import Translator
        tr = Translator.to_language("smt2", endianness=">" if self.big_endian else "<")
        text = tr.from_expr(e)
        script = tr.to_smt2(["(define-fun verif_out () (_ BitVec %d) %s)" % (e.size, text),
                             "(declare-fun verif_res () (_ BitVec %d))" % e.size,
                             "(assert (= verif_res verif_out))"])
        script = script.replace("(check-sat)\n", "")
        return text, script

    def translate(self, e):
        z3 = self.f.z3
        text, script = self.emit(e)
        try:
            asserts = z3.parse_smt2_string(script)
        except z3.Z3Exception as ex:
            raise Unparsable("z3's SMT-LIB2 reader rejects the emitted text: %s" % str(ex)[:200])
        if len(asserts) != 1:
            raise ValueError("expected one assertion, parsed %d" % len(asserts))
        eq = asserts[0]
        res = z3.BitVec("verif_res", e.size)
        a, b = eq.arg(0), eq.arg(1)
        if a.eq(res):
            return b
        if b.eq(res):
            return a
        raise ValueError("unexpected parsed assertion %s" % eq.sexpr()[:200])

    def evaluate(self, h, e, ids, vals, memctx):
        return self.f.close_and_fold(h, e, ids, vals, memctx)

    def show(self, e):
        return self.emit(e)[0]


def make_backend(name, big_endian):
    if "/verif/.deps" not in sys.path:
        sys.path.insert(0, "/verif/.deps")
    return SMT2Backend(big_endian)


def plan(quick):
    return T.standard_plan("smt2", quick, WIDE_QUICK if quick else WIDE_THOROUGH, DATA_QUICK if quick else DATA_THOROUGH,
                           PTR_WIDTHS, MAXW, (False, True))


def run(ctx):
    pl = plan(ctx.quick)
    for be in (False, True):
        T.probe(make_backend("smt2", be))      # import miasm + z3 and probe once, before any fork
    cov = T.run(ctx, make_backend, pl)
    cov["bounds"] = {"small_widths": list(T.SMALL), "all_valuations_up_to_bits": T.ALL_BITS,
                     "wide_widths": list(WIDE_QUICK if ctx.quick else WIDE_THOROUGH),
                     "pointer_widths": list(PTR_WIDTHS), "data_sizes": list(DATA_QUICK if ctx.quick else DATA_THOROUGH),
                     "byte_orders": ["<", ">"], "memory_contents": len(T.MEMS),
                     "plan": [[b, be, f, repr(pa)] for b, be, f, pa, _ in pl]}
    return cov


def replay(case):
    return T.replay(case, make_backend)
