"""C07 - Python-source and expression-source translations are faithful.

Engine E2 (complete enumeration of finite expression lattices).

(a) TranslatorPython.  Lattice of mc.translattice restricted to the node kinds the translator accepts (probed;
    NotImplementedError = not accepted, counted), widths 1..64: all valuations at widths 1-4, boundary lattice
    above.  Oracle:  eval(src, {identifier names..., "memory": model_read}) == mc.refsem value, where
    memory(address, nbytes) is the only helper name the emitted source expects (read from the translator)
    and model_read returns the value of the nbytes-byte access at that address of a finite memory.
    The result must be a Python int.  Division by zero valuations are excluded (refsem.Undefined).
    Every `<<` in the emitted source goes through a value-preserving guard: a count in (2^16, 2^52] with a
    non-zero left operand is not evaluated (Python would build an integer of that many bits); counted under
    skipped_evals.

(b) TranslatorMiasm.  The whole exprgen lattice (every node kind except ExprLoc: the families C01 enumerates,
    all FLAG_*/CC_* operators included), ExprAssign (identifier, memory and slice destinations), and every
    node kind over identifier / operator names from a hostile alphabet (quotes, backslashes, spaces, newline,
    NUL, non-ASCII, empty, bytes).  Oracle: eval(src, vars(miasm.expression.expression)) `is` the expression.

Translator instances: the bulk families of (a) and (b) use a FRESH translator per expression (a case replays
alone).  History families use ONE instance across many expressions (Translator.from_expr caches per instance):
ordered pairs of width 61..128 expressions of every node kind differing only in a constant from the
hash-collision boundary alphabet of CPython ints (k*(2**61-1) +-1, 2**61, ...), and whole families (d1, hostile
names - str/bytes names hash alike -, wide, assign) translated in order by one instance, beyond the 1000 entries
of its bounded cache.  A violation found there records the history, which the replay regenerates.
"""
import ast
import itertools
import sys

from mc import exprgen, refsem, simplattice
from mc import translattice as T
from mc.runner import violation

PROP = "C07"
LEVEL = "exploration"
ENGINE = "enum"
RULE = ("(a) every expression of the depth-1 lattice and depth-2 spine over the node kinds TranslatorPython accepts, "
        "widths 1-4 under every valuation, widths 8..64 under the boundary lattice, memory reads at 3 pointer widths x 2 "
        "memory contents; distinct = (expression, valuation, memory content); non-trivial = the reference value takes at "
        "least two values over the valuations explored.  (b) every expression of the exprgen families (all node kinds), "
        "ExprAssign forms and hostile-name instances; distinct = expression; non-trivial = the expression has at least "
        "one non-leaf child or a name outside [A-Za-z0-9_]")
LEVEL_TEXT = ("Bounded-exhaustive: (a) the emitted Python source of every expression of a complete small-width lattice is "
              "evaluated under all valuations and compared with an independent evaluator; (b) the emitted construction source "
              "of every expression of the lattice (all node kinds, hostile names) is evaluated and must return the very same "
              "hash-consed object.  Both translators are structural recursions without width-specific branches.")
LEVEL_NOTE = ("Trusted: mc/refsem.py, CPython eval.  Not covered: depth > 2, ExprLoc (both translators: excluded by the "
              "property / emits a non-evaluable name), the from_ExprAssign form of TranslatorPython (a statement, not an "
              "expression), '<<' counts in "
              "(2^16, 2^52], memory reads whose size is not a byte multiple (no miasm meaning), expressions mixing "
              "pointer widths in (a) (memory(addr, n) cannot tell the address spaces apart).")
TECHNIQUE = "complete enumeration of a small-width expression lattice; eval() of the emitted source vs reference evaluator / object identity"
ASSUMPTIONS = ["mc/refsem.py states miasm's documented operator semantics ('/' and '%' unsigned)",
               "division and modulo by zero are undefined (skipped and counted)",
               "memory(address, nbytes) of the Python translation denotes the value of the nbytes-byte access at address",
               "identifier values are Python ints in [0, 2^size)"]

WIDE_QUICK = (8, 16, 32, 64)
WIDE_THOROUGH = (5, 7, 8, 13, 16, 31, 32, 33, 63, 64)
PTR_WIDTHS = (8, 16, 32)
DATA_QUICK = (8, 16, 32, 12)
DATA_THOROUGH = (8, 16, 24, 32, 64, 1, 4, 12, 20, 33)
MAXW = 64
SHL_LO = 1 << 16
SHL_HI = 1 << 52


# ------------------------------------------------------------------ (a) TranslatorPython

class _Guard(ast.NodeTransformer):
    def visit_BinOp(self, node):
        self.generic_visit(node)
        name = {ast.LShift: "__verif_shl", ast.Pow: "__verif_pow"}.get(type(node.op))
        if name is None:
            return node
        return ast.copy_location(ast.Call(func=ast.Name(id=name, ctx=ast.Load()), args=[node.left, node.right],
                                          keywords=[]), node)


def _shl(a, b):
    if type(b) is int and type(a) is int and a and SHL_LO < b <= SHL_HI:
        raise T.SkipEval("'<<' with a count in (2^16, 2^52]: Python would build an integer of that many bits")
    return a << b


def _pow(a, b):
    if type(b) is int and type(a) is int and a > 1 and b > SHL_LO:
        raise T.SkipEval("'**' with an exponent above 2^16: Python would build an integer of that many bits")
    return a ** b


class PyBackend(object):
    name = "python"
    big_endian = False

    def __init__(self, big_endian=False):
        pass

    def new_instance(self):
        from miasm.ir.translators import Translator
        return Translator.to_language("Python")

    def same(self, h1, h2):
        return h1["src"] == h2["src"]

    def src(self, e, tr=None):
        return (tr or self.new_instance()).from_expr(e)

    def translate(self, e, tr=None):
        """Fresh translator per expression unless an instance is given (history families)."""
        src = self.src(e, tr)
        # The emitted source is evaluated as emitted, except that every `a << b` / `a ** b` it contains goes through
        # a guard with the same value (same operand order): Python would build an integer of b bits, so a count in
        # (2^16, 2^52] with a non-zero left operand is not evaluated (SkipEval, counted); above 2^52 the real
        # operator is applied (it fails at once with MemoryError/OverflowError, which is reported).
        tree = _Guard().visit(ast.parse(src, "<TranslatorPython>", "eval"))
        code = compile(ast.fix_missing_locations(tree), "<TranslatorPython>", "eval")
        return {"src": src, "code": code, "ptr_sizes": T.mem_ptr_sizes(e)}

    def evaluate(self, h, e, ids, vals, memctx):
        memfn = memctx.read if memctx is not None else refsem.no_mem
        ns = {str(i): v for i, v in zip(ids, vals)}
        ns["__verif_shl"] = _shl
        ns["__verif_pow"] = _pow
        if memctx is not None:
            if len(h["ptr_sizes"]) != 1:
                raise T.SkipEval("several pointer widths in one expression: memory(addr, n) cannot tell them apart")
            ps = h["ptr_sizes"][0]
            ns["memory"] = lambda addr, n, ps=ps: refsem.h_mem(memfn, ps, addr, n)
        r = eval(h["code"], ns)
        if type(r) is not int:
            return ("wrong-type", type(r).__name__)
        return r

    def show(self, e):
        return self.src(e)


def make_backend(name, big_endian):
    return PyBackend()


def plan_a(quick):
    return T.standard_plan("python", quick, WIDE_QUICK if quick else WIDE_THOROUGH, DATA_QUICK if quick else DATA_THOROUGH,
                           PTR_WIDTHS, MAXW, (False,), quick_d2_widths=(1, 2, 3))


# ------------------------------------------------------------------ (b) TranslatorMiasm

HOSTILE = ["a", "a b", "a'b", 'a"b', "a\\b", "a\\'b", "é", "日本", "\n", "", "a\\", "'", '"', "\\", "\\\\",
           "x)", "ExprId('x', 8)", "%s", "%(a)s", "{0}", "\t", "\x00", " ", "'''", "\\N{BULLET}", "\udc80", b"a", b"\xff'"]
HOSTILE_OPS = ["a'b", 'a"b', "a\\", "\n", "é", "", "%s", "+'"]


def _E():
    import miasm.expression.expression as m
    return m


def fam_hostile(widths=(1, 2, 3, 8)):
    """Every node kind with one identifier replaced by a hostile-named one; hostile operator names."""
    E = _E()
    g = exprgen.Gen(tuple(w for w in widths if w <= 4) or (1, 2, 3))
    for name in HOSTILE:
        for w in widths:
            yield E.ExprId(name, w)
        for w in g.widths:
            h = E.ExprId(name, w)
            x = g.ids(w)[0]
            for tag, cws, build, comm in g.specs(w):
                t = build([g.ids(cw)[i % 2] for i, cw in enumerate(cws)])
                for cw in sorted(set(cws)):
                    r = t.replace_expr({g.ids(cw)[0]: E.ExprId(name, cw)})
                    if r is not t:
                        yield r
            yield E.ExprAssign(h, x)
            yield E.ExprAssign(x, h)
        p = E.ExprId(name, 8)
        yield E.ExprMem(p, 8)
        yield E.ExprMem(E.ExprOp("+", p, E.ExprInt(1, 8)), 16)
        yield E.ExprAssign(E.ExprMem(p, 8), p)
        for n2 in HOSTILE[:8]:
            if type(n2) is type(name):
                yield E.ExprOp("+", E.ExprId(name, 8), E.ExprId(n2, 8))
                if isinstance(name, str):
                    yield E.ExprId(name + n2, 8)
    x, y = E.ExprId("x8", 8), E.ExprId("y8", 8)
    for op in HOSTILE_OPS:
        yield E.ExprOp(op, x)
        yield E.ExprOp(op, x, y)
        yield E.ExprOp(op, x, y, x)
        yield E.ExprCond(E.ExprOp(op, x, y), x, y)


def fam_assign(widths=(1, 2, 3, 4, 8, 16)):
    """ExprAssign with identifier, memory and slice destinations (a slice destination is normalised by the
    constructor into a composition on the whole destination)."""
    E = _E()
    g = exprgen.Gen(tuple(w for w in widths if w <= 4))
    for w in widths:
        d = E.ExprId("d%d" % w, w)
        if w <= 4:
            srcs = g.depth1_core(w)
        else:
            x, y = E.ExprId("x%d" % w, w), E.ExprId("y%d" % w, w)
            srcs = [x, E.ExprInt(1, w), E.ExprOp("+", x, y), E.ExprMem(x, w), E.ExprCond(x, y, x), x[0:w // 2].zeroExtend(w),
                    E.ExprCompose(x[:w // 2], y[w // 2:])]
        for s in srcs:
            yield E.ExprAssign(d, s)
        if w % 8 == 0:
            p = E.ExprId("p8", 8)
            for s in srcs:
                yield E.ExprAssign(E.ExprMem(p, w), s)
                yield E.ExprAssign(E.ExprMem(E.ExprOp("+", p, E.ExprInt(1, 8)), w), s)
        for w2 in widths:
            if w2 > w:
                D = E.ExprId("d%d" % w2, w2)
                for st in sorted(set([0, 1, w2 - w])):
                    if st + w <= w2:
                        for s in srcs[:6]:
                            yield E.ExprAssign(E.ExprSlice(D, st, st + w), s)


def families_b(tier):
    if tier == "quick":
        out = [("d1", ((1, 2, 3, 4),), 1)]
        out += [("d2spine", ((1, 2, 3), 2, True, 1, 0, 1), 1), ("d2spine", ((1, 2, 3), 3, True, 1, 0, 1), 1)]
        out += [("cc_flags", ((1,), 2), 1), ("ext_cmp", ((1, 2, 3),), 1), ("compose", ((1, 2, 3),), 1),
                ("shift_rot", ((2, 3),), 1), ("arith", ((2, 3),), 1), ("mem", ((8, 16), (8, 16, 32)), 1),
                ("wide", ((32, 64, 128),), 1), ("hostile", ((1, 2, 3, 8),), 1), ("assign", ((1, 2, 3, 4, 8, 16),), 1)]
        return out
    # (the full C01 thorough lattice, 12.9M expressions, was run once: all identical, 15 min on the loaded machine;
    #  the translator is a structural recursion, so the thorough tier keeps every family at reduced multiplicity)
    out = [("d1", ((1, 2, 3, 4),), 4)]
    out += [("d2spine", ((1, 2, 3), 1, True, 1, k, 16), 1) for k in range(16)]
    out += [("d2spine", ((1, 2, 3), 2, True, 2, k, 8), 1) for k in range(8)]
    out += [("d2spine", ((1, 2, 3), 3, True, 2, k, 8), 1) for k in range(8)]
    out += [("d2spine", ((1, 2, 3, 4), 4, True, 1, k, 8), 1) for k in range(8)]
    out += [("cc_flags", ((1, 2), 2), 8), ("ext_cmp", ((1, 2, 3, 4, 5, 6, 8),), 8), ("compose", ((1, 2, 3, 4),), 8),
            ("shift_rot", ((2, 3, 4, 5, 8),), 8), ("arith", ((2, 3, 4, 5),), 8), ("mem", ((8, 16), (8, 16, 32, 64)), 1),
            ("wide", ((31, 32, 33, 63, 64, 65, 127, 128),), 4),
            ("hostile", ((1, 2, 3, 4, 8, 64),), 2), ("assign", ((1, 2, 3, 4, 8, 16, 32, 64),), 2)]
    return out


def family_iter_b(fam, params):
    if fam == "hostile":
        return fam_hostile(*params)
    if fam == "assign":
        return fam_assign(*params)
    return simplattice.family_iter(fam, params)


_ns = {}


def _namespace():
    if not _ns:
        _ns.update(vars(_E()))
    return dict(_ns)


def _plain(name):
    return isinstance(name, str) and name != "" and all(c.isalnum() and c.isascii() or c == "_" for c in name)


def kind_of(e):
    return "assign" if type(e).__name__ == "ExprAssign" else T.node_tag(e)


def name_class(e):
    """Class of the least ordinary name occurring in e."""
    names = []

    def walk(x):
        if x.is_id():
            names.append(x.name)
        elif x.is_op():
            names.append(x.op)
        if type(x).__name__ == "ExprAssign":
            walk(x.dst)
            walk(x.src)
        for c in T.children(x):
            walk(c)
    walk(e)
    cls = "plain-names"
    for n in names:
        if isinstance(n, bytes):
            return "bytes-name"
        if n == "":
            cls = "empty-name"
        elif any(c in n for c in "'\"\\"):
            return "quote-or-backslash-name"
        elif any(ord(c) < 32 or ord(c) == 0x2028 for c in n):
            return "control-char-name"
        elif not n.isascii():
            cls = "non-ascii-name"
        elif " " in n and cls == "plain-names":
            cls = "space-name"
    return cls


def _roundtrip(e):
    """-> None when the emitted source rebuilds e itself, else (status, signature suffix, description)."""
    from miasm.ir.translators import Translator
    try:
        src = Translator.to_language("Miasm").from_expr(e)
    except NotImplementedError:
        return ("not_accepted", None, None)
    except Exception as ex:
        return ("raise", "translate-raises:%s" % type(ex).__name__, "TranslatorMiasm raised %r" % (ex,))
    try:
        r = eval(src, _namespace())
    except Exception as ex:
        return ("raise", "eval-raises:%s" % type(ex).__name__, "evaluating the emitted source raised %r; emitted: %s" % (ex, src[:300]))
    if r is e:
        return None
    return ("differ", "rebuilds-%s" % ("equal-but-distinct-object" if r == e else "different-expression"),
            "the emitted source evaluates to %r; emitted: %s" % (r, src[:300]))


def _sub(e):
    return [e.dst, e.src] if kind_of(e) == "assign" else T.children(e)


def judge_b(e, case):
    """-> (status, violations); a failure is attributed to the deepest sub-expression that fails on its own."""
    r = _roundtrip(e)
    if r is None:
        return "ok", []
    if r[0] == "not_accepted":
        return "not_accepted", []
    node, nr = e, r
    while True:
        for ch in _sub(node):
            cr = _roundtrip(ch)
            if cr is not None and cr[0] != "not_accepted":
                node, nr = ch, cr
                break
        else:
            break
    what = "construction source of %r: %s" % (e, r[2])
    if node is not e:
        what += "; smallest failing sub-expression %r: %s" % (node, nr[2])
    return r[0], [violation("miasm|%s|%s|%s" % (kind_of(node), name_class(node), nr[1]), what, case)]


def hist_pairs_b(w):
    """Ordered pairs of expressions (every node kind) that differ only in a constant from the hash-collision boundary
    alphabet of CPython ints; ONE TranslatorMiasm instance translates the first, then the second."""
    E = _E()
    x, y = E.ExprId("x%d" % w, w), E.ExprId("y%d" % w, w)
    cs = T.collision_consts(w, limit=14)
    shapes = [lambda c: E.ExprInt(c, w),
              lambda c: E.ExprOp("+", x, E.ExprInt(c, w)),
              lambda c: E.ExprCond(x, E.ExprInt(c, w), y),
              lambda c: E.ExprCompose(E.ExprInt(c, w)[0:w // 2], x[w // 2:w]),
              lambda c: E.ExprMem(E.ExprInt(c, w), 8),
              lambda c: E.ExprAssign(x, E.ExprInt(c, w)),
              lambda c: E.ExprOp("FLAG_EQ_CMP", x, E.ExprInt(c, w))]
    for sh in shapes:
        for c1 in cs:
            for c2 in cs:
                if c1 != c2:
                    yield [sh(c1), sh(c2)]


def hist_sequences_b(fam, params):
    """-> iterator of (sequence, check every element?)"""
    if fam == "hpairs_b":
        for seq in hist_pairs_b(*params):
            yield seq, False
    elif fam == "hseq_b":
        sub, subparams = params
        yield list(family_iter_b(sub, subparams)), True
    else:
        raise ValueError(fam)


def judge_history_b(seq, case0, check_all):
    """ONE TranslatorMiasm instance translates seq in order; the source emitted for the last element (check_all:
    for every element) must evaluate to that very expression.  -> (number checked, violations)"""
    from miasm.ir.translators import Translator
    tr = Translator.to_language("Miasm")
    vs = []
    n = 0
    prev = None
    for k, e in enumerate(seq):
        try:
            src = tr.from_expr(e)
        except Exception:
            prev = e
            continue                      # judged by the fresh-instance families
        if check_all or k == len(seq) - 1:
            n += 1
            try:
                r = eval(src, _namespace())
                bad = r is not e
                got = "evaluates to %r" % (r,)
            except Exception as ex:
                bad, got = True, "raises %r" % (ex,)
            if bad and _roundtrip(e) is None:
                case = dict(case0)
                case.update({"upto": k, "expr": repr(e)})
                node = e
                while True:             # deepest sub-expression the same instance already mistranslates
                    for ch in _sub(node):
                        try:
                            if eval(tr.from_expr(ch), _namespace()) is not ch and _roundtrip(ch) is None:
                                node = ch
                                break
                        except Exception:
                            pass
                    else:
                        break
                vs.append(violation("miasm|shared-instance|%s|%s|source-of-another-expression" % (kind_of(node), name_class(node)),
                                    "one TranslatorMiasm instance, after translating %d expression(s) (last: %r), emits for %r "
                                    "the source %s which %s; a fresh instance rebuilds the expression itself" % (
                                        k, prev, e, src[:200], got), case))
        prev = e
    return n, vs


def shard_hist_b(args):
    fam, params, idx, nsh = args
    n = nseq = 0
    vs = []
    per_sig = {}
    for i, (seq, check_all) in enumerate(hist_sequences_b(fam, params)):
        if i % nsh != idx:
            continue
        nseq += 1
        k, v = judge_history_b(seq, {"part": "b", "hist": True, "fam": fam, "params": params, "index": i}, check_all)
        n += k
        for x in v:
            per_sig[x["sig"]] = per_sig.get(x["sig"], 0) + 1
            if per_sig[x["sig"]] <= T.MAX_PER_SIG:
                vs.append(x)
    return {"n": n, "nseq": nseq, "vs": vs, "per_sig": per_sig, "fam": "%s:%r" % (fam, params)}


def families_hist_b(tier):
    quick = tier == "quick"
    out = [("hpairs_b", (w,), 1) for w in ((61, 64, 128) if quick else (61, 62, 63, 64, 65, 128))]
    out += [("hseq_b", ("d1", ((1, 2, 3),) if quick else ((1, 2, 3, 4),)), 1),
            ("hseq_b", ("hostile", ((1, 2, 3, 8),)), 1), ("hseq_b", ("wide", ((64, 128),)), 1),
            ("hseq_b", ("assign", ((1, 2, 3, 4, 8, 16),)), 1)]
    return out


def shard_b(args):
    fam, params, idx, nsh = args
    n = nt = 0
    status = {}
    kinds = {}
    vs = []
    per_sig = {}
    sample = None
    for i, e in enumerate(family_iter_b(fam, params)):
        if i % nsh != idx:
            continue
        n += 1
        s, v = judge_b(e, {"part": "b", "fam": fam, "params": params, "index": i, "expr": repr(e)})
        status[s] = status.get(s, 0) + 1
        k = kind_of(e)
        kinds[k] = kinds.get(k, 0) + 1
        ch = T.children(e) if k != "assign" else [e.dst, e.src]
        if any(not (c.is_id() or c.is_int()) for c in ch) or name_class(e) != "plain-names":
            nt += 1
            if sample is None and i > 20:
                sample = {"part": "b", "family": fam, "index": i, "expr": repr(e)}
        for x in v:
            per_sig[x["sig"]] = per_sig.get(x["sig"], 0) + 1
            if per_sig[x["sig"]] <= T.MAX_PER_SIG:
                vs.append(x)
    return {"n": n, "nt": nt, "status": status, "kinds": kinds, "vs": vs, "sample": sample, "per_sig": per_sig,
            "fam": "%s:%r" % (fam, params)}


def _totuple(x):
    if isinstance(x, list):
        return tuple(_totuple(i) for i in x)
    return x


# ------------------------------------------------------------------ entry points

def run(ctx):
    T.probe(make_backend("python", False))          # imports miasm once, before any fork
    pa = plan_a(ctx.quick)
    cov = T.run(ctx, make_backend, pa)
    fams = families_b(ctx.tier)
    shards = [(fam, params, i, nsh) for fam, params, nsh in fams for i in range(nsh)]
    if ctx.quick:
        res = [shard_b(s) for s in shards]          # in-process: see mc.translattice.run
    else:
        res = ctx.pmap(shard_b, shards)
    b = {"expressions": 0, "distinct_nontrivial": 0, "status": {}, "node_kinds": {}, "per_family": {},
         "violations_by_signature": {}, "samples": []}
    for r in res:
        ctx.add_violations(r["vs"])
        b["expressions"] += r["n"]
        b["distinct_nontrivial"] += r["nt"]
        for k, v in r["status"].items():
            b["status"][k] = b["status"].get(k, 0) + v
        for k, v in r["kinds"].items():
            b["node_kinds"][k] = b["node_kinds"].get(k, 0) + v
        for k, v in r["per_sig"].items():
            b["violations_by_signature"][k] = b["violations_by_signature"].get(k, 0) + v
        b["per_family"][r["fam"]] = b["per_family"].get(r["fam"], 0) + r["n"]
        if r["sample"] and len(b["samples"]) < 6:
            b["samples"].append(r["sample"])
    hfams = families_hist_b(ctx.tier)
    hshards = [(fam, params, i, nsh) for fam, params, nsh in hfams for i in range(nsh)]
    hres = [shard_hist_b(x) for x in hshards] if ctx.quick else ctx.pmap(shard_hist_b, hshards)
    b["shared_instance"] = {"sequences": 0, "translations_checked": 0, "per_family": {}}
    for r in hres:
        ctx.add_violations(r["vs"])
        b["shared_instance"]["sequences"] += r["nseq"]
        b["shared_instance"]["translations_checked"] += r["n"]
        b["shared_instance"]["per_family"][r["fam"]] = r["n"]
        for k, v in r["per_sig"].items():
            b["violations_by_signature"][k] = b["violations_by_signature"].get(k, 0) + v
    b["hostile_names"] = [repr(n) for n in HOSTILE]
    cov["python_source"] = {k: cov[k] for k in ("expressions", "accepted_expressions", "evaluations", "agree", "nontrivial",
                                                "undefined_skipped", "skipped_evals")}
    cov["construction_source"] = b
    cov["evaluations"] = cov["evaluations"] + b["expressions"]
    cov["distinct_nontrivial"] = cov["distinct_nontrivial"] + b["distinct_nontrivial"]
    cov["construction_expressions"] = b["expressions"]
    cov["construction_identical"] = b["status"].get("ok", 0)
    cov["construction_shared_instance_checked"] = b["shared_instance"]["translations_checked"]
    cov["samples"] = cov["samples"] + b["samples"][:3]
    cov["bounds"] = {"python": {"small_widths": list(T.SMALL), "all_valuations_up_to_bits": T.ALL_BITS,
                                "wide_widths": list(WIDE_QUICK if ctx.quick else WIDE_THOROUGH),
                                "pointer_widths": list(PTR_WIDTHS),
                                "data_sizes": list(DATA_QUICK if ctx.quick else DATA_THOROUGH),
                                "shl_count_not_evaluated": [SHL_LO, SHL_HI],
                                "plan": [[bn, f, repr(p)] for bn, _, f, p, _ in pa]},
                     "miasm": {"families": [[f, repr(p)] for f, p, _ in fams], "hostile_names": len(HOSTILE),
                               "shared_instance_families": [[f, repr(p)] for f, p, _ in hfams]}}
    return cov


def replay(case):
    if case.get("part") == "b" and case.get("hist"):
        for i, (seq, check_all) in enumerate(hist_sequences_b(case["fam"], _totuple(case["params"]))):
            if i == case["index"]:
                seq = seq[:case["upto"] + 1]
                if repr(seq[-1]) != case["expr"]:
                    raise AssertionError("history does not regenerate the recorded expression")
                return judge_history_b(seq, {k: case[k] for k in ("part", "hist", "fam", "params", "index")}, False)[1]
        return []
    if case.get("part") == "b":
        e = None
        try:
            for i, x in enumerate(family_iter_b(case["fam"], _totuple(case["params"]))):
                if i == case["index"]:
                    if repr(x) == case["expr"]:
                        e = x
                    break
        except Exception:
            e = None
        if e is None:
            e = eval(case["expr"], _namespace())
        return judge_b(e, case)[1]
    return T.replay(case, make_backend)
