"""C08 - expressions are canonical values that round-trip through serialization.

Engine E2 (complete enumeration of a finite lattice of expression *specifications*).

An expression is described by a spec (nested tuples, independent of miasm):
    ("int", value, size) ("id", name, size) ("loc", key, size) ("assign", dst, src) ("cond", c, a, b)
    ("mem", ptr, size) ("op", opname, arg...) ("slice", arg, start, stop) ("compose", part...)
`norm(spec)` is the reference notion of "components": integers reduced modulo 2^size, an assignment to a slice
completed to an assignment of the whole destination (the documented constructor normalisation).

Per spec (every oracle is evaluated on every member of the lattice, leaves included):
  identity    building the spec twice from scratch gives the same object, ==, not !=, equal hash
  components  the object reports exactly norm(spec) through its public attributes; size recomputed from the
              components by an independent width table
  distinct    every spec differing in exactly one component (other name, size, value, bound, operand, operator,
              arity) builds a different object, !=, not ==;  over a whole shard no two different norm(spec) share
              an object and equal norm(spec) never give two objects
  round trips str_to_expr(repr(e)) is e; pickle.loads(pickle.dumps(e, p)) is e for p in 0..5;
              copy.deepcopy(e) is e; e.copy() is e; e.replace_expr({}) is e; e.visit(lambda x: x) is e
  canonize    e.canonize().canonize() is e.canonize()  (a canonize() that raises is counted, not judged:
              the property text does not speak about it)
A failing round trip is attributed to the deepest sub-expression that fails on its own (signature = oracle +
skeleton of that node), so one root cause gives one signature whatever the enclosing tree.

Construction histories: every shard of the enumeration starts from a fresh state of the expression layer
(fresh_state(): expression.py and parser.py re-created from source) and is a history of its own; a violation is
retried alone in a fresh state and, if it only shows after other constructions, recorded together with the greedily
shrunk list of earlier specs that reproduces it (case kind "hist", replayed in order).  A dedicated family builds every
operator whose width is special (comparisons, parity, FLAG_*, *WC flags, zeroExt/signExt/fp conversions, segm) with
several operand-size combinations, and nodes built on them, forward, in reverse and as ordered pairs per operator.
Held objects (check_held): trees built on an identifier are kept while the same (name, size) is constructed in the other
str/bytes spelling, with another size, another name; after every construction every kept object must read the same
(repr, size, hash, components), parse back from its repr and be what rebuilding its spec returns.
"""
import copy
import itertools
import pickle

from mc import refsem
from mc.exprspec import build, children, depth, to_spec, tup
from mc.adaptive import amap
from mc.runner import violation

PROP = "C08"
LEVEL = "exploration"
ENGINE = "enum"
RULE = ("every expression spec of the lattice: all ExprInt for widths 1..128 x boundary values (+ out-of-range and negative "
        "constructor arguments), identifiers over 12 names (quotes, backslashes, non-ASCII, control, empty) + 14 combinations of them x 5 sizes, "
        "the same 26 strings as operator names, "
        "locations, every node kind over these leaves (depth 1) and over depth-1 children (depth 2); distinct = norm(spec); "
        "non-trivial = the spec has a name outside [a-z], a constructor argument that needs normalisation, a width > 64, "
        "an arity-1 composition, or nests a non-leaf child")
LEVEL_TEXT = ("Bounded-exhaustive: every member of an explicitly enumerated lattice of expression specifications (all node kinds, "
              "depth <= 2, hostile identifier names, integers of every width 1..128 on the boundary lattice) is built on the real "
              "classes and checked for identity of equal components, distinctness of one-component neighbours and of all pairs in "
              "a shard, width, and identity after repr/parse, pickle (protocols 0-5), deepcopy, copy, empty replace and identity visit.")
LEVEL_NOTE = ("Trusted: CPython pickle/copy, the spec->components reference in this file. Not covered: bytes identifier names, depth > 2, "
              "the deprecated ExprAff alias, zero-part compositions, garbage-collection histories of the hash-consing table "
              "(it holds strong references), canonize() raising on identifier names outside latin-1 (counted only).")
TECHNIQUE = "bounded-exhaustive enumeration of expression specifications against a component-level reference model"
ASSUMPTIONS = ["identifier names are str; bytes names only appear as LATER constructions in the held-object histories (whether b'x' and 'x' "
               "are one identifier is left open, an object already in use must not be rewritten by the other spelling)",
               "components of an assignment to a slice are the completed (destination, source) pair the constructor documents"]

NAMES = ["a", "a b", "a'b", 'a"b', "a\\b", "a\\'b", "é", "日本", "\n", "", "ab\\", "a'\"b"]
# combinations: what repr() escapes (backslash, quotes, non-printables) next to what it prints verbatim (non-ASCII)
NAMES_MIX = ["\\é", "日\n", "é\t", "日\x00", "é'\"", "\x85é", "é\\'日\n", "a\\\"é", "日'", 'é"', "\u2028é", "\U0001F600\\",
             "\\x41é", "é\\n"]
ID_SIZES = [1, 8, 16, 32, 128]
PROTOCOLS = [0, 1, 2, 3, 4, 5]

SIZE1_OPS = {"==", "<u", "<s", "<=u", "<=s", "<", "<=", "pos", "Spos", "parity", "bcdadd_cf", "FLAG_SIGN_ADD", "access_segment_ok",
             "load_segment_limit_ok", "fcom_c0", "fxam_c1", "ucomiss_zf", "ucomisd_cf", "FLAG_EQ", "FLAG_EQ_AND", "FLAG_SIGN_SUB", "FLAG_EQ_CMP",
             "FLAG_ADD_CF", "FLAG_SUB_CF", "FLAG_ADD_OF", "FLAG_SUB_OF", "FLAG_EQ_ADDWC", "FLAG_ADDWC_OF", "FLAG_SUBWC_OF",
             "FLAG_ADDWC_CF", "FLAG_SUBWC_CF", "FLAG_SIGN_ADDWC", "FLAG_SIGN_SUBWC", "FLAG_EQ_SUBWC"}
BIN_OPS = ["+", "*", "^", "&", "|", ">>", "<<", "a>>", ">>>", "<<<", "/", "%", "**", "udiv", "smod",
           "==", "<u", "<s", "<=u", "<=s", "FLAG_ADD_CF", "FLAG_SUB_OF", "bcdadd", "bcdadd_cf", "call_func_ret"]
BIN_OPS_Q = ["+", "*", "&", "<<", "a>>", "%", "==", "<s", "FLAG_ADD_CF", "call_func_ret"]
UN_OPS = ["-", "parity", "cntleadzeros", "cnttrailzeros", "zeroExt_16", "signExt_16", "zeroExt_128", "FLAG_EQ", "fp_to_sint32",
          "call_func_stack"]
UN_OPS_Q = ["-", "parity", "zeroExt_16", "signExt_16", "FLAG_EQ"]
NARY3 = ["+", "^", "&", "|", "*"]
WC3 = ["FLAG_EQ_ADDWC", "FLAG_SUBWC_CF"]


# ------------------------------------------------------------------ reference model on specs

def size_of(s):
    """Width of a normalised spec from its components (independent table)."""
    k = s[0]
    if k in ("int", "id", "loc", "mem"):
        return s[2]
    if k == "assign":
        return size_of(s[1])
    if k == "cond":
        return size_of(s[2])
    if k == "slice":
        return s[3] - s[2]
    if k == "compose":
        return sum(size_of(a) for a in s[1:])
    op = s[1]
    if op in SIZE1_OPS:
        return 1
    for pre in ("zeroExt_", "signExt_", "fp_to_sint", "fpconvert_fp"):
        if op.startswith(pre):
            return int(op[len(pre):])
    if op == "segm":
        return size_of(s[3])
    return size_of(s[2])


def norm(s):
    k = s[0]
    if k == "int":
        return ("int", s[1] % (1 << s[2]), s[2])
    if k in ("id", "loc"):
        return s
    if k == "mem":
        return ("mem", norm(s[1]), s[2])
    if k == "slice":
        return ("slice", norm(s[1]), s[2], s[3])
    if k == "cond":
        return ("cond", norm(s[1]), norm(s[2]), norm(s[3]))
    if k == "op":
        return ("op", s[1]) + tuple(norm(a) for a in s[2:])
    if k == "compose":
        return ("compose",) + tuple(norm(a) for a in s[1:])
    if k == "assign":
        dst, src = norm(s[1]), norm(s[2])
        if dst[0] != "slice":
            return ("assign", dst, src)
        base, start, stop = dst[1], dst[2], dst[3]
        bsz = size_of(base)
        if bsz == size_of(src):
            return ("assign", base, src)
        parts = []
        if start != 0:
            parts.append(("slice", base, 0, start))
        parts.append(src)
        if stop < bsz:
            parts.append(("slice", base, stop, bsz))
        return ("assign", base, ("compose",) + tuple(parts))
    raise ValueError(k)


KNOWN_OPS = set(BIN_OPS) | set(UN_OPS) | set(NARY3) | set(WC3) | {"segm", "FLAG_SUB_OF", "<<<"}


def name_class(n):
    fl = []
    if n == "":
        fl.append("empty")
    if "\\" in n:
        fl.append("trailing-backslash" if n.endswith("\\") else "backslash")
    if "'" in n:
        fl.append("squote")
    if '"' in n:
        fl.append("dquote")
    if any(not c.isprintable() for c in n):
        fl.append("control")
    if any(ord(c) > 127 and c.isprintable() for c in n):
        fl.append("non-ascii")
    if " " in n:
        fl.append("space")
    return "+".join(fl) or "plain"


def skel(s):
    k = s[0]
    if k == "id":
        return "ExprId[name:%s]" % name_class(s[1])
    if k == "int":
        v, w = s[1], s[2]
        c = "negative-arg" if v < 0 else ("arg>=2^size" if v >> w else "in-range")
        return "ExprInt[%s,%s]" % (c, "w<=64" if w <= 64 else "w>64")
    if k == "loc":
        return "ExprLoc[%s]" % ("key<0" if s[1] < 0 else "key>=0")
    if k == "compose":
        return "ExprCompose[parts=%s]" % (len(s) - 1 if len(s) - 1 < 3 else "3+")
    if k == "op":
        if s[1] in KNOWN_OPS:
            return "ExprOp[%s/%d]" % (s[1], len(s) - 2)
        return "ExprOp[op-name:%s]" % name_class(s[1])
    if k == "assign":
        return "ExprAssign[dst:%s]" % s[1][0]
    return {"mem": "ExprMem", "slice": "ExprSlice", "cond": "ExprCond"}[k]


def alt_leaf(sz, avoid):
    for cand in (("id", "zz", sz), ("int", 1, sz), ("id", "zy", sz)):
        if cand != avoid:
            return cand


def neighbours(s):
    """Normalised specs differing from the normalised spec s in exactly one component: (component, spec)."""
    k = s[0]
    out = []
    if k == "id":
        for n in NAMES:
            if n != s[1]:
                out.append(("name", ("id", n, s[2])))
        out.append(("size", ("id", s[1], s[2] + 1)))
    elif k == "int":
        out.append(("value", ("int", (s[1] + 1) % (1 << s[2]), s[2])))
        out.append(("value", ("int", s[1] ^ (1 << (s[2] - 1)), s[2])))
        out.append(("size", ("int", s[1], s[2] + 1)))
    elif k == "loc":
        out.append(("key", ("loc", s[1] + 1, s[2])))
        out.append(("key", ("loc", -s[1] - 1, s[2])))
        out.append(("size", ("loc", s[1], s[2] + 1)))
    elif k == "mem":
        out.append(("size", ("mem", s[1], s[2] + 8)))
        out.append(("ptr", ("mem", alt_leaf(size_of(s[1]), s[1]), s[2])))
    elif k == "slice":
        out.append(("start", ("slice", s[1], s[2] + 1, s[3])))
        out.append(("stop", ("slice", s[1], s[2], s[3] + 1)))
        out.append(("start", ("slice", s[1], s[2] - 1, s[3])))
        out.append(("arg", ("slice", alt_leaf(size_of(s[1]), s[1]), s[2], s[3])))
    elif k == "cond":
        for i in (1, 2, 3):
            t = list(s)
            t[i] = alt_leaf(size_of(s[i]), s[i])
            out.append(("arg%d" % i, tuple(t)))
    elif k == "assign":
        for i in (1, 2):
            t = list(s)
            t[i] = alt_leaf(size_of(s[i]), s[i])
            out.append(("dst" if i == 1 else "src", tuple(t)))
    elif k == "op":
        for i in range(2, len(s)):
            t = list(s)
            t[i] = alt_leaf(size_of(s[i]), s[i])
            out.append(("arg", tuple(t)))
        same = [o for o in (BIN_OPS if len(s) == 4 else UN_OPS if len(s) == 3 else NARY3) if o != s[1]]
        for o in same[:3]:
            out.append(("op", ("op", o) + s[2:]))
        out.append(("arity", s + (s[-1],)))
        if len(s) > 3:
            out.append(("arity", s[:-1]))
        if len(s) == 4 and s[2] != s[3]:
            out.append(("order", ("op", s[1], s[3], s[2])))
    elif k == "compose":
        for i in range(1, len(s)):
            t = list(s)
            t[i] = alt_leaf(size_of(s[i]), s[i])
            out.append(("part", tuple(t)))
        out.append(("arity", s + (s[-1],)))
        if len(s) > 2:
            out.append(("arity", s[:-1]))
        if len(s) == 3 and s[1] != s[2]:
            out.append(("order", ("compose", s[2], s[1])))
    return [o for o in out if o]


# ------------------------------------------------------------------ oracles

def _o_parse(e):
    from miasm.expression.parser import str_to_expr
    text = repr(e)
    try:
        r = str_to_expr(text)
    except Exception as ex:
        return "raise", "str_to_expr(%s) raised %s" % (text, type(ex).__name__)
    if r is e:
        return None
    return "other-object", "str_to_expr(%s) gave %r" % (text, r)


def _mk_pickle(p):
    def f(e):
        try:
            r = pickle.loads(pickle.dumps(e, p))
        except Exception as ex:
            return "raise", "pickle protocol %d of %r raised %r" % (p, e, ex)
        if r is e:
            return None
        return "other-object", "pickle protocol %d of %r gave %r (same object: False, ==: %r)" % (p, e, r, r == e)
    return f


def _wrap(name, fn):
    def f(e):
        try:
            r = fn(e)
        except Exception as ex:
            return "raise", "%s of %r raised %r" % (name, e, ex)
        if r is e:
            return None
        return "other-object", "%s of %r gave %r" % (name, e, r)
    return f


ORACLES = [("str_to_expr(repr(e))", _o_parse)]
ORACLES += [("pickle[p%d]" % p, _mk_pickle(p)) for p in PROTOCOLS]
ORACLES += [
    ("copy.deepcopy(e)", _wrap("copy.deepcopy", copy.deepcopy)),
    ("e.copy()", _wrap("copy()", lambda e: e.copy())),
    ("e.replace_expr({})", _wrap("replace_expr({})", lambda e: e.replace_expr({}))),
    ("e.visit(identity)", _wrap("visit(lambda x: x)", lambda e: e.visit(lambda x: x))),
]

_memo = {}


def _oracle(i, s):
    key = (i, s)
    if key not in _memo:
        try:
            e = build(s)
        except Exception:
            _memo[key] = None
        else:
            _memo[key] = ORACLES[i][1](e)
    return _memo[key]


def _culprit(i, s):
    for c in children(s):
        if _oracle(i, c) is not None:
            return _culprit(i, c)
    return s


def _has_wide_name(s):
    if s[0] == "id":
        return any(ord(c) > 255 for c in s[1])
    return any(_has_wide_name(c) for c in children(s))


def _deepest(s, bad):
    """deepest sub-spec (first such child at every level) for which bad() still holds"""
    while True:
        for c in children(s):
            try:
                if bad(c):
                    s = c
                    break
            except Exception:
                continue
        else:
            return s


def check_spec(s, counters=None):
    """All per-expression oracles on one spec."""
    vs = []
    case = {"k": "expr", "spec": s}
    try:
        e1 = build(s)
        e2 = build(s)
    except Exception as ex:
        return [violation("construct:raise:%s:%s" % (type(ex).__name__, skel(s)), "building %r raised %r" % (s, ex), case)]
    ns = norm(s)
    if e1 is not e2:
        vs.append(violation("identity:rebuilt-is-other-object:%s" % skel(s), "building %r twice gave two objects" % (s,), case))
    if not (e1 == e2) or (e1 != e2):
        vs.append(violation("identity:rebuilt-not-equal:%s" % skel(s), "building %r twice: == is %r, != is %r" % (s, e1 == e2, e1 != e2), case))
    h1 = hash(e1)
    if h1 != hash(e2) or h1 != hash(build(s)):
        vs.append(violation("hash:differs-for-equal:%s" % skel(s), "hash of %r differs between equal builds" % (e1,), case))
    got = to_spec(e1)
    if got != ns:
        cul = _deepest(ns, lambda x: to_spec(build(x)) != norm(x))
        vs.append(violation("components:%s" % skel(cul), "%r reports components %r, expected %r" % (e1, got, ns), case))
    want_size = size_of(ns)
    if e1.size != want_size:
        cul = _deepest(ns, lambda x: build(x).size != size_of(norm(x)))
        vs.append(violation("size:%s" % skel(cul), "%r has size %r, components give %r" % (e1, e1.size, want_size), case))
    # one-component neighbours
    for comp, m in neighbours(ns):
        try:
            em = build(m)
        except Exception:
            continue
        if norm(m) == ns:
            continue
        if counters is not None:
            counters["neighbours"] += 1
        if em is e1 or em == e1 or not (em != e1):
            vs.append(violation("distinct:%s-differs-but-equal:%s" % (comp, skel(s)),
                                "%r and %r differ in %s but: is %r, == %r, != %r" % (s, m, comp, em is e1, em == e1, em != e1),
                                {"k": "expr", "spec": s}))
    # round trips
    for i, (name, fn) in enumerate(ORACLES):
        r = _oracle(i, ns)
        if r is not None:
            cul = _culprit(i, ns)
            vs.append(violation("%s:%s:%s" % (name, _oracle(i, cul)[0], skel(cul)), r[1], case))
    # canonize
    try:
        c = e1.canonize()
    except Exception as ex:
        if _has_wide_name(ns):
            # the ordering used by canonize() converts names to bytes and asserts latin-1: outside the property text, counted
            if counters is not None:
                counters["canonize_raised"] += 1
        else:
            vs.append(violation("canonize:raise:%s:%s" % (type(ex).__name__, skel(s)), "canonize(%r) raised %r" % (e1, ex), case))
    else:
        try:
            c2 = c.canonize()
            if c2 is not c:
                vs.append(violation("canonize:not-idempotent:%s" % skel(s), "canonize(%r) = %r, again = %r" % (e1, c, c2), case))
            if c.size != e1.size:
                vs.append(violation("canonize:size-changed:%s" % skel(s), "canonize(%r) = %r changes the size" % (e1, c), case))
        except Exception as ex:
            vs.append(violation("canonize:second-pass-raise:%s" % skel(s), "canonize(canonize(%r)) raised %r" % (e1, ex), case))
    # the object is unchanged by all of the above (constructors re-run __init__ on the shared object)
    if to_spec(e1) != ns or e1.size != want_size or hash(e1) != h1:
        vs.append(violation("mutated-by-observation:%s" % skel(s), "%r changed its components, size or hash during the checks" % (e1,), case))
    return vs


# ------------------------------------------------------------------ construction histories

FRESH_MODULES = ["miasm.expression.expression", "miasm.expression.parser"]
_code = {}


def fresh_state():
    """Fresh state of the expression layer: miasm.expression.expression (classes, hash-consing table, every class-level
    table or memo) and miasm.expression.parser (grammar bound to those classes) are re-created from their source as new
    module objects, installed in sys.modules / their package; pickle, the parser and mc.exprspec resolve the classes
    through sys.modules at call time, so everything built afterwards lives in the new generation.  About 10 ms, against a
    fork whose cost on this host is erratic; a recorded case is confirmed by the runner in a really fresh process."""
    import importlib
    import importlib.util
    import sys
    for name in FRESH_MODULES:
        if name not in _code:
            importlib.import_module(name)
            spec = sys.modules[name].__spec__
            _code[name] = (compile(spec.loader.get_source(name), spec.origin, "exec"), spec)
        code, spec = _code[name]
        mod = importlib.util.module_from_spec(spec)
        sys.modules[name] = mod
        exec(code, mod.__dict__)
        parent, _, child = name.rpartition(".")
        setattr(sys.modules[parent], child, mod)
    _memo.clear()


def _apply(h):
    try:
        check_spec(h)
    except Exception:
        pass


def check_history(specs):
    """From a fresh state, run the checks of specs[:-1] in order (their verdicts are not used), then judge specs[-1].
    A violation is reported with the history in its case and the skeletons of the history in its signature."""
    specs = [tup(x) for x in specs]
    fresh_state()
    for h in specs[:-1]:
        _apply(h)
    vs = check_spec(specs[-1])
    after = "|after:" + ",".join(sorted(set(skel(h) for h in specs[:-1])))
    out = []
    for v in vs:
        out.append(violation("history:" + v["sig"] + after,
                             v["what"] + "  [constructed after: %s]" % "; ".join(repr(h) for h in specs[:-1]),
                             {"k": "hist", "specs": specs}))
    fresh_state()
    return out


def shrink_history(earlier, s):
    """Greedy smallest history: sub-list H of the earlier specs, then sub-expressions of its members and of s, such that
    fresh state + H + s still violates.  Returns H + [s] (None: not reproducible from the earlier specs)."""
    def fails(H, t=None):
        fresh_state()
        for h in H:
            _apply(h)
        return bool(check_spec(s if t is None else t))
    reps = []
    seen = set()
    for h in earlier:
        key = (skel(h), size_of(norm(h)))
        if key not in seen:
            seen.add(key)
            reps.append(h)
    if fails(reps):
        H = reps
    elif len(earlier) > len(reps) and fails(earlier[-400:]):
        H = list(earlier[-400:])
    else:
        return None
    chunk = max(1, len(H) // 2)
    while True:
        i = 0
        while i < len(H):
            cand = H[:i] + H[i + chunk:]
            if fails(cand):
                H = cand
            else:
                i += chunk
        if chunk == 1:
            break
        chunk = max(1, chunk // 2)
    # narrow both sides to sub-expressions: the smallest judged spec and the smallest earlier constructions that still do it
    changed = True
    while changed:
        changed = False
        for c in children(s):
            if fails(H, c):
                s = c
                changed = True
                break
        for i, h in enumerate(H):
            for c in children(h):
                if fails(H[:i] + [c] + H[i + 1:]):
                    H = H[:i] + [c] + H[i + 1:]
                    changed = True
                    break
    return H + [s]


MAX_HISTORY_REPORTS = 3


def judge_sequence(specs, counters=None):
    """check_spec over a sequence that starts from a fresh state.  A violation is first retried alone in a fresh state:
    if it reproduces it is an ordinary single-expression case; otherwise it depends on what was constructed before and
    is reported with the (greedily shrunk) history that reproduces it."""
    fresh_state()
    earlier = []
    vs = []
    reports = dependent = 0
    for s in specs:
        r = check_spec(s, counters)
        if not r:
            earlier.append(s)
            continue
        fresh_state()
        ra = check_spec(s)
        if ra:
            vs += ra
        else:
            dependent += 1
            if reports < MAX_HISTORY_REPORTS:
                reports += 1
                H = shrink_history(earlier, s)
                rh = check_history(H) if H is not None else []
                vs += rh if rh else r
        fresh_state()
        earlier = []
    fresh_state()
    return vs, dependent


def hist_menu():
    """(operator, operand sizes) specs for every operator whose width is not simply that of its operands, several
    operand-size combinations each, plus nodes built on them"""
    def L(w, n="h"):
        return ("id", "%s%d" % (n, w), w)
    out = []
    for w in (8, 32):
        for op in ("==", "<u", "<s", "<=u", "<=s", "<", "<=", "FLAG_EQ_CMP", "FLAG_ADD_CF", "FLAG_SUB_OF", "FLAG_SIGN_SUB", "FLAG_EQ_AND",
                   "FLAG_SIGN_ADD", "bcdadd_cf", "call_func_ret", "+", "*"):
            out.append(("op", op, L(w), L(w, "g")))
        for op in ("parity", "FLAG_EQ", "-", "cntleadzeros"):
            out.append(("op", op, L(w)))
    for w in (8, 32, 16):
        for op in ("FLAG_EQ_ADDWC", "FLAG_EQ_SUBWC", "FLAG_SIGN_ADDWC", "FLAG_SIGN_SUBWC", "FLAG_ADDWC_CF", "FLAG_ADDWC_OF",
                   "FLAG_SUBWC_CF", "FLAG_SUBWC_OF"):
            out.append(("op", op, L(w), L(w, "g"), L(1)))
    for op, w in (("zeroExt_16", 8), ("zeroExt_32", 8), ("zeroExt_32", 16), ("signExt_32", 8), ("signExt_32", 16), ("zeroExt_128", 64),
                  ("fp_to_sint32", 32), ("fp_to_sint32", 64), ("fp_to_sint64", 64), ("fpconvert_fp32", 64), ("fpconvert_fp64", 32)):
        out.append(("op", op, L(w)))
    segs = [("op", "segm", L(a, "s"), L(b)) for a, b in ((16, 8), (16, 32), (16, 64), (8, 16), (32, 32))]
    out += segs
    out += [("compose", segs[0], L(8)), ("compose", L(8), segs[1]), ("cond", L(1), segs[1], L(32)), ("slice", segs[2], 0, 8),
            ("mem", segs[1], 8), ("op", "+", segs[3], L(16)), ("assign", L(64), segs[2]),
            ("compose", ("op", "FLAG_EQ_ADDWC", L(32), L(32, "g"), L(1)), L(8))]
    return out


def hist_sequences(thorough):
    """forward, reverse, and every ordered pair of specs that share their operator (first-constructed-wins in both orders)"""
    menu = hist_menu()
    seqs = [list(menu), list(reversed(menu))]
    def opname(x):
        while x[0] != "op":
            ch = children(x)
            nxt = [c for c in ch if c[0] == "op"] or [c for c in ch if children(c)]
            if not nxt:
                return None
            x = nxt[0]
        return x[1]
    groups = {}
    for m in menu:
        groups.setdefault(opname(m), []).append(m)
    for g in sorted(k for k in groups if k):
        for a in groups[g]:
            for b in groups[g]:
                if a != b:
                    seqs.append([a, b])
    if thorough:
        segs = [m for m in menu if opname(m) == "segm"]
        for a in segs:
            for b in segs:
                for c in segs:
                    if a != b and b != c:
                        seqs.append([a, b, c])
    return seqs


# ------------------------------------------------------------------ held objects across later constructions

def _has_bytes(s):
    if s[0] == "id":
        return isinstance(s[1], bytes)
    return any(_has_bytes(c) for c in children(s))


def _spelled(s):
    """spec with bytes names decoded (latin-1): two specs equal under _spelled differ only in the str/bytes spelling"""
    if s[0] == "id":
        return ("id", s[1].decode("latin-1") if isinstance(s[1], bytes) else s[1], s[2])
    if s[0] in ("int", "loc"):
        return s
    if s[0] == "op":
        return ("op", s[1]) + tuple(_spelled(c) for c in s[2:])
    if s[0] == "mem":
        return ("mem", _spelled(s[1]), s[2])
    if s[0] == "slice":
        return ("slice", _spelled(s[1]), s[2], s[3])
    return (s[0],) + tuple(_spelled(c) for c in s[1:])


def _contains(big, small):
    return big != small and (small in children(big) or any(_contains(c, small) for c in children(big)))


def _observe(e):
    return (repr(e), e.size, hash(e), to_spec(e))


def check_held(specs, parse=True):
    """Build specs in order from a fresh state and KEEP every object.  After each construction every earlier object
    must be observably what it was (repr, size, hash, components), its repr must still parse back to it (specs with
    str names only), rebuilding its spec must give it back, and two specs that differ in more than the str/bytes spelling
    of a name must not share an object.  (An implementation may or may not identify b'x' with 'x'; it may not let one
    spelling rewrite an object that is already in use.)"""
    specs = [tup(x) for x in specs]
    fresh_state()
    from miasm.expression.parser import str_to_expr   # bound after fresh_state(): the parser of the new generation
    held = []
    vs = []

    pending = []

    def report(kind, j, i, what):
        pending.append((kind, j, i, what))      # recorded after the sequence: minimising re-enters fresh_state()

    def emit(kind, j, i, what):
        pair = [specs[j], specs[i]]
        case = {"k": "held", "specs": pair if _reproduces(pair, kind) else specs[:i + 1]}
        vs.append(violation("held:%s:%s|by-constructing:%s" % (kind, skel(_spelled(specs[j])),
                                                              "a-bytes-named-tree" if _has_bytes(specs[i]) else "a-str-named-tree"), what, case))

    for i, s in enumerate(specs):
        try:
            e = build(s)
        except Exception:
            continue
        changed = {}
        for j, ej, snap in held:
            try:
                now = _observe(ej)
            except Exception as ex:
                now = ("raise", repr(ex))
            if now != snap:
                changed[j] = now
        for j, ej, snap in held:
            if j in changed:
                # report the smallest changed objects only (a changed leaf changes every tree built on it)
                if not any(k != j and _contains(_spelled(specs[j]), _spelled(specs[k])) for k in changed):
                    report("earlier-object-changed", j, i, "%r was built from %r; after constructing %r it reads %r" % (
                        snap[0], specs[j], s, changed[j][0]))
                continue
            if any(_contains(_spelled(specs[j]), _spelled(specs[k])) for k in changed):
                continue
            if ej is e and _spelled(norm(specs[j])) != _spelled(norm(s)):
                report("two-component-tuples-one-object", j, i, "%r and %r are one object" % (specs[j], s))
            if parse and not _has_bytes(specs[j]):
                try:
                    back = str_to_expr(repr(ej))
                except Exception as ex:
                    back = ex
                if back is not ej:
                    report("repr-no-longer-parses-back", j, i, "after constructing %r: str_to_expr(%s) gives %r" % (s, repr(ej), back))
                elif build(specs[j]) is not ej:
                    report("rebuild-gives-another-object", j, i, "after constructing %r, building %r again gives another object" % (s, specs[j]))
        held.append((i, e, _observe(e)))
    for args in pending:
        emit(*args)
    fresh_state()
    return vs


_in_repro = [False]


def _reproduces(pair, kind):
    if _in_repro[0]:
        return False
    _in_repro[0] = True
    try:
        return any(v["sig"].split(":")[1] == kind for v in check_held(pair))
    finally:
        _in_repro[0] = False


def held_sequences(thorough):
    """the same identifier (name, size) spelled as str and as bytes, trees built on one spelling held while the other
    spelling (and unrelated identifiers) are constructed; both directions"""
    seqs = []
    for name in ("a", "EAX", "é"):
        raw = name.encode("latin-1")
        for sz in (8, 32):
            for first, second in ((name, raw), (raw, name)):
                q = ("id", first, sz)
                k = ("int", 1, sz)
                trees = [q, ("op", "+", q, k), ("op", "-", q), ("mem", q, 8), ("slice", q, 0, 4), ("compose", q, q), ("compose", q),
                         ("cond", q, q, k), ("assign", q, k), ("op", "==", q, k), ("op", "+", ("mem", q, sz), ("op", "-", q))]
                others = [("id", second, sz + 8), ("id", first + first, sz), ("id", second, sz), ("op", "+", ("id", second, sz), k),
                          ("id", first, sz)]
                seqs.append(trees + others)
                seqs.append([q, ("id", second, sz)])
    return seqs


def check_pairs(specs):
    """No two different norm(spec) share an object; equal norm(spec) give one object (whole shard)."""
    vs = []
    by_id = {}
    by_norm = {}
    keep = []
    for s in specs:
        try:
            e = build(s)
        except Exception:
            continue
        keep.append(e)
        ns = norm(s)
        o = by_id.get(id(e))
        if o is not None and o[0] != ns:
            vs.append(violation("distinct:two-component-tuples-one-object:%s" % skel(s),
                                "%r and %r are built to the same object %r" % (o[1], s, e), {"k": "pair", "a": o[1], "b": s}))
        by_id.setdefault(id(e), (ns, s))
        o = by_norm.get(ns)
        if o is not None and o[0] is not e:
            vs.append(violation("identity:equal-components-two-objects:%s" % skel(s),
                                "%r and %r have equal components but are two objects" % (o[1], s), {"k": "pair", "a": o[1], "b": s}))
        by_norm.setdefault(ns, (e, s))
    return vs, len(by_norm)


# ------------------------------------------------------------------ lattice

def fam_ints(thorough):
    out = []
    for w in range(1, 129):
        vals = list(refsem.boundary(w))
        m = 1 << w
        vals += [-1, -2, -(m >> 1), -m, -m - 1, m, m + 1, 2 * m - 1]
        seen = set()
        for v in vals:
            if v not in seen:
                seen.add(v)
                out.append(("int", v, w))
    return out


def fam_leaves(thorough):
    out = [("id", n, sz) for n in NAMES for sz in ID_SIZES]
    for key in (0, 1, 7, -1, 1 << 31, (1 << 64) + 5):
        for sz in (8, 16, 64):
            out.append(("loc", key, sz))
    return out


def fam_names(thorough):
    """hostile names and their combinations as identifier names AND as operator names, bare and under every node kind"""
    out = []
    a, b = ("id", "a", 8), ("int", 1, 8)
    for n in NAMES_MIX:
        for sz in ID_SIZES:
            out.append(("id", n, sz))
    for n in NAMES + NAMES_MIX:
        for x in (a, ("id", n, 8)):
            out.append(("op", n, x))
            out.append(("op", n, x, b))
            out.append(("op", n, b, x, a))
        out.append(("op", n, ("op", n, a), ("id", n, 8)))
        out.append(("mem", ("op", n, a, b), 16))
        out.append(("slice", ("op", n, a), 1, 4))
        out.append(("compose", ("op", n, a), ("op", n, b)))
    for n in NAMES_MIX:
        q = ("id", n, 8)
        c = ("id", n, 1)
        out += [("op", "+", q, a), ("op", "-", q), ("op", "+", a, q, b), ("cond", c, q, a), ("cond", q, a, q), ("mem", q, 8), ("mem", q, 64),
                ("slice", q, 0, 8), ("slice", q, 3, 5), ("compose", q), ("compose", c, q), ("compose", q, a, c), ("assign", q, a),
                ("assign", ("mem", q, 8), q), ("assign", ("slice", ("id", n, 16), 0, 8), q), ("op", "==", q, a), ("op", "zeroExt_16", q),
                ("op", "segm", ("id", n, 16), q), ("op", "FLAG_EQ_ADDWC", q, a, c)]
        out += [("op", "+", ("op", "-", q), ("mem", q, 8)), ("cond", ("op", "==", q, a), ("slice", ("id", n, 16), 8, 16), q),
                ("compose", ("cond", c, q, a), ("mem", q, 8)), ("mem", ("op", "+", q, b), 8), ("assign", q, ("compose", ("slice", q, 0, 4), ("slice", a, 4, 8)))]
        if thorough:
            for m in NAMES + NAMES_MIX:
                out.append(("op", "+", q, ("id", m, 8)))
                out.append(("compose", ("id", m, 8), q))
    return out


def pools(thorough):
    L8 = [("id", n, 8) for n in NAMES] + [("int", 0, 8), ("int", 1, 8), ("int", 0x80, 8), ("int", -1, 8), ("loc", 1, 8)]
    L8r = [("id", "a", 8), ("id", "a\\'b", 8), ("id", "日本", 8), ("id", "ab\\", 8), ("int", 0xFF, 8), ("loc", 7, 8)]
    if thorough:
        L8r += [("id", n, 8) for n in NAMES if ("id", n, 8) not in L8r] + [("int", -128, 8), ("int", 0, 8)]
    L1 = [("id", "c", 1), ("id", "a'b", 1), ("int", 1, 1), ("int", 0, 1)]
    L16 = [("id", "p", 16), ("id", "a\\b", 16), ("int", 0xFFFF, 16), ("loc", 2, 16)]
    return L8, L8r, L1, L16


def fam_d1(thorough):
    L8, L8r, L1, L16 = pools(thorough)
    bin_ops = BIN_OPS if thorough else BIN_OPS_Q
    un_ops = UN_OPS if thorough else UN_OPS_Q
    out = []
    for op in bin_ops:
        for a in L8:
            for b in L8:
                out.append(("op", op, a, b))
    for a in L16[:2]:
        for b in L8r:
            out.append(("op", "segm", a, b))
    for op in un_ops:
        for a in L8 + L16:
            out.append(("op", op, a))
    for op in NARY3:
        for a, b, c in itertools.product(L8r, repeat=3):
            out.append(("op", op, a, b, c))
    for op in WC3:
        for a in L8r:
            for b in L8r:
                for c in L1:
                    out.append(("op", op, a, b, c))
    for c in L1 + L8r:
        for a in L8r:
            for b in L8r:
                out.append(("cond", c, a, b))
    for p in L8 + L16:
        for sz in (8, 16, 32, 64):
            out.append(("mem", p, sz))
    for a in L8:
        for st, sp in ((0, 8), (0, 1), (7, 8), (2, 5), (0, 4), (4, 8)):
            out.append(("slice", a, st, sp))
    for a in L16:
        for st, sp in ((0, 16), (8, 16), (0, 8), (15, 16)):
            out.append(("slice", a, st, sp))
    for a in L8 + L1 + L16:
        out.append(("compose", a))
    for a in L8:
        for b in L8:
            out.append(("compose", a, b))
    for a, b, c in itertools.product(L8r, repeat=3):
        out.append(("compose", a, b, c))
    for a in L1:
        for b in L8r:
            for c in L16:
                out.append(("compose", a, b, c))
                out.append(("compose", c, a))
    # assignments: to identifiers, memory, whole/partial slices (normalised by the constructor)
    for d in [x for x in L8 if x[0] == "id"]:
        for s in L8:
            out.append(("assign", d, s))
    for d in [("mem", ("id", "p", 16), 8), ("mem", ("id", "a\\'b", 8), 8)]:
        for s in L8:
            out.append(("assign", d, s))
    for base in L16[:2]:
        for st, sp in ((0, 8), (8, 16), (4, 12)):
            for s in L8r:
                out.append(("assign", ("slice", base, st, sp), s))
        for s in L16:
            out.append(("assign", ("slice", base, 0, 16), s))
    return out


def d1_core(thorough):
    """Depth-1 children used below a depth-2 root: every node kind, hostile names inside."""
    q = ("id", "a\\'b", 8)
    r = ("id", "日本", 8)
    b = ("id", "ab\\", 8)
    c8 = [("op", "+", q, r), ("op", "-", b), ("op", "&", r, ("int", -1, 8)), ("op", "+", q, r, b), ("cond", ("id", "a'b", 1), q, b),
          ("mem", q, 8), ("mem", ("id", "a\\b", 16), 8), ("slice", ("id", "a\\b", 16), 4, 12), ("slice", ("id", "p", 16), 0, 8),
          ("compose", q), ("compose", ("slice", r, 0, 4), ("slice", b, 4, 8)), ("op", "<<<", q, ("int", 1, 8)),
          ("op", "call_func_ret", q, b)]
    if thorough:
        c8 += [("op", "*", b, q), ("op", "a>>", r, q), ("cond", q, r, b), ("mem", ("loc", 7, 8), 8), ("op", "%", q, ("int", 3, 8)),
               ("compose", ("id", "c", 1), ("slice", q, 1, 8)), ("op", "^", q, q)]
    c1 = [("op", "==", q, r), ("op", "parity", b), ("slice", q, 7, 8), ("op", "FLAG_EQ_ADDWC", q, r, ("id", "c", 1))]
    c16 = [("compose", q, r), ("op", "zeroExt_16", b), ("mem", q, 16), ("op", "segm", ("id", "p", 16), ("id", "a\\b", 16))]
    return c8, c1, c16


def fam_d2(thorough):
    L8, L8r, L1, L16 = pools(thorough)
    c8, c1, c16 = d1_core(thorough)
    P8 = c8 + L8r
    P1 = c1 + L1[:2]
    P16 = c16 + L16[:2]
    out = []

    def deep(*ch):
        return any(children(c) for c in ch)

    bin_ops = ["+", "&", "<<", "==", "%", "FLAG_SUB_OF", "call_func_ret"] if thorough else ["+", "<<", "==", "call_func_ret"]
    for op in bin_ops:
        for a in P8:
            for b in P8:
                if deep(a, b):
                    out.append(("op", op, a, b))
    for op in (UN_OPS if thorough else UN_OPS_Q):
        for a in c8 + c16:
            out.append(("op", op, a))
    for op in ("+", "^"):
        for a in c8:
            for b in L8r[:3]:
                for c in (c8 if thorough else L8r[:3]):
                    out.append(("op", op, a, b, c))
                    out.append(("op", op, b, a, c))
    for c in P1 + c8[:4]:
        for a in P8:
            for b in (P8 if thorough else L8r[:3] + c8[:3]):
                if deep(c, a, b):
                    out.append(("cond", c, a, b))
    for p in c8 + c16:
        for sz in (8, 32):
            out.append(("mem", p, sz))
    for a in c8:
        for st, sp in ((0, 8), (0, 1), (3, 5)):
            out.append(("slice", a, st, sp))
    for a in c16:
        for st, sp in ((0, 16), (8, 16), (7, 9)):
            out.append(("slice", a, st, sp))
    for a in c8 + c1 + c16:
        out.append(("compose", a))
    for a in P8 + P1 + P16:
        for b in P8 + P1:
            if deep(a, b):
                out.append(("compose", a, b))
    for a in c8:
        for b in P1:
            for c in L8r[:3] + c16[:2]:
                out.append(("compose", a, b, c))
                out.append(("compose", c, b, a))
    for d in [("id", "a\\'b", 8), ("mem", ("op", "+", ("id", "a\\b", 8), ("int", 1, 8)), 8), ("mem", ("id", "p", 16), 8)]:
        for s in c8:
            out.append(("assign", d, s))
    for base in L16[:2]:
        for st, sp in ((0, 8), (8, 16), (4, 12)):
            for s in c8:
                out.append(("assign", ("slice", base, st, sp), s))
    for base in c16[:1]:
        for s in c8[:4]:
            out.append(("assign", ("slice", base, 8, 16), s))
    return out


FAMILIES = {"ints": fam_ints, "leaves": fam_leaves, "names": fam_names, "d1": fam_d1, "d2": fam_d2}
_fam_cache = {}


def family(name, thorough):
    key = (name, thorough)
    if key not in _fam_cache:
        seen = set()
        out = []
        for s in FAMILIES[name](thorough):
            if s not in seen:
                seen.add(s)
                out.append(s)
        _fam_cache[key] = out
    return _fam_cache[key]


def nontrivial(s):
    def walk(x):
        if x[0] == "id":
            return name_class(x[1]) != "plain"
        if x[0] == "int":
            return x[1] < 0 or x[1] >> x[2] or x[2] > 64
        if x[0] == "compose" and len(x) == 2:
            return True
        return any(walk(c) for c in children(x))
    return depth(s) >= 2 or bool(walk(s)) or (s[0] == "assign" and s[1][0] == "slice")


def _shard(args):
    kind, fam, thorough, idx, nsh = args
    vs = []
    counters = {"neighbours": 0, "canonize_raised": 0}
    if kind == "pairs":
        # all members of the family (and, for the cross shard, of every cheaper family) in one identity table
        fresh_state()
        allspecs = []
        for f in fam.split("+"):
            allspecs += family(f, thorough)
        pv, ndist = check_pairs(allspecs)
        fresh_state()
        return {"n": 0, "nt": 0, "vs": pv[:50], "sample": None, "pairs_table": len(allspecs), "distinct_objects": ndist,
                "neighbours": 0, "canonize_raised": 0, "kinds": {}, "dependent": 0, "histories": 0}
    if kind == "held":
        seqs = held_sequences(thorough) + [hist_menu(), list(reversed(hist_menu()))]
        n = 0
        for i in range(idx, len(seqs), nsh):
            vs += check_held(seqs[i], parse=(thorough or len(seqs[i]) < 40))
            n += len(seqs[i])
        return {"n": n, "nt": n, "vs": vs[:80], "sample": None, "pairs_table": 0, "distinct_objects": 0, "neighbours": 0,
                "canonize_raised": 0, "kinds": {}, "dependent": 0, "histories": len(range(idx, len(seqs), nsh))}
    if kind == "hist":
        seqs = hist_sequences(thorough)
        n = dep = 0
        for i in range(idx, len(seqs), nsh):
            r, d = judge_sequence(seqs[i], counters)
            vs += r
            dep += d
            n += len(seqs[i])
        return {"n": n, "nt": n, "vs": vs[:80], "sample": None, "pairs_table": 0, "distinct_objects": 0, "neighbours": counters["neighbours"],
                "canonize_raised": counters["canonize_raised"], "kinds": {}, "dependent": dep, "histories": len(range(idx, len(seqs), nsh))}
    specs = family(fam, thorough)
    n = nt = 0
    sample = None
    kinds = {}
    mine = []
    for i in range(idx, len(specs), nsh):
        s = specs[i]
        n += 1
        if nontrivial(s):
            nt += 1
            if sample is None:
                sample = s
        kinds[s[0]] = kinds.get(s[0], 0) + 1
        mine.append(s)
    vs, dep = judge_sequence(mine, counters)      # the shard is a construction history of its own, started fresh
    return {"n": n, "nt": nt, "vs": vs[:80], "sample": sample, "pairs_table": 0, "distinct_objects": 0,
            "neighbours": counters["neighbours"], "canonize_raised": counters["canonize_raised"], "kinds": kinds, "dependent": dep,
            "histories": 0}


def run(ctx):
    thorough = not ctx.quick
    nsh = 48
    import miasm.expression.parser  # noqa: imported before the pool forks (workers inherit the modules)
    for f in FAMILIES:
        family(f, thorough)
    shards = []
    for fam in ("ints", "leaves", "names", "d1", "d2"):
        k = 4 if fam in ("leaves", "names") else nsh
        shards += [("expr", fam, thorough, i, k) for i in range(k)]
    shards += [("pairs", "ints+leaves+names+d1+d2", thorough, 0, 1)]
    shards += [("hist", "", thorough, i, 4) for i in range(4)]
    shards += [("held", "", thorough, i, 2) for i in range(2)]
    res, how = amap(ctx, _shard, shards)
    for r in res:
        ctx.add_violations(r["vs"])
    kinds = {}
    for r in res:
        for k, v in r["kinds"].items():
            kinds[k] = kinds.get(k, 0) + v
    sizes = {f: len(family(f, thorough)) for f in FAMILIES}
    return {
        "evaluations": sum(r["n"] for r in res),
        "distinct_nontrivial": sum(r["nt"] for r in res),
        "samples": [r["sample"] for r in res if r["sample"]][:5],
        "exhaustive": True,
        "execution": how,
        "bounds": {"names": NAMES, "names_combined": NAMES_MIX, "operator_names": "all of names + names_combined", "id_sizes": ID_SIZES, "int_widths": "1..128 x boundary(w) + 8 out-of-range/negative arguments",
                   "max_depth": 2, "family_sizes": sizes, "pickle_protocols": PROTOCOLS},
        "oracle_applications": sum(r["n"] for r in res) * (len(ORACLES) + 6),
        "one_component_neighbours_compared": sum(r["neighbours"] for r in res),
        "identity_table_specs": sum(r["pairs_table"] for r in res),
        "identity_table_distinct_objects": sum(r["distinct_objects"] for r in res),
        "canonize_raised": sum(r["canonize_raised"] for r in res),
        "construction_histories": sum(r["histories"] for r in res),
        "history_dependent_violations": sum(r["dependent"] for r in res),
        "per_node_kind": kinds,
    }


def replay(case):
    if case["k"] == "expr":
        return check_spec(tup(case["spec"]), None)
    if case["k"] == "pair":
        vs, _ = check_pairs([tup(case["a"]), tup(case["b"])])
        return vs
    if case["k"] == "hist":
        return check_history(case["specs"])
    if case["k"] == "held":
        return check_held(case["specs"])
    return []
