"""C09 - possible-values enumeration covers exactly the concrete value.

Engine E2.  Space: expression specs of depth <= 3 over {Cond, Op(+, &, <<), Slice, Compose, Mem, Id, Int}, data widths
{1,2,3}, memory reads of 8 bits through pointers of width 3 or 8, with conditionals nested in operands, slices,
compositions, memory pointers, other conditionals' arms and conditions; every expression under ALL valuations of its
identifiers (8-bit pointer identifier: a boundary set) x a small memory alphabet.

Oracle (mc.refsem): for a valuation v let S = the alternatives of possible_values(e) whose constraints all hold
(CondConstraintZero(c) holds iff refsem(c) == 0, CondConstraintNotZero(c) iff != 0).  Then S is not empty and every
alternative in S evaluates to refsem(e).  possible_values(ExprAssign(dst, e)) is judged against refsem(e).
"""
import itertools

from mc import refsem
from mc.adaptive import amap
from mc.exprspec import build, children, depth, show, to_spec, tup
from mc.runner import violation

PROP = "C09"
LEVEL = "exploration"
ENGINE = "enum"
RULE = ("every expression of the typed lattice (depth 1: every node kind over leaves; depth 2: every node kind with one depth-1 child "
        "and siblings from leaves + core conditionals; depth 3: every node kind over one depth-2 child that nests a conditional; "
        "conditionals whose condition is a chain of 2-3 nested conditionals with constant arms of both polarities / non-constant arms) x all "
        "valuations x memory alphabet; distinct = expression; non-trivial = possible_values returns more than one alternative")
LEVEL_TEXT = ("Bounded-exhaustive: possible_values on every expression of an enumerated depth<=3 lattice in which conditionals sit in every "
              "syntactic position, judged against the reference evaluator under every valuation of the identifiers (all values for widths "
              "<= 3) and three memories. possible_values is purely structural (no constant depends on widths), so small widths lose nothing.")
LEVEL_NOTE = ("Trusted: mc/refsem.py. Not covered: depth > 3, operators other than + & <<, ExprLoc leaves (no reference value), "
              "8-bit identifiers beyond the boundary set.")
TECHNIQUE = "bounded-exhaustive enumeration of expressions x all valuations against a reference evaluator"
ASSUMPTIONS = ["an alternative's constraint CondConstraintZero(c) / CondConstraintNotZero(c) is read as c == 0 / c != 0 under the valuation"]

OPS = ("+", "&", "<<")
P8_VALUES = [0, 1, 2, 0x7F, 0x80, 0xFE, 0xFF]


def I(v, w):
    return ("int", v, w)


def V(n, w):
    return ("id", n, w)


LEAVES = {
    1: [V("c1", 1), V("d1", 1), I(0, 1), I(1, 1)],
    2: [V("x2", 2), V("y2", 2), I(0, 2), I(1, 2), I(3, 2)],
    3: [V("x3", 3), V("y3", 3), I(0, 3), I(1, 3), I(5, 3), I(7, 3)],
    8: [V("p8", 8), I(0, 8), I(0x10, 8), I(0xFF, 8)],
}
LEAVES_R = {
    1: [V("c1", 1), I(1, 1)],
    2: [V("x2", 2), I(1, 2)],
    3: [V("x3", 3), I(5, 3)],
    8: [V("p8", 8), I(0x10, 8)],
}
WIDTHS = (1, 2, 3, 8)


def constructors():
    """(tag, result width, child widths, builder)"""
    out = []
    for w in WIDTHS:
        for op in OPS:
            out.append(("op" + op, w, (w, w), lambda c, op=op: ("op", op) + c))
    out.append(("op+3", 3, (3, 3, 3), lambda c: ("op", "+") + c))
    for w in WIDTHS:
        for cw in (1, 2, 3):
            if cw in (1, w) or (w == 8 and cw == 3):
                out.append(("cond%d" % cw, w, (cw, w, w), lambda c: ("cond",) + c))
    for W, w, st in ((2, 1, 0), (2, 1, 1), (3, 1, 0), (3, 1, 2), (3, 2, 0), (3, 2, 1),
                     (8, 3, 0), (8, 3, 5), (8, 2, 2), (8, 1, 7), (8, 1, 0), (8, 2, 0)):
        out.append(("slice%d[%d:%d]" % (W, st, st + w), w, (W,), lambda c, st=st, w=w: ("slice", c[0], st, st + w)))
    for parts in ((1, 1), (1, 2), (2, 1), (1, 1, 1), (3, 3, 2), (2, 3, 3), (3, 2, 3)):
        out.append(("compose" + "".join(map(str, parts)), sum(parts), parts, lambda c: ("compose",) + c))
    for pw in (3, 8):
        out.append(("mem%d" % pw, 8, (pw,), lambda c: ("mem", c[0], 8)))
    return out


CONS = constructors()


def has_cond(s):
    return s[0] == "cond" or any(has_cond(c) for c in children(s))


def over(pools):
    """every constructor, all children from pools[width]"""
    out = {w: [] for w in WIDTHS}
    for tag, w, cws, mk in CONS:
        for ch in itertools.product(*[pools[cw] for cw in cws]):
            out[w].append(mk(tuple(ch)))
    return out


def spine(deep, sib, only=None):
    """every constructor with one child from deep[width] (each position), the others from sib[width]"""
    out = {w: [] for w in WIDTHS}
    for tag, w, cws, mk in CONS:
        if only and not tag.startswith(only):
            continue
        for pos in range(len(cws)):
            pools = [sib[cw] for i, cw in enumerate(cws) if i != pos]
            for d in deep[cws[pos]]:
                for sc in itertools.product(*pools):
                    ch = list(sc)
                    ch.insert(pos, d)
                    out[w].append(mk(tuple(ch)))
    return out


def core_conds(full):
    """conditionals over leaves used as non-leaf siblings: condition on a 1-bit / same-width identifier, arms id/const mixes"""
    out = {}
    for w in WIDTHS:
        lv = LEAVES[w]
        ids = [x for x in lv if x[0] == "id"]
        ints = [x for x in lv if x[0] == "int"]
        conds = [V("c1", 1)] + ([ids[0]] if w in (2, 3) else [V("x3", 3)] if w == 8 else [V("d1", 1)])
        arms = [(ids[0], ints[-1]), (ints[0], ids[-1])]
        if full:
            arms += [(ids[0], ids[-1]) if len(ids) > 1 else (ids[0], ints[0]), (ints[1], ints[-1])]
        out[w] = [("cond", c, a, b) for c in conds for a, b in arms]
    return out


def cond_chains(thorough):
    """ExprCond whose CONDITION is a chain of 1..3 nested conditionals ("wrappers") around an inner condition.
    Wrappers of widths 1, 2, 3 with constant arms of both polarities (non-zero/zero, zero/non-zero, both non-zero,
    both zero) and with non-constant arms; every sequence of wrappers; the root's arms are leaves or a conditional.
    Also the chain as an operand, a slice argument, a composition part and a memory pointer."""
    wr = [(I(1, 1), I(0, 1)), (I(0, 1), I(1, 1)), (I(5, 3), I(0, 3)), (I(0, 3), I(7, 3)), (I(0, 2), I(3, 2)), (I(1, 3), I(4, 3)),
          (I(0, 1), I(0, 1)), (V("d1", 1), I(0, 1)), (I(0, 3), V("y3", 3)), (V("x3", 3), V("y3", 3))]
    wr_q = wr[:6] + wr[7:9]
    inner = [V("c1", 1), V("x3", 3), ("op", "&", V("x2", 2), V("y2", 2))]
    arms = [(V("x3", 3), V("y3", 3)), (I(5, 3), V("x3", 3)), (V("c1", 1), I(1, 1))]
    out = []

    def wrap(c, w):
        return ("cond", c, w[0], w[1])

    for a in inner:
        for w1 in wr:
            c1_ = wrap(a, w1)
            for w2 in wr:
                c2 = wrap(c1_, w2)
                for b, c in arms:
                    out.append(("cond", c2, b, c))
                for w3 in (wr if thorough else wr_q):
                    if not thorough and a is not inner[0] and w1 not in wr_q:
                        continue
                    c3 = wrap(c2, w3)
                    for b, c in (arms if thorough else arms[:1]):
                        out.append(("cond", c3, b, c))
                # the chain in other positions / a conditional arm
                root = ("cond", c2, V("x3", 3), I(5, 3))
                out.append(("op", "+", root, V("y3", 3)))
                out.append(("slice", root, 1, 3))
                out.append(("compose", V("c1", 1), root))
                out.append(("mem", root, 8))
                out.append(("cond", V("d1", 1), root, V("y3", 3)))
                out.append(("cond", c2, ("cond", c1_, V("x3", 3), I(1, 3)), V("y3", 3)))
    return out


def lattice(thorough):
    """list of (depth-class, spec), duplicate-free, simplest first"""
    L, Lr = LEAVES, LEAVES_R
    C1 = core_conds(thorough)
    C1r = {w: C1[w][:1] for w in WIDTHS}
    d1 = over(L)
    d1r = over(Lr)
    sib2 = {w: (L[w] + C1[w]) if thorough else (Lr[w] + C1[w][1:3]) for w in WIDTHS}
    d2 = spine(d1r, sib2)
    # depth-2 trees that nest a conditional one level down, reduced siblings: the depth-2 children of depth 3
    sib2c = {w: Lr[w][:1] + (C1r[w] if thorough else []) for w in WIDTHS}
    d2c_all = spine(C1 if thorough else {w: C1[w][:2] for w in WIDTHS}, sib2c)
    d2c = {w: [s for s in d2c_all[w]] for w in WIDTHS}
    sib3 = {w: Lr[w][:1] + C1r[w] for w in WIDTHS}
    d3 = spine(d2c, sib3)
    out = []
    seen = set()
    for lvl, pools in (("leaf", L), ("d1", d1), ("d2", d2), ("d3", d3)):
        for w in WIDTHS:
            for s in pools[w]:
                if s not in seen:
                    seen.add(s)
                    out.append(s)
    # conditions that are themselves conditionals (chains of depth 2 and 3 in the condition position)
    for s in cond_chains(thorough):
        if s not in seen:
            seen.add(s)
            out.append(s)
    # assignments (possible_values looks through them)
    for w in (3, 8):
        for s in d2c_all[w][: (40 if thorough else 12)]:
            a = ("assign", V("dst%d" % w, w), s)
            if a not in seen:
                seen.add(a)
                out.append(a)
    return out


_lat = {}


def get_lattice(thorough):
    if thorough not in _lat:
        _lat[thorough] = lattice(thorough)
    return _lat[thorough]


# ------------------------------------------------------------------ oracle

def zero_mem(ps, a):
    return 0


def low_mem(ps, a):
    return (a ^ 0xA5) & 0xFF


MEMS = [("pattern", refsem.pattern_mem), ("zero", zero_mem), ("addr^0xA5", low_mem)]


def contexts(s, parent="top", out=None):
    """where conditionals sit"""
    if out is None:
        out = set()
    k = s[0]
    if k == "cond":
        out.add(parent)
        contexts(s[1], "cond-condition", out)
        contexts(s[2], "cond-arm", out)
        contexts(s[3], "cond-arm", out)
    elif k == "mem":
        contexts(s[1], "mem-pointer", out)
    elif k == "slice":
        contexts(s[1], "slice", out)
    elif k == "op":
        for a in s[2:]:
            contexts(a, "op(%s)" % s[1], out)
    elif k == "compose":
        for a in s[1:]:
            contexts(a, "compose", out)
    elif k == "assign":
        contexts(s[2], "assign-src", out)
    return out


KN = {"cond": "ExprCond", "mem": "ExprMem", "slice": "ExprSlice", "compose": "ExprCompose", "assign": "ExprAssign", "id": "ExprId",
      "int": "ExprInt", "op": "ExprOp"}


def skeleton(s):
    """node kind and the classes (leaf / cond / node) of its direct children, e.g. ExprOp(+)(cond,leaf)"""
    def kn(x):
        return "ExprOp(%s)" % x[1] if x[0] == "op" else KN[x[0]]
    def cl(x):
        return "leaf" if x[0] in ("id", "int") else ("cond" if x[0] == "cond" else "node")
    return "%s(%s)" % (kn(s), ",".join(cl(c) for c in children(s)))


def valuation_lists(ids):
    return [range(1 << i.size) if i.size <= 3 else P8_VALUES for i in ids]


def _judge(s, stats=None):
    from miasm.expression.expression_helper import possible_values, CondConstraintZero, CondConstraintNotZero
    case = {"k": "expr", "spec": s}
    e = build(s)
    target = e.src if e.is_assign() else e
    try:
        alts = list(possible_values(e))
    except Exception as ex:
        return [violation("possible_values:raise:%s:%s" % (type(ex).__name__, skeleton(s)), "possible_values(%s) raised %r" % (show(s), ex), case)]
    ids = refsem.free_ids(target)
    idset = set(ids)
    # identifiers that only occur in alternatives would be a defect of its own (unbound): compile would raise Unsupported
    fn_e = refsem.compile_expr(target, ids)
    comp = {}

    def cc(x):
        if x not in comp:
            comp[x] = refsem.compile_expr(x, ids)
        return comp[x]

    prepared = []
    try:
        for alt in alts:
            cons = []
            for c in alt.constraints:
                if isinstance(c, CondConstraintZero):
                    cons.append((cc(c.expr), True))
                elif isinstance(c, CondConstraintNotZero):
                    cons.append((cc(c.expr), False))
                else:
                    return [violation("possible_values:unknown-constraint-class:%s" % type(c).__name__, "possible_values(%s) carries %r" % (show(s), c), case)]
            prepared.append((cons, cc(alt.value), alt))
    except refsem.Unsupported as ex:
        return [violation("possible_values:alternative-not-evaluable:%s" % skeleton(s), "possible_values(%s): %s" % (show(s), ex), case)]
    mems = MEMS if refsem.has_mem(target) else MEMS[:1]
    if stats is not None:
        stats["alts"] += len(alts)
        stats["max_alts"] = max(stats["max_alts"], len(alts))
        if len(alts) > 1:
            stats["nontrivial"] += 1
    nsat_seen = set()
    for mname, mem in mems:
        for v in itertools.product(*valuation_lists(ids)):
            want = fn_e(v, mem)
            nsat = 0
            for cons, fv, alt in prepared:
                ok = True
                for fc, zero in cons:
                    if (fc(v, mem) == 0) != zero:
                        ok = False
                        break
                if not ok:
                    continue
                nsat += 1
                got = fv(v, mem)
                if got != want:
                    env = ", ".join("%s=%d" % (i.name, x) for i, x in zip(ids, v))
                    return [violation("possible_values:satisfied-alternative-has-wrong-value:%s" % skeleton(s),
                                      "possible_values(%s): alternative %s with constraints %s holds for %s (memory %s) and evaluates to %d, "
                                      "the expression to %d" % (show(s), alt.value, sorted(map(repr, alt.constraints)), env or "-", mname, got, want), case)]
            if stats is not None:
                stats["evals"] += 1
                nsat_seen.add(nsat)
            if nsat == 0:
                env = ", ".join("%s=%d" % (i.name, x) for i, x in zip(ids, v))
                return [violation("possible_values:no-alternative-satisfied:%s" % skeleton(s),
                                  "possible_values(%s): none of the %d alternatives has all its constraints satisfied for %s (memory %s)" % (
                                      show(s), len(alts), env or "-", mname), case)]
    if stats is not None:
        stats["nsat"].update(nsat_seen)
    return []


def check_spec(s, stats=None):
    """Judge s; a violation is attributed to the smallest sub-expression that violates on its own."""
    vs = _judge(s, stats)
    if not vs:
        return vs
    cur = s
    while True:
        for c in children(cur):
            if c[0] in ("id", "int"):
                continue
            if _judge(c):
                cur = c
                break
        else:
            break
    if cur is not s:
        sub = _judge(cur)[0]
        vs[0]["sig"] = sub["sig"]
        vs[0]["what"] += "  [smallest failing sub-expression: %s]" % show(cur)
    return vs


def _shard(args):
    thorough, idx, nsh = args
    lat = get_lattice(thorough)
    st = {"alts": 0, "max_alts": 0, "nontrivial": 0, "evals": 0, "nsat": set()}
    vs = []
    n = 0
    ctx_seen = set()
    by_depth = {}
    sample = None
    for i in range(idx, len(lat), nsh):
        s = lat[i]
        n += 1
        nt0 = st["nontrivial"]
        r = check_spec(s, st)
        vs += r
        d = depth(s)
        by_depth[d] = by_depth.get(d, 0) + 1
        ctx_seen.update(contexts(s))
        if sample is None and d == 3 and st["nontrivial"] > nt0 and not r:
            sample = show(s)
    out = []
    cnt = {}
    for v in vs:
        c = cnt.get(v["sig"], 0)
        cnt[v["sig"]] = c + 1
        if c < 3:
            out.append(v)
    return {"n": n, "nt": st["nontrivial"], "vs": out, "sample": sample, "alts": st["alts"], "max_alts": st["max_alts"], "evals": st["evals"],
            "nsat": sorted(st["nsat"]), "contexts": sorted(ctx_seen), "by_depth": by_depth}


def run(ctx):
    thorough = not ctx.quick
    import miasm.expression.expression_helper  # noqa: before the pool forks
    lat = get_lattice(thorough)
    nsh = 64
    res, how = amap(ctx, _shard, [(thorough, i, nsh) for i in range(nsh)])
    allv = []
    for r in res:
        allv += r["vs"]
    allv.sort(key=lambda v: (v["sig"], len(repr(v["case"])), repr(v["case"])))
    ctx.add_violations(allv)
    by_depth = {}
    ctxs = set()
    nsat = set()
    for r in res:
        for k, v in r["by_depth"].items():
            by_depth[k] = by_depth.get(k, 0) + v
        ctxs.update(r["contexts"])
        nsat.update(r["nsat"])
    return {
        "evaluations": sum(r["n"] for r in res),
        "distinct_nontrivial": sum(r["nt"] for r in res),
        "samples": [r["sample"] for r in res if r["sample"]][:5],
        "exhaustive": True,
        "execution": how,
        "bounds": {"max_depth": 3, "widths": list(WIDTHS), "ops": list(OPS), "p8_values": P8_VALUES, "memories": [m[0] for m in MEMS],
                   "expressions": len(lat),
                   "condition_chains": len(cond_chains(thorough))},
        "expressions_by_depth": by_depth,
        "valuations_judged": sum(r["evals"] for r in res),
        "alternatives_total": sum(r["alts"] for r in res),
        "max_alternatives": max(r["max_alts"] for r in res),
        "conditional_positions_seen": sorted(ctxs),
        "distinct_outcomes": len(nsat),
        "satisfied_alternatives_per_valuation_seen": sorted(nsat),
    }


def replay(case):
    if case["k"] == "expr":
        return check_spec(tup(case["spec"]))
    return []
