"""C10 - range analysis over-approximates every concrete value.

Engine E2.

(a) interval level (miasm.analysis.modularintervals.ModularIntervals)
    width 3: ALL 256 subsets of {0..7} as operand sets A, B; all ordered pairs; every binary handler
        + & | ^ *  << >> a>> >>> <<<  (set operand = also "shift / rotate by an interval"), A + (-B), union,
        intersection, update, intersection_update, the same with a plain integer on the right (the _promote path);
        unary -, % k (k = 1..9), size_update(n) (n = 1..5).
    widths 4, 5 (8 in thorough): every single interval [a, b] (quick at width 5 / thorough at width 8: bounds taken
        from refsem.boundary(w)) and every ordered pair of single intervals, same operations.
    Oracle: brute force. image = { op(x, y) : x in A, y in B } computed on Python ints with the IR meaning of the
    operator (mc.refsem helpers: shift counts >= width give 0 / the sign, rotation counts are modulo the width);
    image must be a subset of the result, the result must stay inside [0, 2^w - 1] with the operand width.
    Empty operand sets have no image: an exception there is counted, not judged.  x % 0 is undefined: not in the alphabet.
(b) expression level (miasm.analysis.expression_range.expr_range)
    mc.exprgen lattice over widths {1,2,3}: every node kind over leaves (depth 1) and every node kind with one depth-1
    child (depth 2), restricted to the operators expr_range has a transfer function for (+ & | ^ * a>> << >> >>> <<<
    unary - %) plus Slice / Compose / Cond, and a small family of memory reads; x ALL valuations of the identifiers:
    refsem(e) must be a member of expr_range(e).
(c) histories of queries: ordered pairs of a menu of ~70 representative queries (every operator and node kind, compose /
    zeroExt / slice over identifier and memory leaves, widths 1-16) and triples widen x widen x width-sensitive, each
    executed from a fresh module state (fresh_state(): interval, modularintervals and expression_range re-created from
    source).  Oracle on the LAST query: same answer as when asked alone, over-approximation; earlier answers must not be
    changed by later queries.  The bulk enumeration (b) starts every shard from a fresh state; a violation that does not
    reproduce alone is re-found from the shard's earlier queries, shrunk greedily, and recorded with that history.
"""
import itertools

from mc import exprgen, refsem
from mc.exprspec import build, to_spec, tup
from mc.adaptive import amap
from mc.runner import violation

PROP = "C10"
LEVEL = "exploration"
ENGINE = "enum"
RULE = ("(a) every ordered pair of operand sets (all subsets at width 3, all [a,b] intervals at widths 4-5(-8)) x every interval operation; "
        "(b) every expression of the depth<=2 lattice over the handled operators x all valuations; distinct = (operation, operands) "
        "resp. expression; non-trivial = the result is not the full domain (the analysis claimed something that could be wrong)")
LEVEL_TEXT = ("Bounded-exhaustive: every modular-interval operation on every pair of operand sets of the stated small widths against a "
              "brute-force image, and expr_range on a complete depth<=2 expression lattice against the reference evaluator under "
              "all valuations. The interval algorithms are width-generic (Hacker's Delight bounds iterate over bit positions), so "
              "small widths exercise every branch: carries, wrap-around, sign boundary, counts at / past the width.")
LEVEL_NOTE = ("Trusted: mc/refsem.py operator meanings, Python ints. Not covered: widths above 8 at interval level and above 3 at "
              "expression level, precision (only soundness is judged), operand sets that are empty (counted).")
TECHNIQUE = "bounded-exhaustive enumeration of operand sets / expressions against a brute-force image"
ASSUMPTIONS = ["modulo by zero is undefined (not enumerated; expressions whose divisor is 0 under every valuation are skipped and counted)",
               "the concrete meaning of <<, >>, a>>, <<<, >>> is the IR one (counts >= width shift everything out, rotations are modulo the width)"]

HANDLED = {"+", "&", "|", "^", "*", "a>>", "<<", ">>", ">>>", "<<<", "-", "%"}


def _MI():
    from miasm.analysis.modularintervals import ModularIntervals
    return ModularIntervals


# ------------------------------------------------------------------ concrete meanings

def c_add(x, y, w): return (x + y) & refsem.mask(w)
def c_sub(x, y, w): return (x - y) & refsem.mask(w)
def c_and(x, y, w): return x & y
def c_or(x, y, w): return x | y
def c_xor(x, y, w): return x ^ y
def c_mul(x, y, w): return (x * y) & refsem.mask(w)


BIN = [
    # name, concrete, apply on ModularIntervals (B may be a ModularIntervals or an int)
    ("add", c_add, lambda A, B: A + B),
    ("and", c_and, lambda A, B: A & B),
    ("or", c_or, lambda A, B: A | B),
    ("xor", c_xor, lambda A, B: A ^ B),
    ("mul", c_mul, lambda A, B: A * B),
    ("shl", refsem.h_shl, lambda A, B: A << B),
    ("shr", refsem.h_shr, lambda A, B: A >> B),
    ("sar", refsem.h_sar, lambda A, B: A.arithmetic_shift_right(B)),
    ("ror", refsem.h_ror, lambda A, B: A.rotation_right(B)),
    ("rol", refsem.h_rol, lambda A, B: A.rotation_left(B)),
    ("add-neg", c_sub, lambda A, B: A + (-B)),
]
BIN_BY_NAME = dict((n, (c, f)) for n, c, f in BIN)
SET_OPS = ["union", "intersection", "update", "intersection_update"]


def to_ivs(mask_bits, w):
    """bitmask of members -> canonical list of (lo, hi)."""
    out = []
    x = 0
    n = 1 << w
    while x < n:
        if mask_bits >> x & 1:
            lo = x
            while x + 1 < n and mask_bits >> (x + 1) & 1:
                x += 1
            out.append((lo, x))
        x += 1
    return out


def mi_mask(mi, w):
    """ModularIntervals -> bitmask of members, or a string describing why it is malformed."""
    if mi.size != w:
        return "size %r instead of %d" % (mi.size, w)
    m = 0
    for lo, hi in mi.intervals:
        if lo < 0 or hi >= (1 << w) or lo > hi:
            return "interval (%r, %r) outside [0, 2^%d)" % (lo, hi, w)
        m |= ((1 << (hi - lo + 1)) - 1) << lo
    return m


def members(bits):
    out = []
    x = 0
    while bits:
        if bits & 1:
            out.append(x)
        bits >>= 1
        x += 1
    return out


def set_cls(bits, w):
    if bits == 0:
        return "empty"
    iv = to_ivs(bits, w)
    if len(iv) > 1:
        return "multi"
    return "single" if iv[0][0] == iv[0][1] else "interval"


def fmt(bits, w):
    return "{" + ",".join("%d" % lo if lo == hi else "%d..%d" % (lo, hi) for lo, hi in to_ivs(bits, w)) + "}"


def check_bin(w, name, abits, bbits, rhs_int=None, stats=None):
    """One binary operation on operand sets given as bitmasks. rhs_int: pass the (single) right operand as a Python int."""
    MI = _MI()
    case = {"k": "bin", "w": w, "op": name, "a": abits, "b": bbits, "int": rhs_int}
    conc, f = BIN_BY_NAME[name]
    A = MI(w, to_ivs(abits, w))
    B = rhs_int if rhs_int is not None else MI(w, to_ivs(bbits, w))
    try:
        R = f(A, B)
    except Exception as ex:
        if abits == 0 or bbits == 0:
            if stats is not None:
                stats["raised_on_empty"] += 1
            return []
        return [violation("interval:%s:raise:%s:%s/%s" % (name, type(ex).__name__, set_cls(abits, w), set_cls(bbits, w)),
                          "width %d: %s(%s, %s) raised %r" % (w, name, fmt(abits, w), fmt(bbits, w), ex), case)]
    rm = mi_mask(R, w)
    if isinstance(rm, str):
        return [violation("interval:%s:malformed-result" % name, "width %d: %s(%s, %s) = %s: %s" % (w, name, fmt(abits, w), fmt(bbits, w), R, rm), case)]
    vs = []
    img = 0
    for x in members(abits):
        for y in members(bbits):
            img |= 1 << conc(x, y, w)
    if stats is not None:
        if rm != (1 << (1 << w)) - 1:
            stats["nontrivial"] += 1
        stats["outcomes"].add(rm)
    miss = img & ~rm
    if miss:
        wit = None
        for x in members(abits):
            for y in members(bbits):
                if miss >> conc(x, y, w) & 1:
                    wit = (x, y, conc(x, y, w))
                    break
            if wit:
                break
        vs.append(violation("interval:%s:misses-value:%s/%s%s" % (name, set_cls(abits, w), set_cls(bbits, w), "/int-rhs" if rhs_int is not None else ""),
                            "width %d: %s(%s, %s) = %s does not contain %s(%d, %d) = %d" % (
                                w, name, fmt(abits, w), fmt(bbits, w), fmt(rm, w), name, wit[0], wit[1], wit[2]), case))
    if mi_mask(A, w) != abits or (rhs_int is None and mi_mask(B, w) != bbits):
        vs.append(violation("interval:%s:changes-operand" % name, "width %d: %s(%s, %s) modified an operand" % (w, name, fmt(abits, w), fmt(bbits, w)), case))
    return vs


def check_set(w, name, abits, bbits, stats=None):
    MI = _MI()
    case = {"k": "set", "w": w, "op": name, "a": abits, "b": bbits}
    A = MI(w, to_ivs(abits, w))
    B = MI(w, to_ivs(bbits, w))
    try:
        if name == "union":
            R = A.union(B)
        elif name == "intersection":
            R = A.intersection(B)
        elif name == "update":
            A.update(B)
            R = A
        else:
            A.intersection_update(B)
            R = A
    except Exception as ex:
        return [violation("interval:%s:raise:%s" % (name, type(ex).__name__), "width %d: %s(%s, %s) raised %r" % (w, name, fmt(abits, w), fmt(bbits, w), ex), case)]
    rm = mi_mask(R, w)
    if isinstance(rm, str):
        return [violation("interval:%s:malformed-result" % name, "width %d: %s(%s, %s): %s" % (w, name, fmt(abits, w), fmt(bbits, w), rm), case)]
    want = (abits | bbits) if name in ("union", "update") else (abits & bbits)
    if stats is not None:
        stats["outcomes"].add(rm)
        if want != abits and want != bbits:
            stats["nontrivial"] += 1
    if want & ~rm:
        return [violation("interval:%s:misses-value:%s/%s" % (name, set_cls(abits, w), set_cls(bbits, w)),
                          "width %d: %s(%s, %s) = %s lacks %s" % (w, name, fmt(abits, w), fmt(bbits, w), fmt(rm, w), fmt(want & ~rm, w)), case)]
    return []


def check_un(w, name, abits, k=None, stats=None):
    """neg / mod k / size_update(k)"""
    MI = _MI()
    case = {"k": "un", "w": w, "op": name, "a": abits, "arg": k}
    A = MI(w, to_ivs(abits, w))
    rw = w
    try:
        if name == "neg":
            R = -A
            img = 0
            for x in members(abits):
                img |= 1 << ((-x) & refsem.mask(w))
        elif name == "mod":
            R = A % k
            img = 0
            for x in members(abits):
                img |= 1 << (x % k)
        else:
            fits = abits >> (1 << k) == 0 if k < w else True
            if not fits:
                # documented precondition ("The size of elements must be <= @new_size"): nothing to judge
                if stats is not None:
                    stats["precondition_skipped"] += 1
                return []
            R = A.size_update(k)
            rw = k
            img = abits
    except Exception as ex:
        if abits == 0:
            if stats is not None:
                stats["raised_on_empty"] += 1
            return []
        return [violation("interval:%s:raise:%s:%s" % (name, type(ex).__name__, set_cls(abits, w)),
                          "width %d: %s(%s, %r) raised %r" % (w, name, fmt(abits, w), k, ex), case)]
    rm = mi_mask(R, rw)
    if isinstance(rm, str):
        return [violation("interval:%s:malformed-result" % name, "width %d: %s(%s, %r): %s" % (w, name, fmt(abits, w), k, rm), case)]
    if stats is not None:
        stats["outcomes"].add(rm)
        if rm != (1 << (1 << rw)) - 1:
            stats["nontrivial"] += 1
    miss = img & ~rm
    if miss:
        return [violation("interval:%s:misses-value:%s" % (name, set_cls(abits, w)),
                          "width %d: %s(%s%s) = %s lacks %s" % (w, name, fmt(abits, w), "" if k is None else ", %d" % k, fmt(rm, rw), fmt(miss, rw)), case)]
    return []


def iv_bits(a, b):
    return ((1 << (b - a + 1)) - 1) << a


def _new_stats():
    return {"raised_on_empty": 0, "precondition_skipped": 0, "nontrivial": 0, "outcomes": set()}


def shard_subsets(args):
    """width 3 (all subsets): A in a chunk x B x all operations.
    restrict: B only over the empty set and the 36 single intervals (quick tier)."""
    w, lo, hi, restrict = args
    MI = _MI()
    st = _new_stats()
    vs = []
    n = 0
    N = 1 << w
    nsets = 1 << N
    full = nsets - 1
    IV = [to_ivs(bits, w) for bits in range(nsets)]
    # rowimg[name][x][b] = { op(x, y) : y in b } as a bitmask, built incrementally over the lowest member of b
    rowimg = {}
    for name, conc, _ in BIN:
        tab = []
        for x in range(N):
            row = [0] * nsets
            for bits in range(1, nsets):
                low = bits & -bits
                row[bits] = row[bits ^ low] | (1 << conc(x, low.bit_length() - 1, w))
            tab.append(row)
        rowimg[name] = tab
    for a in range(lo, hi):
        amem = members(a)
        A = MI(w, IV[a])
        for b in range(nsets):
            if restrict and len(IV[b]) > 1:
                continue
            B = MI(w, IV[b])
            for name, conc, f in BIN:
                n += 1
                try:
                    R = f(A, B)
                    rm = mi_mask(R, w)
                    bad = isinstance(rm, str)
                except Exception:
                    bad = True
                if not bad:
                    img = 0
                    tab = rowimg[name]
                    for x in amem:
                        img |= tab[x][b]
                    bad = bool(img & ~rm) or mi_mask(A, w) != a or mi_mask(B, w) != b
                if bad:
                    vs += check_bin(w, name, a, b, None, st)   # slow path builds the record (and counts empty operands)
                    A = MI(w, IV[a])
                    B = MI(w, IV[b])
                    continue
                if rm != full:
                    st["nontrivial"] += 1
                st["outcomes"].add(rm)
            for name in SET_OPS:
                n += 1
                vs += check_set(w, name, a, b, st)
        for kk in range(1 << w):
            for name, _, _ in BIN:
                if name == "add-neg":
                    continue  # -k is not a value of the domain
                n += 1
                vs += check_bin(w, name, a, 1 << kk, kk, st)
        n += 1
        vs += check_un(w, "neg", a, None, st)
        for k in range(1, (1 << w) + 2):
            n += 1
            vs += check_un(w, "mod", a, k, st)
        for k in range(1, w + 3):
            n += 1
            vs += check_un(w, "size_update", a, k, st)
    return {"n": n, "nt": st["nontrivial"], "vs": _cap(vs), "raised_on_empty": st["raised_on_empty"], "pre": st["precondition_skipped"],
            "outcomes": len(st["outcomes"]), "sample": None}


Q5 = [0, 1, 3, 4, 5, 6, 15, 16, 17, 30, 31]


def bounds_for(w, bounded):
    """interval bounds: all values, refsem.boundary(w), or (quick tier, width 5) the constant list Q5"""
    if bounded == "q5":
        return list(Q5)
    return refsem.boundary(w) if bounded else list(range(1 << w))


def shard_intervals(args):
    """single intervals: [a,b] with a in a chunk x all [c,d] x one binary operation (incremental brute-force image)."""
    w, bounded, name, a_lo, a_hi = args
    MI = _MI()
    conc, f = BIN_BY_NAME[name]
    pts = bounds_for(w, bounded)
    N = 1 << w
    full = (1 << N) - 1
    st = _new_stats()
    vs = []
    n = 0
    sample = None
    for a in pts[a_lo:a_hi]:
        # col[y][b] = image of x in [a, b] under op(., y), for b >= a
        col = []
        for y in range(N):
            acc = 0
            row = {}
            for b in range(a, N):
                acc |= 1 << conc(b, y, w)
                row[b] = acc
            col.append(row)
        for b in pts:
            if b < a:
                continue
            abits = iv_bits(a, b)
            for c in pts:
                img = 0
                prev = c
                first = True
                for d in pts:
                    if d < c:
                        continue
                    # extend the image from y in [c, prev] to y in [c, d]
                    for y in range(c if first else prev + 1, d + 1):
                        img |= col[y][b]
                    first = False
                    prev = d
                    n += 1
                    A = MI(w, [(a, b)])
                    B = MI(w, [(c, d)])
                    try:
                        R = f(A, B)
                    except Exception as ex:
                        vs.append(violation("interval:%s:raise:%s:%s/%s" % (name, type(ex).__name__, set_cls(abits, w), set_cls(iv_bits(c, d), w)),
                                            "width %d: %s([%d,%d], [%d,%d]) raised %r" % (w, name, a, b, c, d, ex),
                                            {"k": "bin", "w": w, "op": name, "a": abits, "b": iv_bits(c, d), "int": None}))
                        continue
                    rm = mi_mask(R, w)
                    if isinstance(rm, str) or img & ~rm:
                        vs += check_bin(w, name, abits, iv_bits(c, d), None, None)
                        continue
                    if rm != full:
                        st["nontrivial"] += 1
                        if sample is None and b > a and d > c:
                            sample = {"width": w, "op": name, "A": [a, b], "B": [c, d], "result": to_ivs(rm, w)}
                    if w <= 5:
                        st["outcomes"].add(rm)
                    else:
                        st["outcomes"].add(hash(rm))
    return {"n": n, "nt": st["nontrivial"], "vs": _cap(vs), "raised_on_empty": 0, "pre": 0, "outcomes": len(st["outcomes"]), "sample": sample}


def shard_intervals_unary(args):
    w, bounded = args
    pts = bounds_for(w, bounded)
    st = _new_stats()
    vs = []
    n = 0
    ks = list(range(1, (1 << w) + 2)) if w <= 5 else sorted(set(k for k in pts if k) | {(1 << w) + 1})
    for a in pts:
        for b in pts:
            if b < a:
                continue
            bits = iv_bits(a, b)
            n += 1
            vs += check_un(w, "neg", bits, None, st)
            for k in ks:
                n += 1
                vs += check_un(w, "mod", bits, k, st)
            for k in range(1, w + 3):
                n += 1
                vs += check_un(w, "size_update", bits, k, st)
            for name in SET_OPS:
                for c in pts[::3]:
                    for d in pts[::2]:
                        if d >= c:
                            n += 1
                            vs += check_set(w, name, bits, iv_bits(c, d), st)
            for kk in pts:
                for name, _, _ in BIN:
                    if name == "add-neg":
                        continue
                    n += 1
                    vs += check_bin(w, name, bits, 1 << kk, kk, st)
    return {"n": n, "nt": st["nontrivial"], "vs": _cap(vs), "raised_on_empty": st["raised_on_empty"], "pre": st["precondition_skipped"],
            "outcomes": len(st["outcomes"]), "sample": None}


def _cap(vs, per_sig=3):
    out = []
    cnt = {}
    for v in vs:
        c = cnt.get(v["sig"], 0)
        cnt[v["sig"]] = c + 1
        if c < per_sig:
            out.append(v)
    return out


# ------------------------------------------------------------------ (b) expression level

def handled_only(e):
    ok = [True]

    def walk(x):
        if x.is_op():
            if x.op not in HANDLED or (x.op == "-" and len(x.args) != 1):
                ok[0] = False
            for a in x.args:
                walk(a)
        elif x.is_slice():
            walk(x.arg)
        elif x.is_compose():
            for a in x.args:
                walk(a)
        elif x.is_cond():
            walk(x.cond); walk(x.src1); walk(x.src2)
        elif x.is_mem():
            walk(x.ptr)
    walk(e)
    return ok[0]


def expr_skeleton(e):
    """node kind / operator and the classes (int / id / node) of its direct children"""
    def cl(x):
        return "int" if x.is_int() else ("id" if x.is_id() else "node")
    if e.is_op():
        return "%s(%s)" % (e.op, ",".join(cl(a) for a in e.args))
    if e.is_slice():
        return "slice(%s)" % cl(e.arg)
    if e.is_compose():
        return "compose(%s)" % ",".join(cl(a) for a in e.args)
    if e.is_cond():
        return "cond(%s,%s,%s)" % (cl(e.cond), cl(e.src1), cl(e.src2))
    if e.is_mem():
        return "mem"
    return cl(e)


def sub_exprs(e):
    if e.is_op() or e.is_compose():
        return list(e.args)
    if e.is_slice():
        return [e.arg]
    if e.is_cond():
        return [e.cond, e.src1, e.src2]
    if e.is_mem():
        return [e.ptr]
    return []


def divisor_always_zero(e, ids, vals):
    """True iff e contains a '%' whose divisor is 0 under every valuation (the expression has no defined modulo)."""
    found = []

    def walk(x):
        if x.is_op():
            if x.op == "%":
                found.append(x.args[1])
            for a in x.args:
                walk(a)
        elif x.is_slice():
            walk(x.arg)
        elif x.is_compose():
            for a in x.args:
                walk(a)
        elif x.is_cond():
            walk(x.cond); walk(x.src1); walk(x.src2)
        elif x.is_mem():
            walk(x.ptr)
    walk(e)
    for d in found:
        try:
            fn = refsem.compile_expr(d, ids)
        except refsem.Unsupported:
            continue
        allzero = True
        for v in vals:
            try:
                if fn(v, refsem.pattern_mem) != 0:
                    allzero = False
                    break
            except refsem.Undefined:
                continue
        if allzero:
            return True
    return False


def _vals_for(e):
    ids = refsem.free_ids(e)
    vals = list(itertools.product(*[range(1 << i.size) if i.size <= 4 else refsem.boundary(i.size) for i in ids]))
    return ids, vals


def _judge_range(e, R, case, stats=None, tag="expr_range"):
    """the over-approximation property for one expression and one answer R of the analysis"""
    ids, vals = _vals_for(e)
    w = e.size
    if R.size != w:
        return [violation("%s:result-size:%s" % (tag, expr_skeleton(e)), "expr_range(%s) has size %r, expression has %d" % (e, R.size, w), case)]
    fn = refsem.compile_expr(e, ids)
    ivs = list(R.intervals)
    if stats is not None:
        stats["evals"] += len(vals)
        if ivs != [(0, (1 << w) - 1)]:
            stats["nontrivial"] += 1
    seen = set()
    for v in vals:
        try:
            c = fn(v, refsem.pattern_mem)
        except refsem.Undefined:
            if stats is not None:
                stats["undefined_vals"] += 1
            continue
        if c in seen:
            continue
        seen.add(c)
        if not any(lo <= c <= hi for lo, hi in ivs):
            env = ", ".join("%s=%d" % (i.name, x) for i, x in zip(ids, v))
            return [violation("%s:misses-value:%s" % (tag, expr_skeleton(e)),
                              "expr_range(%s) = %s but the expression evaluates to %d for %s" % (e, R, c, env or "(no identifiers)"), case)]
    return []


def _judge_expr(e, stats=None):
    from miasm.analysis.expression_range import expr_range
    case = {"k": "expr", "spec": to_spec(e)}
    try:
        R = expr_range(e)
    except Exception as ex:
        ids, vals = _vals_for(e)
        if divisor_always_zero(e, ids, vals):
            # x % 0 has no value: the analysis yields the empty set for it and the enclosing handlers reject empty operands
            if stats is not None:
                stats["undefined_modulo"] += 1
            return []
        return [violation("expr_range:raise:%s:%s" % (type(ex).__name__, expr_skeleton(e)), "expr_range(%s) raised %r" % (e, ex), case)]
    try:
        return _judge_range(e, R, case, stats)
    except Exception as ex:   # an answer that is not even a well-formed ModularIntervals
        return [violation("expr_range:malformed-answer:%s:%s" % (type(ex).__name__, expr_skeleton(e)), "expr_range(%s) = %r: %r" % (e, R, ex), case)]


# ------------------------------------------------------------------ histories of queries

FRESH_MODULES = ["miasm.core.interval", "miasm.analysis.modularintervals", "miasm.analysis.expression_range"]
_code = {}


def fresh_state():
    """Fresh module state for the analysis: the three modules it is made of (interval, modularintervals, expression_range)
    are re-created from their source (new module objects executed from the once-compiled code, installed in sys.modules
    and in their parent packages), so every module global and class attribute - memo tables, caches, defaults - is new.
    Expression nodes cannot carry state (__slots__, immutable).  Much cheaper than a fork per history (about 0.5 ms);
    a recorded case is in any case confirmed by the runner in a really fresh process."""
    import importlib
    import importlib.util
    import sys
    for name in FRESH_MODULES:
        if name not in _code:
            importlib.import_module(name)
            spec = sys.modules[name].__spec__
            _code[name] = (compile(spec.loader.get_source(name), spec.origin, "exec"), spec)
        code, spec = _code[name]
        mod = importlib.util.module_from_spec(spec)
        sys.modules[name] = mod
        exec(code, mod.__dict__)
        parent, _, child = name.rpartition(".")
        setattr(sys.modules[parent], child, mod)


def _snap(R):
    return ("ok", R.size, tuple(R.intervals))


def _ask(e):
    """(answer object or None, snapshot)"""
    from miasm.analysis.expression_range import expr_range
    try:
        R = expr_range(e)
        return R, _snap(R)
    except Exception as ex:
        return None, ("raise", type(ex).__name__, str(ex)[:80])


_alone = {}


def alone_answer(e):
    if e not in _alone:
        fresh_state()
        _alone[e] = _ask(e)[1]
    return _alone[e]


def kind_of(e):
    if e.is_op():
        op = e.op
        return "zeroExt" if op.startswith("zeroExt_") else ("signExt" if op.startswith("signExt_") else "op")
    for k in ("int", "id", "mem", "slice", "compose", "cond"):
        if getattr(e, "is_" + k)():
            return k
    return type(e).__name__


def check_history(specs, stats=None):
    """specs: list of expression specs asked in this order from a fresh state.  Judged: the LAST answer
    (same as when asked alone; over-approximation) and that earlier answers are not changed by later queries."""
    exprs = [build(s) for s in specs]
    case = {"k": "hist", "queries": list(specs)}
    last = exprs[-1]
    want = alone_answer(last)
    fresh_state()
    got = [_ask(e) for e in exprs]
    after = "|after:" + ",".join(sorted(set(kind_of(e) for e in exprs[:-1])))
    hist_txt = "; then ".join("expr_range(%s)" % e for e in exprs)
    vs = []
    R, snap = got[-1]
    if snap != want:
        if snap[0] == "raise":
            kind = "raise:%s" % snap[1]
        elif want[0] == "ok" and snap[1] != want[1]:
            kind = "result-size"
        else:
            kind = "answer-differs-from-fresh-state"
        vs.append(violation("expr_range[history]:%s:%s%s" % (kind, kind_of(last), after),
                            "%s: the last answer is %r, asked alone in a fresh state it is %r" % (hist_txt, snap[1:], want[1:]), case))
    if R is not None and not vs:
        try:
            vs += _judge_range(last, R, case, stats, tag="expr_range[history]")
            for v in vs:
                v["sig"] = ":".join(v["sig"].split(":")[:2]) + ":" + kind_of(last) + after
        except Exception as ex:
            vs.append(violation("expr_range[history]:malformed-answer:%s%s" % (kind_of(last), after), "%s: %r" % (hist_txt, ex), case))
    for i, (Ri, si) in enumerate(got[:-1]):
        if Ri is None:
            continue
        try:
            now = _snap(Ri)
        except Exception as ex:
            now = ("broken", repr(ex))
        if now != si:
            vs.append(violation("expr_range[history]:earlier-answer-changed-by-later-query:%s|then:%s" % (
                kind_of(exprs[i]), ",".join(sorted(set(kind_of(e) for e in exprs[i + 1:])))),
                "%s: the answer to query %d was %r and became %r" % (hist_txt, i + 1, si[1:], now[1:]), case))
    if stats is not None:
        stats["outcomes"].add(snap)
    return vs


def _S(e):
    return to_spec(e)


def history_menu():
    """representative queries: every node kind / operator, compose / zeroExt / slice with identifier and memory leaves"""
    E = exprgen._E()
    x2, y2, x3, y3 = E.ExprId("x2", 2), E.ExprId("y2", 2), E.ExprId("x3", 3), E.ExprId("y3", 3)
    c1, p8 = E.ExprId("c1", 1), E.ExprId("p8", 8)
    m8 = E.ExprMem(p8, 8)
    one3 = E.ExprInt(1, 3)
    menu = [x2, x3, c1, m8, E.ExprInt(5, 3), E.ExprOp("-", x2), E.ExprOp("-", x3), E.ExprOp("-", m8), E.ExprOp("-", c1)]
    for op in ("+", "&", "|", "^", "*", "<<", ">>", "a>>", ">>>", "<<<"):
        menu.append(E.ExprOp(op, x3, one3))
        menu.append(E.ExprOp(op, x2, y2))
    for op in ("+", ">>", "<<<"):
        menu.append(E.ExprOp(op, m8, E.ExprInt(1, 8)))
    menu.append(E.ExprOp("%", x3, E.ExprInt(3, 3)))
    menu.append(E.ExprOp("+", x3, y3, one3))
    menu += [x3[0:2], x3[1:3], m8[0:3], m8[5:8], E.ExprOp("+", x3, one3)[1:3]]
    widen = [E.ExprCompose(x2, y2), E.ExprCompose(x2, c1), E.ExprCompose(c1, x2), E.ExprCompose(x3, m8), E.ExprCompose(m8, x3),
             E.ExprCompose(x2, E.ExprInt(1, 1)), E.ExprCompose(x3[0:1], y2), E.ExprCompose(c1, c1, c1),
             x2.zeroExtend(3), x2.zeroExtend(4), x3.zeroExtend(8), m8.zeroExtend(16), c1.zeroExtend(2), c1.zeroExtend(3), x2.signExtend(3)]
    menu += widen
    menu += [E.ExprCond(c1, x2, y2), E.ExprCond(c1, x3, one3), E.ExprCond(x3, m8, E.ExprOp("+", m8, E.ExprInt(1, 8))),
             E.ExprOp("==", x3, y3), E.ExprOp("parity", m8)]
    sensitive = [E.ExprOp("-", x2), E.ExprOp("-", x3), E.ExprOp("-", c1), E.ExprOp("-", m8), E.ExprOp("+", x3, one3), E.ExprOp("<<", x2, y2),
                 E.ExprOp(">>>", x3, one3), E.ExprOp("a>>", x2, y2), x3[1:3], E.ExprCond(c1, x2, y2)]
    return menu, widen, sensitive


def history_plan(thorough):
    """ordered pairs of the whole menu (including a query repeated), triples widen x widen x width-sensitive"""
    menu, widen, sensitive = history_menu()
    out = []
    for a in menu:
        for b in menu:
            out.append((a, b))
    for a in widen:
        for b in (widen if thorough else widen[::2]):
            for c in sensitive:
                out.append((a, b, c))
    if thorough:
        for a in sensitive:
            for b in widen:
                for c in sensitive:
                    out.append((a, b, c))
    return out


def shard_histories(args):
    thorough, idx, nsh = args
    plan_ = history_plan(thorough)
    st = {"evals": 0, "nontrivial": 0, "undefined_vals": 0, "undefined_modulo": 0, "outcomes": set()}
    vs = []
    n = 0
    for i in range(idx, len(plan_), nsh):
        n += 1
        vs += check_history([_S(e) for e in plan_[i]], st)
    fresh_state()
    h = plan_[idx] if idx < len(plan_) else None
    return {"n": n, "nt": st["nontrivial"], "vs": _cap(vs), "raised_on_empty": 0, "pre": 0, "outcomes": len(st["outcomes"]),
            "sample": {"history": [str(e) for e in plan_[len(plan_) // 2]]} if idx == 0 else None,
            "evals": st["evals"], "undefined_vals": st["undefined_vals"], "undefined_modulo": 0}


def shrink_history(earlier, e):
    """Smallest (greedy) sub-list H of the shard's earlier queries such that fresh state + H + e still violates."""
    def fails(H):
        fresh_state()
        for q in H:
            _ask(q)
        return bool(_judge_expr(e))
    reps = []
    seen = set()
    for q in earlier:
        key = (expr_skeleton(q), q.size)
        if key not in seen:
            seen.add(key)
            reps.append(q)
    if fails(reps):
        H = reps
    elif fails(earlier):
        H = list(earlier)
    else:
        return None
    chunk = max(1, len(H) // 2)
    while True:
        i = 0
        while i < len(H):
            cand = H[:i] + H[i + chunk:]
            if fails(cand):
                H = cand
            else:
                i += chunk
        if chunk == 1:
            break
        chunk = max(1, chunk // 2)
    return H


def check_expr(e, stats=None):
    """Judge e; a violation is attributed to the smallest sub-expression that violates on its own."""
    vs = _judge_expr(e, stats)
    if not vs:
        return vs
    cur = e
    while True:
        for c in sub_exprs(cur):
            if _judge_expr(c):
                cur = c
                break
        else:
            break
    if cur is not e:
        vs[0]["sig"] = _judge_expr(cur)[0]["sig"]
        vs[0]["what"] += "  [smallest failing sub-expression: %s]" % cur
    return vs


class RGen(exprgen.Gen):
    """exprgen lattice restricted to the node kinds expr_range has a transfer function for."""

    def specs(self, w):
        key = ("rspecs", w)
        if key not in self._memo:
            keep = []
            for sp in exprgen.Gen.specs(self, w):
                tag = sp[0]
                if tag in HANDLED or tag == "neg" or tag.startswith("slice") or tag.startswith("compose") or tag.startswith("cond"):
                    if tag == "-":
                        continue  # binary minus is not an IR operator expr_range knows
                    keep.append(sp)
            self._memo[key] = keep
        return self._memo[key]


EXPR_WIDTHS = [1, 2, 3]
SPINE_K = 24
_gens = {}


def gen_for(thorough):
    if thorough not in _gens:
        if thorough:
            _gens[thorough] = RGen(EXPR_WIDTHS, nids=2, rich_consts=True)
        else:
            _gens[thorough] = RGen(EXPR_WIDTHS, nids=2, rich_consts=True, sib_consts=lambda w: [0, 1, (1 << w) - 1])
    return _gens[thorough]


def mem_family():
    """memory reads (full-range leaves) under slices / compositions / operators"""
    E = exprgen._E()
    out = []
    p = E.ExprId("p8", 8)
    m = E.ExprMem(p, 8)
    for st, sp in ((0, 3), (5, 8), (2, 4), (0, 1)):
        s = E.ExprSlice(m, st, sp)
        out.append(s)
        for c in range(1 << (sp - st)):
            k = E.ExprInt(c, sp - st)
            for op in ("+", "&", "|", "^", "*", "<<", ">>", "a>>", ">>>", "<<<"):
                out.append(E.ExprOp(op, s, k))
                out.append(E.ExprOp(op, k, s))
        out.append(E.ExprOp("-", s))
    out.append(E.ExprCompose(E.ExprSlice(m, 0, 1), E.ExprSlice(E.ExprMem(E.ExprOp("+", p, E.ExprInt(1, 8)), 8), 6, 8)))
    out.append(E.ExprCond(m, E.ExprInt(1, 3), E.ExprInt(6, 3)))
    return out


def expr_part(thorough, part):
    """part = ("d1", w) | ("spine", w, k) | ("mem",): iterator over the expressions of one part of the lattice."""
    g = gen_for(thorough)
    if part[0] == "d1":
        return itertools.chain(g.leaves(part[1]), g.depth1(part[1]))
    if part[0] == "spine":
        w, k = part[1], part[2]
        specs = g.specs(w)
        if not thorough and k < len(specs) and specs[k][0].startswith("cond") and k + SPINE_K >= len(specs):
            return quick_conds(g, w, specs[k])
        return g.depth2_spine(w, deep_pool=(g.depth1 if thorough else g.depth1_core), k=k, K=SPINE_K)
    return iter(mem_family())


def quick_conds(g, w, spec):
    """quick tier: conditionals with one depth-1 child; the condition sibling is an identifier, arm siblings are
    sib_leaves (the range of a conditional does not depend on its condition)"""
    tag, cws, mk, _ = spec
    for pos in range(3):
        for d in g.depth1_core(cws[pos]):
            sibs = []
            for i, cw in enumerate(cws):
                if i == pos:
                    continue
                sibs.append(g.ids(cw)[:1] if i == 0 else (g.sib_leaves(cw) if pos == 0 else g.sib_leaves(cw)[1:4]))
            for sc in itertools.product(*sibs):
                ch = list(sc)
                ch.insert(pos, d)
                yield mk(ch)


MAX_HISTORY_REPORTS = 3


def shard_exprs(args):
    thorough, part = args
    part = tuple(part)
    st = {"evals": 0, "nontrivial": 0, "undefined_vals": 0, "undefined_modulo": 0}
    vs = []
    n = 0
    sample = None
    seen = set()
    fresh_state()            # the shard is a history of its own: start it from a fresh module state
    earlier = []
    hist_reports = hist_dependent = 0
    j, J = (part[3], part[4]) if len(part) > 3 else (0, 1)
    for i, e in enumerate(expr_part(thorough, part)):
        if i % J != j:
            continue
        if e in seen:
            continue
        seen.add(e)
        if not handled_only(e):
            continue
        n += 1
        nt0 = st["nontrivial"]
        r = _judge_expr(e, st)
        if r:
            # does it violate on its own (fresh state)?  then it is an ordinary case, attributed to its smallest failing part
            fresh_state()
            ra = check_expr(e)
            if ra:
                vs += ra
            else:
                hist_dependent += 1
                if hist_reports < MAX_HISTORY_REPORTS:
                    hist_reports += 1
                    H = shrink_history(earlier, e)
                    rh = check_history([to_spec(q) for q in H] + [to_spec(e)]) if H is not None else []
                    vs += rh if rh else r      # (r alone would be flagged by the runner as not reproducing)
            fresh_state()
            earlier = []
        else:
            earlier.append(e)
        if sample is None and st["nontrivial"] > nt0 and part[0] == "spine" and n > 50:
            sample = {"expr": str(e)}
    fresh_state()
    return {"n": n, "nt": st["nontrivial"], "vs": _cap(vs), "raised_on_empty": 0, "pre": 0, "outcomes": 0, "sample": sample,
            "evals": st["evals"], "undefined_vals": st["undefined_vals"], "undefined_modulo": st["undefined_modulo"],
            "history_dependent": hist_dependent}


def _dispatch(args):
    kind = args[0]
    if kind == "subsets":
        return shard_subsets(args[1:])
    if kind == "intervals":
        return shard_intervals(args[1:])
    if kind == "unary":
        return shard_intervals_unary(args[1:])
    if kind == "hist":
        return shard_histories(args[1:])
    return shard_exprs(args[1:])


def plan(thorough):
    """Shards. Few large shards in the quick tier (the pool overhead dominates there), fine ones in thorough."""
    shards = []
    step = 4 if thorough else 16
    for lo in range(0, 256, step):
        shards.append(("subsets", 3, lo, lo + step, not thorough))
    specs = [(4, False), (5, False if thorough else "q5")] + ([(8, True)] if thorough else [])
    for w, bounded in specs:
        npts = len(bounds_for(w, bounded))
        chunk = npts if not thorough else (2 if w >= 5 else 4)
        for name, _, _ in BIN:
            for lo in range(0, npts, chunk):
                shards.append(("intervals", w, bounded, name, lo, lo + chunk))
        shards.append(("unary", w, bounded))
    g = gen_for(thorough)
    for w in EXPR_WIDTHS:
        shards.append(("exprs", thorough, ("d1", w)))
        nspecs = len(g.specs(w))
        for k in range(min(SPINE_K, nspecs)):
            J = 1
            if thorough and g.specs(w)[k][0].startswith(("cond", "compose3")):
                J = 8 if w == 3 else 4
            for j in range(J):
                shards.append(("exprs", thorough, ("spine", w, k, j, J)))
    shards.append(("exprs", thorough, ("mem",)))
    nh = 16 if thorough else 4
    for i in range(nh):
        shards.append(("hist", thorough, i, nh))
    return shards, specs


def run(ctx):
    thorough = not ctx.quick
    import miasm.analysis.expression_range  # noqa: before the pool forks
    g = gen_for(thorough)
    for w in EXPR_WIDTHS:      # memoised pools are built once, before the pool forks
        g.depth1(w)
        g.depth1_core(w)
    shards, specs = plan(thorough)
    res, how = amap(ctx, _dispatch, shards)
    allv = []
    for r in res:
        allv += r["vs"]
    allv.sort(key=lambda v: (v["sig"], len(repr(v["case"])), repr(v["case"])))
    ctx.add_violations(allv)
    by_kind = {}
    for sh, r in zip(shards, res):
        key = sh[0] if sh[0] in ("subsets", "exprs", "hist") else "%s-w%d" % (sh[0], sh[1])
        by_kind[key] = by_kind.get(key, 0) + r["n"]
    return {
        "evaluations": sum(r["n"] for r in res),
        "distinct_nontrivial": sum(r["nt"] for r in res),
        "samples": [r["sample"] for r in res if r["sample"]][:6],
        "exhaustive": True,
        "execution": how,
        "bounds": {"subset_width": 3, "subset_pairs": "all 65536" if thorough else "A: all 256 subsets, B: empty or one interval (37)",
                   "interval_widths": [{"width": w, "bounds": ("Q5=%r" % Q5) if b == "q5" else ("refsem.boundary" if b else "all")} for w, b in specs],
                   "binary_ops": [n for n, _, _ in BIN], "set_ops": SET_OPS, "unary": ["neg", "mod k", "size_update"],
                   "expr_widths": EXPR_WIDTHS, "expr_depth": 2,
                   "expressions": sum(r["n"] for sh, r in zip(shards, res) if sh[0] == "exprs")},
        "evaluations_by_part": by_kind,
        "expression_valuations": sum(r.get("evals", 0) for r in res),
        "undefined_valuations_skipped": sum(r.get("undefined_vals", 0) for r in res),
        "expressions_with_constant_zero_divisor_skipped": sum(r.get("undefined_modulo", 0) for r in res),
        "query_histories": sum(r["n"] for sh, r in zip(shards, res) if sh[0] == "hist"),
        "history_dependent_violations_in_bulk": sum(r.get("history_dependent", 0) for r in res),
        "raised_on_empty_operand": sum(r["raised_on_empty"] for r in res),
        "size_update_precondition_skipped": sum(r["pre"] for r in res),
        "distinct_outcomes": sum(r["outcomes"] for r in res),
    }


def replay(case):
    k = case["k"]
    if k == "bin":
        return check_bin(case["w"], case["op"], case["a"], case["b"], case.get("int"))
    if k == "set":
        return check_set(case["w"], case["op"], case["a"], case["b"])
    if k == "un":
        return check_un(case["w"], case["op"], case["a"], case.get("arg"))
    if k == "expr":
        return check_expr(build(tup(case["spec"])))
    if k == "hist":
        return check_history([tup(q) for q in case["queries"]])
    return []
