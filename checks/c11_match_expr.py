"""C11 - expression pattern matching only reports genuine matches.

Engine E2: ALL (subject, pattern) pairs of two explicitly enumerated finite sets of expression trees.

Grammar (subjects and patterns): + (2-3 args), unary -, &, Slice, Compose (2-3 parts), Cond, Mem, ==, over typed
leaves of widths 1, 4, 8, 16.  Subject leaves are concrete identifiers / integers; pattern leaves are the jokers
j1, j2 (one pair per width; a joker may occur several times in a pattern) or concrete leaves.
Depth <= 2: every node kind over leaves (depth 1); at depth 2 every node kind with one child taken from the depth-1
pool and the other children taken from the leaves plus a small core of depth-1 trees (one per node kind).

Per pair, on the real match_expr:
  (a) result=None:   if the answer is not False, substituting the returned bindings for the jokers in the pattern
      must give the subject up to the order of the arguments of commutative operators (judged on specs by an
      independent substitution + sort, and again with pattern.replace_expr(bindings).canonize() against
      subject.canonize()); every joker of the pattern is bound, only jokers are bound.
  (b) result pre-seeded with {j1: a}: same oracle on success, plus the seeded joker keeps its value (a joker is bound
      to a single expression); on failure the caller's dictionary must be left as it was passed in.
MatchExpr (the deprecated alias) is checked to agree with match_expr on a sub-lattice.
"""
import itertools
import warnings

from mc.exprspec import build, children, show, to_spec, tup
from mc.adaptive import amap
from mc.runner import violation

PROP = "C11"
LEVEL = "exploration"
ENGINE = "enum"
RULE = ("all (subject, pattern) pairs of two enumerated tree sets (depth <= 2 over + (2-3), unary -, &, Slice, Compose (2-3), Cond, "
        "Mem, == ; patterns with jokers j1/j2, possibly repeated); each pair is matched with a fresh and with a pre-seeded result; "
        "distinct = (subject, pattern); non-trivial = the two roots have the same node kind or the pattern root is a joker "
        "(the matcher has to look inside)")
LEVEL_TEXT = ("Bounded-exhaustive: the complete cross product of an enumerated subject set and an enumerated pattern set through the real "
              "match_expr; every reported match is validated by an independent substitution of the bindings into the pattern "
              "(compared modulo the order of commutative arguments) and by replace_expr + canonize.")
LEVEL_NOTE = ("Trusted: the spec-level substitution/sort in this file. Not covered: depth > 2, ExprLoc/ExprAssign nodes, completeness of the "
              "matcher (a missed match is not a violation of this property).")
TECHNIQUE = "complete cross product of subject and pattern tree lattices against an independent substitute-and-compare oracle"
ASSUMPTIONS = ["commutative operators are + * ^ & | only (fixed in the oracle, not asked from ExprOp.is_commutative); for every other "
               "operator, FLAG_* / CC_* included, the substituted pattern must be identical to the subject",
               "a failed match must leave a caller-provided result dictionary unchanged (output context of a match that did not happen)"]

COMM = {"+", "*", "^", "&", "|"}
JOKER_NAMES = ("j1", "j2")


def is_joker(s):
    return s[0] == "id" and s[1] in JOKER_NAMES


def J(n, w):
    return ("id", "j%d" % n, w)


# ------------------------------------------------------------------ lattices

def leafsets(pattern, level):
    """Typed leaves: width -> list of specs. level: "full" > "red" > "mini"."""
    if not pattern:
        # subjects also mention the joker identifiers themselves (a joker facing its own identifier must still be
        # recorded and checked against its other occurrences)
        if level == "mini":
            return {8: [("id", "a", 8)], 4: [("id", "m", 4)], 16: [("id", "p", 16)], 1: [("id", "c", 1)]}
        if level == "red":
            return {8: [("id", "a", 8), J(1, 8)], 4: [("id", "m", 4)], 16: [("id", "p", 16)], 1: [("id", "c", 1)]}
        return {8: [("id", "a", 8), ("id", "b", 8), ("int", 0, 8), J(1, 8)], 4: [("id", "m", 4), ("id", "n", 4)],
                16: [("id", "p", 16), ("id", "q", 16)], 1: [("id", "c", 1), ("int", 1, 1)]}
    if level == "mini":
        return {8: [J(1, 8), ("id", "a", 8)], 4: [J(1, 4), ("id", "m", 4)], 16: [J(1, 16), ("id", "p", 16)], 1: [J(1, 1), ("id", "c", 1)]}
    if level == "red":
        return {8: [J(1, 8), J(2, 8), ("id", "a", 8)], 4: [J(1, 4), ("id", "m", 4)], 16: [J(1, 16), ("id", "p", 16)],
                1: [J(1, 1), ("id", "c", 1)]}
    return {8: [J(1, 8), J(2, 8), ("id", "a", 8), ("int", 0, 8)], 4: [J(1, 4), J(2, 4), ("id", "m", 4)],
            16: [J(1, 16), J(2, 16), ("id", "p", 16)], 1: [J(1, 1), J(2, 1), ("id", "c", 1)]}


# node kinds: (tag, result width, child widths, builder on child specs)
KINDS = [
    ("+2", 8, (8, 8), lambda c: ("op", "+") + c),
    ("+3", 8, (8, 8, 8), lambda c: ("op", "+") + c),
    ("neg", 8, (8,), lambda c: ("op", "-") + c),
    ("&", 8, (8, 8), lambda c: ("op", "&") + c),
    ("slice8lo", 8, (16,), lambda c: ("slice", c[0], 0, 8)),
    ("slice8hi", 8, (16,), lambda c: ("slice", c[0], 8, 16)),
    ("compose44", 8, (4, 4), lambda c: ("compose",) + c),
    ("cond1", 8, (1, 8, 8), lambda c: ("cond",) + c),
    ("cond8", 8, (8, 8, 8), lambda c: ("cond",) + c),
    ("mem8", 8, (8,), lambda c: ("mem", c[0], 8)),
    ("mem16p", 8, (16,), lambda c: ("mem", c[0], 8)),
    ("==8", 1, (8, 8), lambda c: ("op", "==") + c),
    ("==4", 1, (4, 4), lambda c: ("op", "==") + c),
    ("slice1", 1, (8,), lambda c: ("slice", c[0], 0, 1)),
    ("compose88", 16, (8, 8), lambda c: ("compose",) + c),
    ("compose844", 16, (8, 4, 4), lambda c: ("compose",) + c),
    ("compose448", 16, (4, 4, 8), lambda c: ("compose",) + c),
    ("mem16", 16, (8,), lambda c: ("mem", c[0], 16)),
    ("+2w16", 16, (16, 16), lambda c: ("op", "+") + c),
    ("slice4lo", 4, (8,), lambda c: ("slice", c[0], 0, 4)),
    ("slice4hi", 4, (8,), lambda c: ("slice", c[0], 4, 8)),
    ("&4", 4, (4, 4), lambda c: ("op", "&") + c),
]
# operators the matcher must NOT treat as commutative, whatever their names suggest: 2- and 3-operand flag / condition
# operators and a custom operator.  Depth 1 over the full leaves in both tiers; also roots of depth 2 (one depth-1 child) in thorough.
KINDS_NC = [
    ("FLAG_EQ_CMP", 1, (8, 8), lambda c: ("op", "FLAG_EQ_CMP") + c),
    ("FLAG_EQ_AND", 1, (8, 8), lambda c: ("op", "FLAG_EQ_AND") + c),
    ("FLAG_SUB_CF", 1, (8, 8), lambda c: ("op", "FLAG_SUB_CF") + c),
    ("FLAG_EQ_SUBWC", 1, (8, 8, 1), lambda c: ("op", "FLAG_EQ_SUBWC") + c),
    ("FLAG_EQ_ADDWC", 1, (8, 8, 1), lambda c: ("op", "FLAG_EQ_ADDWC") + c),
    ("FLAG_SUBWC_CF", 1, (8, 8, 1), lambda c: ("op", "FLAG_SUBWC_CF") + c),
    ("CC_U<=", 1, (1, 1), lambda c: ("op", "CC_U<=") + c),
    ("myop", 8, (8, 8), lambda c: ("op", "myop") + c),
]
WIDTHS = (8, 1, 16, 4)


def depth1(leaves, kinds=None):
    """width -> every node kind over leaves."""
    out = {w: [] for w in WIDTHS}
    for tag, w, cws, mk in (kinds or KINDS):
        for ch in itertools.product(*[leaves[cw] for cw in cws]):
            out[w].append(mk(tuple(ch)))
    return out


def core1(leaves):
    """One depth-1 tree per node kind (first leaves), used as non-leaf sibling at depth 2."""
    out = {w: [] for w in WIDTHS}
    for tag, w, cws, mk in KINDS:
        ch = tuple(leaves[cw][i % len(leaves[cw])] for i, cw in enumerate(cws))
        out[w].append(mk(ch))
    return out


def lattice(pattern, thorough):
    """Ordered, duplicate-free list of specs (simplest first).
    depth 0/1: every node kind over the full leaves.
    depth 2 quick:    one child from depth1(mini leaves), siblings from the reduced leaves (patterns: mini leaves for 3-ary nodes)
    depth 2 thorough: one child from depth1(reduced leaves), siblings from the reduced leaves, plus (subjects, 2-ary nodes)
                      one depth-1 tree per node kind"""
    full = leafsets(pattern, "full")
    red = leafsets(pattern, "red")
    mini = leafsets(pattern, "mini")
    d1_full = depth1(full, KINDS + KINDS_NC)
    d1_deep = depth1(red if thorough else mini)
    d1_mini = depth1(mini)
    sib_core = core1(red)
    out = []
    seen = set()

    def add(s):
        if s not in seen:
            seen.add(s)
            out.append(s)

    for w in WIDTHS:
        for s in full[w]:
            add(s)
    for w in WIDTHS:
        for s in d1_full[w]:
            add(s)
    for tag, w, cws, mk in (KINDS + KINDS_NC if thorough else KINDS):
        for pos in range(len(cws)):
            sibs = []
            for i, cw in enumerate(cws):
                if i == pos:
                    continue
                if thorough:
                    pool = list(red[cw]) + (sib_core[cw] if len(cws) == 2 and not pattern else [])
                else:
                    pool = list(red[cw]) if (len(cws) <= 2 or not pattern) else list(mini[cw])
                sibs.append(pool)
            nc = (tag, w, cws, mk) in KINDS_NC
            if nc:      # thorough only: one depth-1 child over the mini leaves, mini siblings
                sibs = [list(mini[cw]) for i, cw in enumerate(cws) if i != pos]
            for d in (d1_mini if nc else d1_deep)[cws[pos]]:
                for sc in itertools.product(*sibs):
                    ch = list(sc)
                    ch.insert(pos, d)
                    add(mk(tuple(ch)))
    return out


_cache = {}


def get_lattice(pattern, thorough):
    key = (pattern, thorough)
    if key not in _cache:
        _cache[key] = lattice(pattern, thorough)
    return _cache[key]


def all_jokers():
    return [J(n, w) for w in WIDTHS for n in (1, 2)]


# ------------------------------------------------------------------ oracle

def subst(p, bind):
    """Substitute joker specs by bound specs (independent of replace_expr)."""
    if p in bind:
        return bind[p]
    k = p[0]
    if k in ("int", "id", "loc"):
        return p
    if k == "mem":
        return ("mem", subst(p[1], bind), p[2])
    if k == "slice":
        return ("slice", subst(p[1], bind), p[2], p[3])
    if k == "op":
        return ("op", p[1]) + tuple(subst(a, bind) for a in p[2:])
    return (k,) + tuple(subst(a, bind) for a in p[1:])


def nsort(s):
    """Normal form modulo the order of the arguments of commutative operators."""
    k = s[0]
    if k in ("int", "id", "loc"):
        return s
    if k == "mem":
        return ("mem", nsort(s[1]), s[2])
    if k == "slice":
        return ("slice", nsort(s[1]), s[2], s[3])
    if k == "op":
        args = [nsort(a) for a in s[2:]]
        if s[1] in COMM:
            args.sort(key=repr)
        return ("op", s[1]) + tuple(args)
    return (k,) + tuple(nsort(a) for a in s[1:])


KIND_NAME = {"int": "ExprInt", "id": "ExprId", "loc": "ExprLoc", "mem": "ExprMem", "slice": "ExprSlice", "op": "ExprOp",
             "compose": "ExprCompose", "cond": "ExprCond", "assign": "ExprAssign"}


def diff_reason(p, s):
    """Skeleton of the first difference between the substituted pattern p and the subject s (both nsort-ed)."""
    if p == s:
        return None
    if is_joker(p):
        return "joker-left-unbound"
    if p[0] != s[0]:
        return "different-node-kinds"
    k = p[0]
    if k in ("int", "id", "loc"):
        return "%s:leaf-differs" % KIND_NAME[k]
    if k == "mem" and p[2] != s[2]:
        return "ExprMem:size-differs"
    if k == "slice" and p[2:] != s[2:]:
        return "ExprSlice:bounds-differ"
    if k == "op":
        if p[1] != s[1]:
            return "ExprOp:operator-differs"
        if len(p) != len(s):
            return "ExprOp(%s):number-of-arguments-differs" % p[1]
        if p[1] not in COMM and sorted(p[2:], key=repr) == sorted(s[2:], key=repr):
            return "ExprOp(%s):arguments-permuted-for-a-non-commutative-operator" % p[1]
    if k == "compose" and len(p) != len(s):
        return "ExprCompose:pattern-has-%s-parts-than-subject" % ("fewer" if len(p) < len(s) else "more")
    for a, b in zip(children(p), children(s)):
        r = diff_reason(a, b)
        if r:
            return r
    return "differs"


def _match(subj, pat, tks, seed):
    from miasm.expression.expression import match_expr
    if seed is None:
        return match_expr(subj, pat, tks), None
    res = dict(seed)
    return match_expr(subj, pat, tks, res), res


def judge(ss, ps, subj, pat, tks, seed, ret, res, mode):
    """Validate a non-False answer. seed/res: dict Expr->Expr or None."""
    vs = []
    case = {"k": "pair", "s": ss, "p": ps, "mode": mode}
    if ret is True:
        bind_e = dict(res) if res is not None else {}
    elif isinstance(ret, dict):
        bind_e = dict(ret)
    else:
        return [violation("match_expr:returns-%s" % type(ret).__name__, "match_expr(%s, %s) returned %r" % (show(ss), show(ps), ret), case)]
    tkset = set(tks)
    bind = {}
    for j, v in bind_e.items():
        if j not in tkset:
            vs.append(violation("match_expr:binds-a-non-joker", "match_expr(%s, %s) binds %r" % (show(ss), show(ps), j), case))
            continue
        bind[to_spec(j)] = to_spec(v)
    if seed:
        for j, v in seed.items():
            if bind_e.get(j) is not v:
                vs.append(violation("match_expr[pre-seeded]:joker-rebound-to-a-second-expression",
                                    "match_expr(%s, %s, result={%s: %s}) succeeds with %s bound to %r" % (
                                        show(ss), show(ps), j, v, j, bind_e.get(j)), case))
    got = nsort(subst(ps, bind))
    want = nsort(ss)
    if got != want:
        vs.append(violation("match_expr:reports-non-match:%s" % diff_reason(got, want),
                            "match_expr(%s, %s%s) = {%s} but the pattern under these bindings is %s" % (
                                show(ss), show(ps), "" if not seed else ", result=seeded",
                                ", ".join("%s: %s" % (show(a), show(b)) for a, b in sorted(bind.items(), key=repr)), show(subst(ps, bind))), case))
    # the same through miasm's own replace_expr + canonize
    try:
        rep = pat.replace_expr(bind_e)
        same = rep.canonize() == subj.canonize()
    except Exception as ex:
        same = None
        if got == want:
            vs.append(violation("match_expr:bindings-not-substitutable:%s" % type(ex).__name__,
                                "pattern %s with bindings of match against %s: replace_expr/canonize raised %r" % (show(ps), show(ss), ex), case))
    if same is False and got == want:
        # the two judgements disagree: canonize also flattens nested associative operators, which a structural
        # matcher never needs; report (harness-level) so that the oracle is looked at
        vs.append(violation("oracle-disagreement:spec-vs-canonize", "subject %s pattern %s: spec judgement %r, canonize judgement %r" % (
            show(ss), show(ps), got == want, same), case))
    return vs


def pollution_site(ss, ps):
    """Descend through Mem/Slice wrappers: the node kind at which the pattern starts to bind before failing."""
    while ps[0] in ("mem", "slice") and ss[0] == ps[0]:
        ss, ps = ss[1], ps[1]
    if ps[0] == "op":
        return "ExprOp(%s)" % ps[1]
    return KIND_NAME[ps[0]]


def check_pair(ss, ps, subj=None, pat=None, tks=None, seeds=None, stats=None):
    if subj is None:
        subj, pat = build(ss), build(ps)
        tks = [build(j) for j in all_jokers()]
        seeds = make_seeds()
    vs = []
    # (a) fresh result
    try:
        ret, _ = _match(subj, pat, tks, None)
    except Exception as ex:
        return [violation("match_expr:raise:%s" % type(ex).__name__, "match_expr(%s, %s) raised %r" % (show(ss), show(ps), ex),
                          {"k": "pair", "s": ss, "p": ps, "mode": "fresh"})]
    if ret is not False:
        if stats is not None:
            stats["matches"] += 1
            stats["binding_sizes"].add(len(ret) if isinstance(ret, dict) else -1)
        vs += judge(ss, ps, subj, pat, tks, None, ret, None, "fresh")
    # (b) pre-seeded results
    for si, seed in enumerate(seeds):
        try:
            ret2, res = _match(subj, pat, tks, seed)
        except Exception as ex:
            vs.append(violation("match_expr[pre-seeded]:raise:%s" % type(ex).__name__, "match_expr(%s, %s, seeded) raised %r" % (show(ss), show(ps), ex),
                                {"k": "pair", "s": ss, "p": ps, "mode": "seed%d" % si}))
            continue
        if ret2 is False:
            if res != seed or any(res[k] is not seed[k] for k in seed):
                if stats is not None:
                    stats["polluted"] += 1
                extra = dict((k, v) for k, v in res.items() if k not in seed or seed[k] is not v)
                vs.append(violation("match_expr[pre-seeded]:failed-match-changes-result:%s" % pollution_site(ss, ps),
                                    "match_expr(%s, %s, result) returned False but left %s in the caller's result" % (
                                        show(ss), show(ps), ", ".join("%s: %s" % (k, v) for k, v in sorted(extra.items(), key=repr))),
                                    {"k": "pair", "s": ss, "p": ps, "mode": "seed%d" % si}))
        else:
            if stats is not None:
                stats["seeded_matches"] += 1
            vs += judge(ss, ps, subj, pat, tks, seed, ret2, res, "seed%d" % si)
    return vs


def make_seeds():
    from miasm.expression.expression import ExprId
    return [{ExprId("j1", 8): ExprId("a", 8)}]


def _shard(args):
    thorough, idx, nsh = args
    subjects = get_lattice(False, thorough)
    patterns = get_lattice(True, thorough)
    S = [build(s) for s in subjects]
    tks = [build(j) for j in all_jokers()]
    seeds = make_seeds()
    skind = [s[0] + (s[1] if s[0] == "op" else "") for s in subjects]
    stats = {"matches": 0, "seeded_matches": 0, "polluted": 0, "binding_sizes": set()}
    n = nt = 0
    vs = []
    per_sig = {}
    sample = None
    for pi in range(idx, len(patterns), nsh):
        ps = patterns[pi]
        pat = build(ps)
        pk = ps[0] + (ps[1] if ps[0] == "op" else "")
        pj = is_joker(ps)
        for si, ss in enumerate(subjects):
            n += 1
            if pj or skind[si] == pk:
                nt += 1
            m0 = stats["matches"]
            r = check_pair(ss, ps, S[si], pat, tks, seeds, stats)
            if sample is None and stats["matches"] > m0 and len(children(ps)) > 1 and not r:
                sample = {"subject": show(ss), "pattern": show(ps)}
            for v in r:
                c = per_sig.get(v["sig"], 0)
                per_sig[v["sig"]] = c + 1
                if c < 3:
                    vs.append(v)
    return {"n": n, "nt": nt, "vs": vs, "sample": sample, "matches": stats["matches"], "seeded_matches": stats["seeded_matches"],
            "polluted": stats["polluted"], "binding_sizes": sorted(stats["binding_sizes"]), "per_sig": per_sig}


def check_alias(thorough):
    """MatchExpr (deprecated alias) answers like match_expr on leaves + depth 1."""
    from miasm.expression.expression import MatchExpr, match_expr
    vs = []
    subjects = [s for s in get_lattice(False, False) if len(children(s)) <= 2][:120]
    patterns = [p for p in get_lattice(True, False) if len(children(p)) <= 2][:160]
    tks = [build(j) for j in all_jokers()]
    n = 0
    with warnings.catch_warnings():
        warnings.simplefilter("ignore")
        for ss in subjects:
            for ps in patterns:
                n += 1
                a = match_expr(build(ss), build(ps), tks)
                b = MatchExpr(build(ss), build(ps), tks)
                if a != b:
                    vs.append(violation("MatchExpr:disagrees-with-match_expr", "MatchExpr(%s, %s) = %r, match_expr = %r" % (show(ss), show(ps), b, a),
                                        {"k": "alias", "s": ss, "p": ps}))
    return vs[:5], n


def run(ctx):
    thorough = not ctx.quick
    import miasm.expression.expression  # noqa: before the pool forks
    subjects = get_lattice(False, thorough)
    patterns = get_lattice(True, thorough)
    nsh = 96
    res, how = amap(ctx, _shard, [(thorough, i, nsh) for i in range(nsh)])
    per_sig = {}
    allv = []
    for r in res:
        allv += r["vs"]
        for k, v in r["per_sig"].items():
            per_sig[k] = per_sig.get(k, 0) + v
    # smallest witness first within a signature (the runner prints the first case of each signature)
    allv.sort(key=lambda v: (v["sig"], len(repr(v["case"])), repr(v["case"])))
    ctx.add_violations(allv)
    avs, an = check_alias(thorough)
    ctx.add_violations(avs)
    sizes = set()
    for r in res:
        sizes.update(r["binding_sizes"])
    return {
        "evaluations": sum(r["n"] for r in res),
        "distinct_nontrivial": sum(r["nt"] for r in res),
        "samples": [r["sample"] for r in res if r["sample"]][:5],
        "exhaustive": True,
        "execution": how,
        "bounds": {"subjects": len(subjects), "patterns": len(patterns), "max_depth": 2, "widths": list(WIDTHS),
                   "jokers": "j1, j2 per width", "seeds": ["{j1:8 -> a:8}"], "node_kinds": [k[0] for k in KINDS], "non_commutative_operators": [k[0] for k in KINDS_NC]},
        "match_calls": sum(r["n"] for r in res) * 2,
        "matches_fresh": sum(r["matches"] for r in res),
        "matches_seeded": sum(r["seeded_matches"] for r in res),
        "failed_matches_that_changed_result": sum(r["polluted"] for r in res),
        "distinct_outcomes": len(sizes) + 1,
        "binding_sizes_seen": sorted(sizes),
        "alias_pairs": an,
        "cases_per_signature": per_sig,
    }


def replay(case):
    if case["k"] == "pair":
        vs = check_pair(tup(case["s"]), tup(case["p"]))
        return vs
    if case["k"] == "alias":
        from miasm.expression.expression import MatchExpr, match_expr
        tks = [build(j) for j in all_jokers()]
        ss, ps = tup(case["s"]), tup(case["p"])
        with warnings.catch_warnings():
            warnings.simplefilter("ignore")
            a = match_expr(build(ss), build(ps), tks)
            b = MatchExpr(build(ss), build(ps), tks)
        if a != b:
            return [violation("MatchExpr:disagrees-with-match_expr", "MatchExpr(%s, %s) = %r, match_expr = %r" % (show(ss), show(ps), b, a), case)]
    return []
