"""C12 - symbolic execution is a sound abstraction of concrete execution.

Engine E2, symbolic-vs-concrete differential.  Two program families:

 (i)  irgen programs: straight-line and branching block sequences over the fake 32-bit architecture
      (<= 3 blocks, <= 2 AssignBlocks per block, one-block programs of <= 3 (thorough 4) over a small copy alphabet; registers, parallel swap, memory through the two symbolic
      bases `sp` and `a`, 8-bit partial store, read-modify-write of a cell by a non byte-aligned shift / bit field, word-wise memory copy read back misaligned, a pointer register copied then advanced / swapped and memory read through both
      registers inside one AssignBlock; a self loop / every 2-block loop shape executed for a bounded number of blocks);
 (ii) the IR of every instruction of the curated vectors (test/arch/<arch>/arch.py, harvested with ast by mc/insngen)
      plus a few supplementary x86 read-modify-write forms (EXTRA_VECTORS: shifts of a memory operand by an immediate),
      lifted one instruction at a time with Machine(target).lifter at offset 0x1000.

For a program and a concrete initial state the reference interpreter runs first (mc/irinterp for family (i); the same
parallel-assignment rule with a pointer-size-wide address wrap, built on irinterp's expression evaluator, for family
(ii) whose pointers are 16/32/64 bits).  It yields the path of blocks.  The real SymbolicExecutionEngine then executes
the same path *once* from the default state (every register is its own symbol, memory symbolic) with run_block_at, and

  * the destination expression returned after each block,
  * every register the engine holds or the concrete run assigned,
  * every byte of memory the engine holds or the concrete run wrote

is evaluated by mc/refsem with the concrete initial registers and initial memory substituted, and compared with the
concrete run.  States in which two memory accesses of the symbolic run that are built on *different* symbolic bases
overlap concretely violate the documented non-aliasing assumption: they are skipped and counted.

Initial states: registers over {0, 1, 2^(w-1)-1, 2^(w-1), 2^w-1}; identifiers that occur in a pointer take
{j*2^16, j*2^16+1, 2^(w-1)+j*2^16, 2^w-2-(j-1)*2^16, j} (j-th pointer identifier: bases 2^16 apart, a misaligned one,
one with the sign bit, one at the top of the address space so that accesses wrap, one tiny so that negative offsets wrap);
all combinations for <= 3 live identifiers, a pairwise covering array (orthogonal array OA(25,6,5,2), one block per
base-6 digit of the identifier index) beyond.  Initial memory: byte alphabet {00, 01, 7F, 80, FF} by address, two variants.
"""
import itertools

from mc import irgen, irinterp, refsem
from mc.runner import violation

PROP = "C12"
LEVEL = "exploration"
ENGINE = "enum"
RULE = ("complete product: (i) irgen CFG shapes x bodies x conditions per the recorded plan, (ii) every curated instruction "
        "vector of every target; each program x every initial state of the lattice (all combinations for <= 3 live "
        "identifiers, pairwise covering beyond); distinct = distinct (program, path); non-trivial = the symbolic run modified "
        "at least one register or memory cell and at least one state passed the non-aliasing test")
LEVEL_TEXT = ("Bounded-exhaustive enumeration of small IR programs and of the lifted IR of the curated instruction vectors; the "
              "real symbolic engine runs each program path once, its resulting expressions are evaluated by an independent "
              "reference semantics under every state of a boundary-value lattice and compared with a reference interpreter.")
LEVEL_NOTE = ("Trusted: mc/refsem, mc/irinterp (and the 30-line pointer-width-generic block stepper here). Instructions whose IR "
              "uses operators without reference meaning (floating point, segmentation, cpuid, call_*, ...) or is ill-formed are "
              "skipped and counted. Memory is little-endian in both runs (miasm's symbolic store has no big-endian mode). "
              "miasm/jitter/emulatedsymbexec.py (the Python jitter's subclass bound to a C VmMngr) is not exercised.")
TECHNIQUE = "bounded-exhaustive symbolic-vs-concrete differential over IR programs and lifted instructions"
ASSUMPTIONS = ["memory addresses built on different symbolic bases do not alias (states violating it are skipped, counted)",
               "division/modulo by zero has no defined value (such states are skipped, counted)"]

# ------------------------------------------------------------------------------------------------ plans

ALPHA_FULL = ["a=b", "b=a", "a=a+1", "a=0", "b=1", "c=a+b", "swap", "a=b,c=a", "r=a", "zf=a==b",
              "a=@[sp+4]", "b=@[sp+4]", "b=@[sp+8]", "@[sp+4]=a", "@[sp+4]=b", "@[sp+8]=1", "@[a]=b", "b=@[a]",
              "@8[sp+5]=a", "sp=sp-4", "sp=sp+4", "a=a<<1", "a=-a",
              # read-modify-write whose stored bytes are non byte-aligned slices of the cell itself (shift, bit field)
              "@[sp+4]=@[sp+4]>>4", "@[sp+4]=@[sp+4]<<4", "@8[sp+5]=@[sp+4][12:20]", "@[a]=@[a]>>1"]
ALPHA_14 = ["a=b", "a=a+1", "swap", "a=b,c=a", "zf=a==b", "a=@[sp+4]", "@[sp+4]=a", "@[sp+8]=1", "@[a]=b", "b=@[a]",
            "@8[sp+5]=a", "sp=sp-4", "@[sp+4]=@[sp+4]>>4", "@8[sp+5]=@[sp+4][12:20]"]
ALPHA_9 = ["a=a+1", "swap", "zf=a==b", "a=@[sp+4]", "@[sp+4]=b", "@[a]=b", "@8[sp+5]=a", "sp=sp-4", "@[sp+4]=@[sp+4]>>4"]
ALPHA_5 = ["swap", "@[sp+4]=a", "b=@[a]", "sp=sp-4", "a=a+1"]
ALPHA_5R = ["swap", "@[sp+4]=a", "b=@[a]", "sp=sp-4", "@[sp+4]=@[sp+4]>>4"]
ALPHA_4 = ["swap", "@[sp+4]=a", "b=@[sp+4]", "sp=sp-4"]
# word-wise copy a -> sp, an untouched / overwritten neighbour, misaligned reads starting inside one copied word
# a pointer register copied (c=a) then advanced, or two pointer registers swapped, then memory read through both in one
# AssignBlock / one expression: the resolved form of one read is textually the unevaluated form of the other
ALPHA_PTR = ["c=a", "a=a+4", "swap", "r=@[a]+@[c]", "r=@[a],b=@[c]", "r=@[c]", "r=@[a]+@[b]", "r=@[b]-@[a]"]
ALPHA_COPY = ["@[sp+4]=@[a]", "@[sp+8]=@[a+4]", "@8[sp+5]=a", "b=@[sp+5]", "b=@[sp+6]", "r=@16[sp+7]"]
CONDS = ["zf", "@[sp+4]", "a==b"]

# (blocks, max AssignBlocks per block, alphabet, shapes: "dag" loop-free only / "all", conditions, fuel in blocks)
PLAN_IRGEN = {
    "quick": [(1, 2, ALPHA_FULL, "all", CONDS[:1], 2),
              (2, 1, ALPHA_14, "dag", CONDS[:1], 3),
              (2, 2, ALPHA_5, "dag", CONDS[:1], 3),
              (3, 1, ALPHA_5R, "dag", CONDS, 3),
              (1, 3, ALPHA_COPY, "dag", CONDS[:1], 1),
              (1, 3, ALPHA_PTR, "dag", CONDS[:1], 1),
              (2, 1, ALPHA_PTR, "dag", CONDS[:1], 2)],
    "thorough": [(1, 2, ALPHA_FULL, "all", CONDS[:1], 3),
                 (1, 3, ALPHA_9, "all", CONDS[:1], 2),
                 (2, 1, ALPHA_FULL, "dag", CONDS[:1], 3),
                 (2, 1, ALPHA_5, "all", CONDS[:2], 4),
                 (2, 2, ALPHA_9, "dag", CONDS[:1], 3),
                 (3, 1, ALPHA_9, "dag", CONDS, 3),
                 (3, 2, ALPHA_4, "dag", CONDS[:1], 3),
                 (1, 4, ALPHA_COPY, "dag", CONDS[:1], 1),
                 (3, 1, ALPHA_COPY, "dag", CONDS[:1], 3),
                 (1, 4, ALPHA_PTR, "dag", CONDS[:1], 1),
                 (3, 1, ALPHA_PTR, "dag", CONDS[:1], 3),
                 (2, 2, ALPHA_PTR, "dag", CONDS[:1], 2)],
}
PLAN_LIFTED = {
    "quick": ["x86_16", "x86_32", "x86_64", "arml", "armtl", "aarch64l", "mips32l", "ppc32b", "msp430", "mepl"],
    "thorough": None,       # every insngen.LIFT_TARGETS
}
# read-modify-write instructions on a memory operand with an immediate count (the stored bytes are non byte-aligned slices
# of the cell itself); the curated lists only have these with a register operand or a count of 1 / CL
EXTRA_VECTORS = {
    "x86_16": ["c12c04", "c12404", "c10c04"],                       # SHR / SHL / ROR WORD PTR [SI], 4
    "x86_32": ["c12e04", "c12604", "c13e04", "c10e04", "0fac0604", "0fa40604", "c02e03"],
    #          SHR / SHL / SAR / ROR DWORD PTR [ESI], 4; SHRD / SHLD DWORD PTR [ESI], EAX, 4; SHR BYTE PTR [ESI], 3
    "x86_64": ["c12e04", "48c12e04", "48c1260c", "480fac0604"],      # SHR DWORD/QWORD PTR [RSI], 4; SHL QWORD, 12; SHRD QWORD
}
LIFT_ADDR = 0x1000
LIFT_FUEL = 4
BYTES = (0x00, 0x01, 0x7F, 0x80, 0xFF)


def mask(w):
    return (1 << w) - 1


# ------------------------------------------------------------------------------------------------ states

def oa_rows(k):
    """Pairwise covering array for k factors of 5 levels: 25 rows per base-6 digit of the factor index."""
    if k == 0:
        return [()]
    base = [[(i, j, (i + j) % 5, (i + 2 * j) % 5, (i + 3 * j) % 5, (i + 4 * j) % 5)] for i in range(5) for j in range(5)]
    base = [r[0] for r in base]
    ndig = 1
    while 6 ** ndig < k:
        ndig += 1
    rows = []
    seen = set()
    for d in range(ndig):
        for r in base:
            row = tuple(r[(f // (6 ** d)) % 6] for f in range(k))
            if row not in seen:
                seen.add(row)
                rows.append(row)
    return rows


def levels(w, ptr_index, addr_bits):
    """The 5 values of an identifier of w bits; ptr_index >= 1 when it occurs in a pointer."""
    m = mask(w)
    if ptr_index and w >= 8:
        sp = 1 << 16 if min(w, addr_bits) >= 32 else 1 << max(min(w, addr_bits) - 3, 2)
        j = ptr_index
        vals = [j * sp, j * sp + 1, (1 << (w - 1)) + j * sp, (1 << w) - 2 - (j - 1) * sp, j]
    else:
        hi = 1 << (w - 1)
        vals = [0, 1, hi - 1, hi | ((1 << 31) if w > 32 else 0), m]
    return [v & m for v in vals]


def state_lattice(live, ptr_ids, addr_bits):
    """live: sorted list of identifiers.  -> list of dicts id -> value."""
    pidx = {}
    for x in live:
        if x in ptr_ids:
            pidx[x] = len(pidx) + 1
    lv = [levels(x.size, pidx.get(x, 0), addr_bits) for x in live]
    if len(live) <= 3:
        dist = []
        for vals in lv:
            d = []
            for v in vals:
                if v not in d:
                    d.append(v)
            dist.append(d)
        return [dict(zip(live, combo)) for combo in itertools.product(*dist)]
    out = []
    seen = set()
    for row in oa_rows(len(live)):
        vals = tuple(lv[f][row[f]] for f in range(len(live)))
        if vals not in seen:
            seen.add(vals)
            out.append(dict(zip(live, vals)))
    return out


def init_mem(variant):
    def f(a):
        return BYTES[(a * 3 + (a >> 3) + (a >> 16) + variant) % 5]
    return f


# ------------------------------------------------------------------------------------------------ IR helpers

def walk_ids(e, ids, ptr_ids, in_ptr=False):
    if e.is_id():
        ids.add(e)
        if in_ptr:
            ptr_ids.add(e)
    elif e.is_mem():
        walk_ids(e.ptr, ids, ptr_ids, True)
    elif e.is_slice():
        walk_ids(e.arg, ids, ptr_ids, in_ptr)
    elif e.is_cond():
        walk_ids(e.cond, ids, ptr_ids, in_ptr)
        walk_ids(e.src1, ids, ptr_ids, in_ptr)
        walk_ids(e.src2, ids, ptr_ids, in_ptr)
    elif e.is_op() or e.is_compose():
        for a in e.args:
            walk_ids(a, ids, ptr_ids, in_ptr)
    elif e.is_int() or e.is_loc():
        pass
    else:
        raise IllFormed(type(e).__name__)


class IllFormed(Exception):
    pass


def live_ids(ircfg, irdst):
    """(sorted identifiers read by the graph, those occurring inside a pointer); raises IllFormed."""
    ids, ptr_ids, written = set(), set(), set()
    for blk in ircfg.blocks.values():
        for ab in blk:
            for dst, src in ab.items():
                if dst.size != src.size:
                    raise IllFormed("size mismatch")
                walk_ids(src, ids, ptr_ids)
                if dst.is_mem():
                    walk_ids(dst.ptr, ids, ptr_ids, True)
                    if dst.size % 8:
                        raise IllFormed("memory width")
                elif not dst.is_id():
                    raise IllFormed("destination " + type(dst).__name__)
                if dst.is_id():
                    written.add(dst)
    ids.discard(irdst)
    written.discard(irdst)
    return sorted(ids, key=lambda x: (x.name, x.size)), ptr_ids, sorted(written - ids, key=lambda x: (x.name, x.size))


def split_ptr(p):
    """(symbolic base or None, integer offset) of an evaluated pointer: the engine's documented base/offset split."""
    if p.is_int():
        return None, int(p)
    if p.is_op("+") and p.args[-1].is_int():
        rest = p.args[:-1]
        import miasm.expression.expression as m
        return (rest[0] if len(rest) == 1 else m.ExprOp("+", *rest)), int(p.args[-1])
    return p, 0


# ------------------------------------------------------------------------------------------------ concrete side

class Conc(object):
    __slots__ = ("path", "dsts", "regs", "mem", "assigned", "skip")


def conc_generic(interp, ircfg, head, regs, imem, fuel, irdst):
    """irinterp's execution rule (AssignBlocks in order, parallel inside one) with addresses wrapping at the pointer width."""
    import miasm.expression.expression as m
    regs = dict(regs)
    mem = {}

    def memf(ps, a):
        b = mem.get(a)
        return imem(a) if b is None else b
    loc2key = {}
    for lk in ircfg.blocks:
        loc2key[interp.locval(m.ExprLoc(lk, irdst.size))] = lk
    res = Conc()
    res.path, res.dsts, res.assigned, res.skip = [], [], set(), None
    cur = head
    while len(res.path) < fuel:
        blk = ircfg.blocks.get(cur)
        if blk is None:
            break
        res.path.append(cur)
        nxt = None
        for ab in blk:
            newregs, newmem = [], []
            for dst, src in ab.items():
                val = interp.ev(src, regs, memf)
                if dst.is_mem():
                    newmem.append((interp.ev(dst.ptr, regs, memf), dst.ptr.size, dst.size, val))
                else:
                    newregs.append((dst, val))
            for dst, val in newregs:
                if dst == irdst:
                    nxt = val
                else:
                    regs[dst] = val
                    res.assigned.add(dst)
            touched = set()
            for addr, ps, size, val in newmem:
                for i in range(size // 8):
                    a = (addr + i) & mask(ps)
                    if a in touched:
                        res.skip = "overlapping-parallel-stores"
                    touched.add(a)
                    mem[a] = (val >> (8 * i)) & 0xFF
        res.dsts.append(nxt)
        if nxt is None:
            break
        cur = loc2key.get(nxt)
        if cur is None:
            break
    res.regs, res.mem = regs, mem
    return res


def conc_irinterp(interp, ircfg, head, regs, imem, fuel, irdst):
    """Family (i): the shared reference interpreter itself."""
    import miasm.expression.expression as m
    interp.default_mem = imem
    r = interp.run(ircfg, head, regs, None, fuel=fuel, irdst=irdst)
    res = Conc()
    res.skip = None
    if r.undefined:
        raise refsem.Undefined()
    res.path = list(r.path)
    by_name = dict((str(lk), lk) for lk in ircfg.blocks)
    res.dsts = [interp.locval(m.ExprLoc(lk, irdst.size)) for lk in res.path[1:]]
    if r.exit[0] == "value":
        res.dsts.append(r.exit[1])
    elif r.exit[0] == "fuel":
        res.dsts.append(interp.locval(m.ExprLoc(by_name[r.exit[1]], irdst.size)))
    else:
        res.dsts.append(None)
    res.regs, res.mem, res.assigned = r.regs, r.mem, set(r.assign_seq)
    return res


# ------------------------------------------------------------------------------------------------ symbolic side

_ENG = {}


def engine_class():
    if "cls" not in _ENG:
        from miasm.ir.symbexec import SymbolicExecutionEngine

        class Recorder(SymbolicExecutionEngine):
            """The real engine; its two documented memory hooks additionally log the accessed cells."""

            def mem_read(self, expr):
                self.accesses.append(expr)
                return super(Recorder, self).mem_read(expr)

            def mem_write(self, dst, src):
                self.accesses.append(dst)
                super(Recorder, self).mem_write(dst, src)
        _ENG["cls"] = Recorder
    return _ENG["cls"]


class Sym(object):
    __slots__ = ("dsts", "ids", "mem", "accesses", "error")


def sym_run(lifter, ircfg, path):
    eng = engine_class()(lifter)
    eng.accesses = []
    res = Sym()
    res.dsts, res.error = [], None
    try:
        for lk in path:
            res.dsts.append(eng.run_block_at(ircfg, lk))
        res.ids = dict(eng.symbols.symbols_id)
        res.mem = list(eng.symbols.memory())
    except Exception as e:
        res.error = e
        res.ids, res.mem = {}, []
    acc = []
    seen = set()
    for a in eng.accesses:
        if a not in seen:
            seen.add(a)
            acc.append(a)
    res.accesses = acc
    return res


# ------------------------------------------------------------------------------------------------ the comparison

def compare(ircfg, head, lifter, irdst, fuel, concrete, interp, desc, stats, addr_bits):
    """-> list of (kind, text).  stats: counters dict (updated)."""
    try:
        live, ptr_ids, written_only = live_ids(ircfg, irdst)
    except IllFormed as e:
        stats["skipped_illformed_ir"] = stats.get("skipped_illformed_ir", 0) + 1
        return []
    states = state_lattice(live, ptr_ids, addr_bits)
    for regs in states:
        # identifiers that are written but never read still have an initial value (a symbolic state that claims such an
        # identifier unchanged is then visibly wrong)
        for x in written_only:
            regs[x] = 0xA5A5A5A5A5A5A5A5A5A5A5A5A5A5A5A5 & mask(x.size)
    runs = {}
    order = []
    n_undef = 0
    for si, regs in enumerate(states):
        imem = init_mem(si & 1)
        try:
            c = concrete(interp, ircfg, head, regs, imem, fuel, irdst)
        except refsem.Undefined:
            n_undef += 1
            continue
        except refsem.Unsupported as e:
            k = "skipped_unsupported_operator"
            stats[k] = stats.get(k, 0) + 1
            op = str(e)[:40]
            stats.setdefault("unsupported_by_operator", {})
            stats["unsupported_by_operator"][op] = stats["unsupported_by_operator"].get(op, 0) + 1
            return []
        if c.skip:
            stats["states_skipped_" + c.skip] = stats.get("states_skipped_" + c.skip, 0) + 1
            continue
        key = tuple(c.path)
        if key not in runs:
            runs[key] = []
            order.append(key)
        runs[key].append((si, regs, imem, c))
    stats["states_undefined_division"] = stats.get("states_undefined_division", 0) + n_undef
    out = []
    kinds = set()
    compared = 0
    modified = False
    for key in order:
        s = sym_run(lifter, ircfg, key)
        stats["symbolic_runs"] = stats.get("symbolic_runs", 0) + 1
        if s.error is not None:
            kind = "symbolic-run-raises:%s" % type(s.error).__name__
            if kind not in kinds:
                kinds.add(kind)
                out.append((kind, "%s: symbolic execution of path %s raised %r" % (desc, [str(k) for k in key], s.error)))
            continue
        if s.ids or s.mem:
            modified = True
        accs = [(split_ptr(a.ptr), a.ptr.size, a.size // 8) for a in s.accesses]
        for si, regs, imem, c in runs[key]:
            memf = lambda ps, a, imem=imem: imem(a)
            try:
                # ---- the documented assumption: accesses on different symbolic bases do not overlap
                regions = {}
                alias = False
                for (base, off), ps, n in accs:
                    bv = 0 if base is None else interp.ev(base, regs, memf)
                    for i in range(n):
                        a = (bv + off + i) & mask(ps)
                        other = regions.get(a)
                        if other is None:
                            regions[a] = base
                        elif other != base:
                            alias = True
                            break
                    if alias:
                        break
                if alias:
                    stats["states_skipped_aliasing"] = stats.get("states_skipped_aliasing", 0) + 1
                    continue
                compared += 1
                # ---- destinations
                for bi, (de, dv) in enumerate(zip(s.dsts, c.dsts)):
                    if dv is None:
                        continue
                    got = interp.ev(de, regs, memf)
                    if got != dv and "dst" not in kinds:
                        kinds.add("dst")
                        out.append(("dst", "%s: after block %d the symbolic destination %s evaluates to %#x, concrete execution goes to %#x; %s" % (
                            desc, bi, de, got, dv, fmt_state(regs, si))))
                # ---- registers
                for x in sorted(set(s.ids) | c.assigned, key=lambda x: x.name):
                    if x == irdst:
                        continue
                    e = s.ids.get(x, x)
                    got = interp.ev(e, regs, memf)
                    if got != c.regs[x]:
                        kind = "reg:%s" % ("flag" if x.size == 1 else "w%d" % x.size)
                        if kind not in kinds:
                            kinds.add(kind)
                            out.append((kind, "%s: symbolic %s = %s evaluates to %#x, concrete execution gives %#x; %s" % (
                                desc, x, e, got, c.regs[x], fmt_state(regs, si))))
                # ---- memory
                symmap = {}
                for me, ve in s.mem:
                    addr = interp.ev(me.ptr, regs, memf)
                    val = interp.ev(ve, regs, memf)
                    for i in range(me.size // 8):
                        symmap[(addr + i) & mask(me.ptr.size)] = ((val >> (8 * i)) & 0xFF, me)
                for a in sorted(set(symmap) | set(c.mem)):
                    sb = symmap[a][0] if a in symmap else imem(a)
                    cb = c.mem.get(a)
                    cb = imem(a) if cb is None else cb
                    if sb != cb:
                        kind = "mem:%s" % ("stale-or-wrong" if a in symmap else "missing")
                        if kind not in kinds:
                            kinds.add(kind)
                            out.append((kind, "%s: byte %#x holds %#x after concrete execution, the symbolic state says %#x (%s); %s" % (
                                desc, a, cb, sb, "cell %s" % symmap[a][1] if a in symmap else "not in the symbolic memory, initial byte",
                                fmt_state(regs, si))))
                        break
            except refsem.Undefined:
                stats["states_undefined_division"] = stats.get("states_undefined_division", 0) + 1
            except refsem.Unsupported as e:
                stats["skipped_unsupported_in_symbolic_result"] = stats.get("skipped_unsupported_in_symbolic_result", 0) + 1
                return out
    stats["states_compared"] = stats.get("states_compared", 0) + compared
    stats["program_paths"] = stats.get("program_paths", 0) + len(order)
    if compared and modified:
        stats["nontrivial"] = stats.get("nontrivial", 0) + 1
    if not compared:
        stats["programs_without_comparable_state"] = stats.get("programs_without_comparable_state", 0) + 1
    return out


def fmt_state(regs, si):
    return "initial state {%s}, memory variant %d" % (", ".join("%s=%#x" % (k, v) for k, v in sorted(regs.items(), key=lambda kv: kv[0].name)), si & 1)


# ------------------------------------------------------------------------------------------------ family (i)

_interp = {}


def check_irgen(n, shape_idx, body_idx, cond_idx, alphabet, conds, fuel, stats):
    shape = irgen.shapes(n)[shape_idx]
    g = irgen.build(shape, body_idx, cond_idx, alphabet, conds, end_const=True)
    # block i is always the location "lbl<i>" = key i at offset 16*i in a fresh LocationDB: the compiled closures (which
    # embed location values) are valid for every program of the family and shared
    interp = _interp.get("irgen")
    if interp is None or len(interp.cache) > 30000:
        interp = _interp["irgen"] = irinterp.Interp(g.loc_db)
    interp.loc_db = g.loc_db
    desc = irgen.describe(shape, body_idx, cond_idx, alphabet, conds)
    case = {"kind": "irgen", "n": n, "shape": shape_idx, "bodies": body_idx, "conds": cond_idx, "alphabet": alphabet,
            "condnames": conds, "fuel": fuel}
    vs = []
    for kind, text in compare(g.ircfg, g.head, g.lifter, g.arch.IRDst, fuel, conc_irinterp, interp, desc, stats, 32):
        vs.append(violation("irgen:%s:%s" % (kind, " ; ".join(culprit(kind, [alphabet[k] for b in body_idx for k in b]))), text, case))
    return vs


_culprit = {}


def straight_line_kinds(entries):
    """Violation kinds of the one-block program made of `entries` (cached)."""
    key = tuple(entries)
    if key not in _culprit:
        g = irgen.build(irgen.shapes(1)[0], (tuple(range(len(entries))),), (0,), list(entries), CONDS[:1], end_const=True)
        interp = irinterp.Interp(g.loc_db)
        _culprit[key] = set(k for k, _ in compare(g.ircfg, g.head, g.lifter, g.arch.IRDst, 1, conc_irinterp, interp, "", {}, 32))
    return _culprit[key]


def culprit(kind, entries):
    """Signature skeleton of an irgen violation: the smallest sequence of the program's alphabet entries (one entry, one
    entry twice, else an ordered pair) that shows the same kind of difference as a straight-line program on its own; otherwise the
    sorted set of all entries of the program.  One defect then has one signature instead of one per enclosing program."""
    distinct = []
    for e in entries:
        if e not in distinct:
            distinct.append(e)
    for e in distinct:
        if kind in straight_line_kinds([e]):
            return [e]
    for e in distinct:                      # an entry executed twice (loops)
        if kind in straight_line_kinds([e, e]):
            return [e, e]
    for e1 in distinct:                     # ordered pairs, both orders (a loop runs the later entry before the earlier one)
        for e2 in distinct:
            if e1 != e2 and kind in straight_line_kinds([e1, e2]):
                return [e1, e2]
    return sorted(distinct)


def irgen_cases(entry):
    n, maxlen, alphabet, which, conds, fuel = entry
    bl = irgen.bodies(alphabet, maxlen)
    for si, shape in enumerate(irgen.shapes(n)):
        if which == "dag" and not irgen.shape_is_loop_free(shape):
            continue
        ncond = [len(conds) if len(s) == 2 else 1 for s in shape]
        for body_idx in itertools.product(bl, repeat=n):
            for cond_idx in itertools.product(*[range(k) for k in ncond]):
                yield si, body_idx, cond_idx


def _shard_irgen(args):
    tier, pi, lo, hi = args
    entry = PLAN_IRGEN[tier][pi]
    n, maxlen, alphabet, which, conds, fuel = entry
    stats = {}
    best = {}
    cnt = 0
    sample = None
    for idx, (si, body_idx, cond_idx) in enumerate(irgen_cases(entry)):
        if idx < lo:
            continue
        if idx >= hi:
            break
        cnt += 1
        for v in check_irgen(n, si, body_idx, cond_idx, alphabet, conds, fuel, stats):
            ent = best.setdefault(v["sig"], [0, v])
            ent[0] += 1
        if sample is None and sum(len(b) for b in body_idx) >= n:
            sample = irgen.describe(irgen.shapes(n)[si], body_idx, cond_idx, alphabet, conds)
    stats["programs"] = cnt
    return "irgen", stats, best, sample


# ------------------------------------------------------------------------------------------------ family (ii)

_lift = {}


def lift_env(name):
    if name not in _lift:
        import warnings
        warnings.filterwarnings("ignore", category=SyntaxWarning)
        warnings.filterwarnings("ignore", message="DEPRECATION WARNING")      # sem.py modules using deprecated accessors
        from mc import insngen as g
        t, mn = g.env(name)
        M = t.machine_obj()
        g.quiet()
        _lift[name] = (t, M.lifter or M.lifter_model_call)
    return _lift[name]


class _Quiet(object):
    """Some sem.py modules print 'Warning, instruction ... implemented as NOP' on stdout."""

    def __enter__(self):
        import sys
        import io
        self.old = sys.stdout
        sys.stdout = io.StringIO()

    def __exit__(self, *a):
        import sys
        sys.stdout = self.old


def check_lifted(name, b, stats):
    from mc import insngen as g
    from miasm.core.locationdb import LocationDB
    t, cls = lift_env(name)
    instr = g.decode(name, g.raw_of(name, "curated", b))
    if instr is None:
        stats["undecodable"] = stats.get("undecodable", 0) + 1
        return []
    loc_db = LocationDB()
    instr.offset = LIFT_ADDR
    try:
        with _Quiet():
            lifter = cls(loc_db)
            if instr.breakflow() and instr.dstflow():
                instr.dstflow2label(loc_db)
            ircfg = lifter.new_ircfg()
            lifter.add_instr_to_ircfg(instr, ircfg)
    except NotImplementedError:
        stats["lifter_unsupported"] = stats.get("lifter_unsupported", 0) + 1
        return []
    except Exception as e:
        stats["lifter_raised"] = stats.get("lifter_raised", 0) + 1
        return []
    head = loc_db.get_offset_location(LIFT_ADDR)
    if head is None or head not in ircfg.blocks:
        stats["no_block_at_instruction_address"] = stats.get("no_block_at_instruction_address", 0) + 1
        return []
    stats["lifted"] = stats.get("lifted", 0) + 1
    interp = irinterp.Interp(loc_db)
    mnemo = g.base_mnemonic(name, instr.name)
    desc = "%s %s [%s]" % (name, instr, bytes(instr.b).hex())
    case = {"kind": "lifted", "target": name, "bytes": b.hex()}
    vs = []
    for kind, text in compare(ircfg, head, lifter, lifter.IRDst, LIFT_FUEL, conc_generic, interp, desc, stats, lifter.addrsize):
        vs.append(violation("lifted:%s:%s:%s" % (name, mnemo, kind), text, case))
    return vs


def vectors(name):
    """The curated vectors of the target followed by this module's supplementary ones (those not already curated)."""
    from mc import insngen as g
    cur = list(g.curated(name))
    have = set(cur)
    return cur + [b for b in (bytes.fromhex(h) for h in EXTRA_VECTORS.get(name, [])) if b not in have]


def _shard_lifted(args):
    from mc import insngen as g
    name, part, nparts = args
    cur = vectors(name)
    idxs = list(range(len(cur)))[part::nparts]
    stats = {"vectors_of_target": len(cur) if part == 0 else 0}
    best = {}
    sample = None
    for b in [cur[i] for i in idxs]:
        before = stats.get("nontrivial", 0)
        for v in check_lifted(name, b, stats):
            ent = best.setdefault(v["sig"], [0, v])
            ent[0] += 1
        if sample is None and stats.get("nontrivial", 0) > before:
            sample = "%s %s" % (name, b.hex())
    stats["vectors"] = len(idxs)
    return "lifted:" + name, stats, best, sample


def _shard(args):
    if args[0] == "irgen":
        return _shard_irgen(args[1:])
    return _shard_lifted(args[1:])


# ------------------------------------------------------------------------------------------------ driver

def _merge(dst, src):
    for k, v in src.items():
        if isinstance(v, dict):
            _merge(dst.setdefault(k, {}), v)
        else:
            dst[k] = dst.get(k, 0) + v


def run(ctx):
    from mc import insngen as g
    tier = ctx.tier
    shards = []
    nshard_target = 24
    for pi, entry in enumerate(PLAN_IRGEN[tier]):
        total = sum(1 for _ in irgen_cases(entry))
        step = max(50, -(-total // nshard_target))
        for lo in range(0, total, step):
            shards.append(("irgen", tier, pi, lo, min(total, lo + step)))
    targets = PLAN_LIFTED[tier] or list(g.LIFT_TARGETS)
    # the parent process stays small (no miasm import before the pool forks): a shard is (target, part k of n)
    for name in targets:
        n = len(g.curated(name))
        nparts = max(1, n // (250 if tier == "quick" else 120))
        for k in range(nparts):
            shards.append(("lifted", name, k, nparts))
    if ctx.quick:
        # ~25 s of work: one warm process beats a pool of 16 cold ones (imports, fork) on a loaded machine
        res = [_shard(s) for s in shards]
    else:
        res = ctx.pmap(_shard, shards)
    fam = {}
    best = {}
    samples = []
    for family, stats, bst, sample in res:
        _merge(fam.setdefault(family, {}), stats)
        for sig, (n, v) in bst.items():
            if sig in best:
                best[sig][0] += n
            else:
                best[sig] = [n, v]
        if sample and sum(1 for f, _ in samples if f == family) < (4 if family == "irgen" else 1):
            samples.append((family, sample))
    for sig in sorted(best):
        n, v = best[sig]
        v = dict(v)
        v["what"] += "  [%d program(s) with this signature]" % n
        ctx.add_violations([v])
    tot = {}
    for f, st in fam.items():
        _merge(tot, dict((k, v) for k, v in st.items() if not isinstance(v, dict)))
    smp = [s for _, s in samples]
    cov = {
        "evaluations": tot.get("states_compared", 0),
        "programs": tot.get("programs", 0) + tot.get("lifted", 0),
        "irgen_programs": tot.get("programs", 0),
        "curated_vectors": tot.get("vectors", 0),
        "lifted_instructions": tot.get("lifted", 0),
        "distinct_nontrivial": tot.get("nontrivial", 0),
        "program_paths": tot.get("program_paths", 0),
        "symbolic_runs": tot.get("symbolic_runs", 0),
        "states_compared": tot.get("states_compared", 0),
        "states_skipped_aliasing": tot.get("states_skipped_aliasing", 0),
        "states_undefined_division": tot.get("states_undefined_division", 0),
        "instructions_skipped_unsupported_operator": tot.get("skipped_unsupported_operator", 0) + tot.get("skipped_unsupported_in_symbolic_result", 0),
        "instructions_skipped_illformed_ir": tot.get("skipped_illformed_ir", 0),
        "violating_programs": sum(n for n, _ in best.values()),
        "violation_signatures": len(best),
        "per_family": fam,
        "samples": smp[:16],
        "exhaustive": True,
        "bounds": {"irgen_plan(blocks,max_assignblocks,alphabet,shapes,conditions,fuel)": [list(e) for e in PLAN_IRGEN[tier]],
                   "lifted_targets": targets,
                   "lifted_vectors": "every curated vector of every listed target + supplementary_vectors",
                   "supplementary_vectors": EXTRA_VECTORS,
                   "vectors_selected_of_curated": dict((f[7:], [st.get("vectors", 0), st.get("vectors_of_target", 0)])
                                                       for f, st in fam.items() if f.startswith("lifted:")),
                   "lift_address": LIFT_ADDR, "lift_fuel_blocks": LIFT_FUEL,
                   "register_levels": "0,1,2^(w-1)-1,2^(w-1),2^w-1 / pointer identifiers: bases 2^16 apart (5 levels)",
                   "state_lattice": "all combinations for <= 3 live identifiers, pairwise covering array beyond",
                   "memory_byte_alphabet": list(BYTES), "memory_variants": 2},
    }
    return cov


def replay(case):
    stats = {}
    if case["kind"] == "irgen":
        return check_irgen(case["n"], case["shape"], tuple(tuple(b) for b in case["bodies"]), tuple(case["conds"]),
                           list(case["alphabet"]), list(case["condnames"]), case["fuel"], stats)
    return check_lifted(case["target"], bytes.fromhex(case["bytes"]), stats)
