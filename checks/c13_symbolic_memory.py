"""C13 - the symbolic engine's memory behaves as a little-endian byte store.

Engine E1 (explicit-state BFS over the real SymbolicExecutionEngine.symbols / SymbolMngr / MemSparse / MemArray).

A *system* is (address size, primary base pointer kind).  Address sizes 8 and 32; bases: integer pointer,
`A`, `A + B`.  Offsets are small signed integers taken modulo 2^addrsize, so -2 / -1 are the two last bytes of
the address space (0xFE/0xFF, 0xFFFFFFFE/0xFFFFFFFF) and every multi-byte access there straddles the wrap.

Events (all on the real object, mirrored on the model):
  ("w", base, off, valkey)   symbols.write(@w[base+off], value); value kinds:
        X/Y  a fresh identifier of the width            C  a constant with pairwise distinct bytes
        O    the original cell itself (write-back: the byte must read as the original cell again and leave the store)
        M,d  the original memory of the same base d bytes further (shifted copy, NOT a write-back)
        S,d  a slice of a wider memory read  @(w+16)[base+off+d-1][8:8+w]   (d = 0: write-back through a slice)
        K    {X8, @8[base+off+1]}: byte 0 new, byte 1 a write-back
        R,d  a slice of the store's *current* answer for a wider cell: symbols.read(@(w+16)[base+off+d-1])[8:8+w]
             (d = 0 copies the cell onto itself, d > 0 is an overlapping memmove)
        U,k  a NON byte-aligned slice of the current content of the destination cell itself: read(@(w+8)[base+off])[k:k+w]
        V,k  the same taken from a cell starting one byte lower: read(@(w+16)[base+off-1])[8+k:8+k+w]
             (read-modify-write such as `@32[p] = @32[p] >> 4` or a bit-field store: never a write-back)
        Z    the original memory of another base q at the same offset (copy q -> p; word-wise copies at contiguous
             destinations give stored memory values with contiguous sources, read back misaligned by the probe grid)
  ("del", base, off, w)      del symbols[@w[base+off]]   (KeyError expected iff some byte is not stored)
  ("delp", base, off, w)     symbols.symbols_mem.delete_partial(@w[base+off])
  ("rt",)                    engine.get_state() -> fresh engine .set_state(state)   (export / import)
  ("cp",)                    symbols.copy(), then the old object is scribbled on (aliasing test)

Reference model: dict (base, offset mod 2^addrsize) -> byte descriptor, one of
  ("id", name, byte index) / ("c", byte value) / ("o", base, offset): original memory byte /
  ("u", 8 bit sources): a byte assembled from bits of identifiers / constants / original memory bytes (unaligned slices);
  a byte that is bit for bit an original memory byte (identifier byte, constant) is normalised to that descriptor.
A byte that is not in the dict reads as the original cell ("o", base, offset).

Oracle after every event (invariant): for every (base, off, width) of the probe set
  * symbols.read(@w[base+off]) has size w and, evaluated by mc.refsem under 3 fixed valuations of all identifiers and a
    fixed original memory, equals the model's byte-wise little-endian concatenation;
  * `@w[base+off] in symbols` is true iff every (wrapped) byte of the region is in the model; contains_partial iff some is;
  * the state exported by get_state() and imported into a fresh engine, and the object returned by copy(), answer every
    stored byte, its two neighbours and two 64-bit reads like the model - in EVERY reached state, not only behind rt / cp events;
and in the export event: the exported memory items are pairwise disjoint and cover exactly the model's bytes.
"""
import hashlib

from mc import bfs
from mc.runner import violation

PROP = "C13"
LEVEL = "model_checking"
ENGINE = "bfs"
RULE = ("BFS over histories of writes (11 value kinds x widths 8..64 at the two last and two first offsets of the address space), "
        "full / partial deletions, state export->import into a fresh engine and copy(), on the real SymbolMngr for address sizes "
        "8 and 32 and bases integer / A / A+B; a state is distinct by (system, model byte dict, the store's own (offset, byte "
        "index, expression) table), i.e. the hidden grouping is part of the state")
LEVEL_TEXT = ("Explicit-state search of every event history up to the depth bound, from the empty store and from seeded stores "
              "(overlapping writes, a write straddling the wrap), on the real engine with a byte-dict reference model in lock "
              "step; in every reached state every read of a probe grid of (base, offset, width) is evaluated with the "
              "independent reference semantics under three valuations and compared with the model, and membership is compared.")
LEVEL_NOTE = ("Trusted: mc/refsem (evaluation of the returned expressions) and the 40-line byte model of this module. Pointers are "
              "given in the simplifier's canonical form (what the engine passes to the store); widths 8/16/32/64 only; values are "
              "expressions over the initial state (identifiers, constants, initial memory); big-endian is not implemented by miasm. "
              "Reads and membership tests do not modify the store, so the probe grid's verdict is computed once per distinct "
              "store content (model dict + the store's own table) in each process and reused for transitions reaching the same content.")
TECHNIQUE = "explicit-state BFS over operation histories on the real symbolic store against a byte-dict reference model"
ASSUMPTIONS = ["pointers reach the store in canonical form base + integer offset (the engine simplifies them first)",
               "different symbolic bases do not alias (documented assumption of the engine)"]

INT, SYM, SUM = 0, 1, 2
BASE_NAME = {INT: "int", SYM: "id", SUM: "sum"}
WIDTHS = (8, 16, 32, 64)
PROBE_OFFS = list(range(-5, 7))
PROBE_OFFS_2ND = (-1, 0)
NVAL = 3


class State(object):
    pass


# ----------------------------------------------------------------------------------------------- expressions

_E = {}


def _m():
    if "m" not in _E:
        import miasm.expression.expression as m
        _E["m"] = m
    return _E["m"]


def ptr(asz, base, off):
    m = _m()
    off &= (1 << asz) - 1
    if base == INT:
        return m.ExprInt(off, asz)
    a = m.ExprId("A", asz)
    if base == SYM:
        return a if off == 0 else m.ExprOp("+", a, m.ExprInt(off, asz))
    b = m.ExprId("B", asz)
    return m.ExprOp("+", a, b) if off == 0 else m.ExprOp("+", a, b, m.ExprInt(off, asz))


CONST = 0x8877665544332211


def value(asz, base, off, vk, st=None):
    """-> (expression, list of byte descriptors)"""
    m = _m()
    mask = (1 << asz) - 1
    kind, w = vk[0], vk[1]
    n = w // 8
    if kind in ("X", "Y"):
        name = "%s%d" % (kind, w)
        return m.ExprId(name, w), [("id", name, i) for i in range(n)]
    if kind == "C":
        c = CONST & ((1 << w) - 1)
        return m.ExprInt(c, w), [("c", (c >> (8 * i)) & 0xFF) for i in range(n)]
    if kind == "O":
        return m.ExprMem(ptr(asz, base, off), w), [("o", base, (off + i) & mask) for i in range(n)]
    if kind == "M":
        d = vk[2]
        return m.ExprMem(ptr(asz, base, off + d), w), [("o", base, (off + d + i) & mask) for i in range(n)]
    if kind == "S":
        d = vk[2]
        e = m.ExprMem(ptr(asz, base, off + d - 1), w + 16)[8:8 + w]
        return e, [("o", base, (off + d + i) & mask) for i in range(n)]
    if kind == "K":
        e = m.ExprCompose(m.ExprId("X8", 8), m.ExprMem(ptr(asz, base, off + 1), 8))
        return e, [("id", "X8", 0), ("o", base, (off + 1) & mask)]
    if kind == "R":
        # a slice of what the store currently returns for a wider cell d-1 bytes further (memmove-like copy of current content)
        d = vk[2]
        cur = st.engine.symbols.read(m.ExprMem(ptr(asz, base, off + d - 1), w + 16))
        descs = []
        for i in range(n):
            k = (base, (off + d + i) & mask)
            descs.append(st.model.get(k) or ("o", k[0], k[1]))
        return m.ExprSlice(cur, 8, 8 + w), descs
    if kind in ("U", "V"):
        # a NON byte-aligned slice of the store's current answer for a wider cell that covers the destination:
        #   U,k  symbols.read(@(w+8)[base+off])[k:k+w]          V,k  symbols.read(@(w+16)[base+off-1])[8+k:8+k+w]
        # byte i of the value is bits k..k+8 of the current bytes off+i, off+i+1: a read-modify-write (shift, bit field),
        # never a write-back although it is a slice of the very cell it is stored into
        k = vk[2]
        if kind == "U":
            cur = st.engine.symbols.read(m.ExprMem(ptr(asz, base, off), w + 8))
            e = m.ExprSlice(cur, k, k + w)
        else:
            cur = st.engine.symbols.read(m.ExprMem(ptr(asz, base, off - 1), w + 16))
            e = m.ExprSlice(cur, 8 + k, 8 + k + w)
        descs = []
        for i in range(n):
            lo = (base, (off + i) & mask)
            hi = (base, (off + i + 1) & mask)
            descs.append(bit_slice(st.model.get(lo) or ("o", lo[0], lo[1]), st.model.get(hi) or ("o", hi[0], hi[1]), k))
        return e, descs
    if kind == "Z":
        other = vk[2]
        return m.ExprMem(ptr(asz, other, off), w), [("o", other, (off + i) & mask) for i in range(n)]
    raise ValueError(vk)


def desc_bits(d):
    """The 8 bit sources of a byte descriptor: ("id", name, bit) / ("c", 0|1) / ("o", base, offset, bit)."""
    if d[0] == "id":
        return [("id", d[1], 8 * d[2] + b) for b in range(8)]
    if d[0] == "c":
        return [("c", (d[1] >> b) & 1) for b in range(8)]
    if d[0] == "o":
        return [("o", d[1], d[2], b) for b in range(8)]
    return list(d[1])


def bit_slice(lo, hi, k):
    """Descriptor of bits k..k+8 of the little-endian byte pair (lo, hi), in normal form: a byte that is bit for bit an
    identifier byte, a constant or an original memory byte is that descriptor again (shifting a copy back into place
    yields the original cell, and the store is right to drop it), anything else is ("u", tuple of 8 bit sources)."""
    bits = (desc_bits(lo) + desc_bits(hi))[k:k + 8]
    b0 = bits[0]
    if all(b[0] == "c" for b in bits):
        return ("c", sum(b[1] << j for j, b in enumerate(bits)))
    if b0[0] == "o" and b0[3] == 0 and all(b == ("o", b0[1], b0[2], j) for j, b in enumerate(bits)):
        return ("o", b0[1], b0[2])
    if b0[0] == "id" and b0[2] % 8 == 0 and all(b == ("id", b0[1], b0[2] + j) for j, b in enumerate(bits)):
        return ("id", b0[1], b0[2] // 8)
    return ("u", tuple(bits))


# ----------------------------------------------------------------------------------------------- valuations

ID_NAMES = ["A", "B"] + ["%s%d" % (k, w) for k in "XY" for w in WIDTHS]


def valuation(asz, vi):
    mask = (1 << asz) - 1
    a = [0x10, mask - 1, 0x7D][vi] & mask
    b = [0x00, 0x03, mask][vi] & mask
    out = {"A": a, "B": b}
    for k, seed in (("X", 0x80), ("Y", 0x40)):
        for j, w in enumerate(WIDTHS):
            v = 0
            for i in range(w // 8):
                v |= ((seed + 0x10 * j + i + 1 + 0x25 * vi) & 0xFF) << (8 * i)
            out["%s%d" % (k, w)] = v
    return out


def orig_mem(ps, addr):
    """The fixed original memory content: neighbouring addresses hold different bytes."""
    return (addr * 7 + (addr >> 8) * 13 + (addr >> 24) * 5 + 0x35) & 0xFF


def base_val(asz, base, val):
    mask = (1 << asz) - 1
    if base == INT:
        return 0
    if base == SYM:
        return val["A"]
    return (val["A"] + val["B"]) & mask


_fn_cache = {}
_val_cache = {}


def eval_expr(asz, e):
    """Values of e under the NVAL valuations (tuple), via mc.refsem."""
    from mc import refsem
    m = _m()
    key = (asz, e)
    fn = _fn_cache.get(key)
    if fn is None:
        sizes = {"A": asz, "B": asz}
        ids = [m.ExprId(n, sizes.get(n) or int(n[1:])) for n in ID_NAMES]
        fn = refsem.compile_expr(e, ids)
        _fn_cache[key] = fn
    vals = _val_cache.get(asz)
    if vals is None:
        vals = []
        for vi in range(NVAL):
            v = valuation(asz, vi)
            vals.append(tuple(v[n] for n in ID_NAMES))
        _val_cache[asz] = vals
    return tuple(fn(v, orig_mem) for v in vals)


def desc_val(asz, d, vi):
    if d[0] == "id":
        return (valuation_cached(asz, vi)[d[1]] >> (8 * d[2])) & 0xFF
    if d[0] == "c":
        return d[1]
    if d[0] == "u":
        v = 0
        for j, b in enumerate(d[1]):
            if b[0] == "c":
                bit = b[1]
            elif b[0] == "id":
                bit = (valuation_cached(asz, vi)[b[1]] >> b[2]) & 1
            else:
                mask = (1 << asz) - 1
                bit = (orig_mem(asz, (base_val(asz, b[1], valuation_cached(asz, vi)) + b[2]) & mask) >> b[3]) & 1
            v |= bit << j
        return v
    mask = (1 << asz) - 1
    return orig_mem(asz, (base_val(asz, d[1], valuation_cached(asz, vi)) + d[2]) & mask)


_vc = {}


def valuation_cached(asz, vi):
    k = (asz, vi)
    if k not in _vc:
        _vc[k] = valuation(asz, vi)
    return _vc[k]


# ----------------------------------------------------------------------------------------------- system

class _Lifter(object):
    """SymbolicExecutionEngine only needs the address size for its store."""

    def __init__(self, asz):
        self.addrsize = asz


def make(seed):
    from miasm.ir.symbexec import SymbolicExecutionEngine
    asz, primary, pre, limit, more = seed
    st = State()
    st.limit = limit
    st.more = more
    st.nev = 0
    st.asz = asz
    st.mask = (1 << asz) - 1
    st.primary = primary
    st.second = (primary + 1) % 3
    st.engine = SymbolicExecutionEngine(_Lifter(asz))
    st.model = {}
    st.last = None
    for ev in pre:
        apply(st, tuple(ev))
    st.nev = 0
    return st


# write menu on the primary base: (offset, value key); simplest first
WRITES = [
    (0, ("X", 8)), (-1, ("X", 16)), (0, ("X", 32)), (-2, ("X", 32)), (2, ("X", 32)), (-1, ("X", 64)),
    (-1, ("C", 16)), (0, ("C", 32)),
    (0, ("O", 8)), (-1, ("O", 16)),
    (-1, ("M", 16, 1)),
    (0, ("S", 8, 0)),
    (-1, ("K", 16)), (-1, ("R", 16, 1)),
    (0, ("U", 16, 4)),
]
WRITES_MORE = [
    (1, ("X", 16)), (0, ("M", 16, -1)), (-1, ("S", 16, 1)),
    (-2, ("C", 8)), (-2, ("O", 32)),
    (1, ("X", 8)), (-2, ("X", 64)), (-2, ("Y", 16)), (1, ("C", 16)), (-2, ("M", 32, 1)), (0, ("K", 16)), (-1, ("S", 16, 0)),
    (0, ("O", 64)), (1, ("X", 32)), (0, ("R", 16, 0)), (-1, ("R", 8, 2)),
    (-1, ("U", 32, 1)), (0, ("V", 8, 4)), (-1, ("V", 8, 4)), (-2, ("U", 8, 7)),
]
DELS = [(-1, 16), (0, 8), (-2, 32), (2, 16)]
DELS_MORE = [(1, 8), (-1, 8), (0, 16), (1, 16), (-2, 16), (3, 8), (2, 8)]
DELPS = [(-2, 32), (0, 16)]
DELPS_MORE = [(-1, 64)]


def events(st):
    """The menu of the state's seed; empty once the seed's own depth limit is reached."""
    if st.nev >= st.limit:
        return []
    p, s = st.primary, st.second
    more = st.more
    evs = []
    for off, vk in WRITES + (WRITES_MORE if more else []):
        evs.append(("w", p, off, vk))
    # copies from the other base q to p: word-wise at contiguous destinations (contiguous sources), so that a misaligned
    # read starts inside one stored memory value and straddles into the next
    evs.append(("w", p, -1, ("Z", 16, s)))
    evs.append(("w", p, 1, ("Z", 16, s)))
    evs.append(("w", s, -1, ("X", 16)))
    if more:
        evs.append(("w", s, 0, ("O", 8)))
        evs.append(("w", p, 1, ("M", 16, 1)))          # same-base shifted copy, contiguous with (-1, M16,+1)
        evs.append(("w", p, -2, ("Z", 32, s)))         # word-wise 32-bit copy q -> p: -2..1 and 2..5
        evs.append(("w", p, 2, ("Z", 32, s)))
        evs.append(("w", p, 0, ("Z", 8, s)))           # byte-wise copy
        evs.append(("w", p, 1, ("Z", 8, s)))
    for off, w in DELS + (DELS_MORE if more else []):
        evs.append(("del", p, off, w))
    for off, w in DELPS + (DELPS_MORE if more else []):
        evs.append(("delp", p, off, w))
    evs.append(("rt",))
    evs.append(("cp",))
    return evs


def _region(st, base, off, w):
    return [(base, (off + i) & st.mask) for i in range(w // 8)]


def _wraps(st, off, w):
    off &= st.mask
    return off + w // 8 - 1 > st.mask


def apply(st, ev):
    from miasm.ir.symbexec import SymbolicExecutionEngine
    m = _m()
    probs = []
    kind = ev[0]
    asz = st.asz
    sym = st.engine.symbols
    st.last = None
    st.nev += 1
    if kind == "w":
        _, base, off, vk = ev
        vk = tuple(vk)
        e, descs = value(asz, base, off, vk, st)
        dst = m.ExprMem(ptr(asz, base, off), vk[1])
        over = 0
        try:
            sym.write(dst, e)
        except Exception as exc:
            probs.append(("write:raise:%s:%s" % (type(exc).__name__, vk[0]), "write %s = %s raised %r" % (dst, e, exc)))
        for i, d in enumerate(descs):
            key = (base, (off + i) & st.mask)
            if key in st.model:
                over += 1
            if d == ("o", key[0], key[1]):
                st.model.pop(key, None)
            else:
                st.model[key] = d
        st.last = (vk[0], over, _wraps(st, off, vk[1]))
    elif kind in ("del", "delp"):
        _, base, off, w = ev
        reg = _region(st, base, off, w)
        present = [k for k in reg if k in st.model]
        target = m.ExprMem(ptr(asz, base, off), w)
        cls = "%s:%s" % ("wrap" if _wraps(st, off, w) else "nowrap",
                         "all" if len(present) == len(reg) else ("some" if present else "none"))
        raised = None
        try:
            if kind == "del":
                del sym[target]
            else:
                sym.symbols_mem.delete_partial(target)
        except KeyError as exc:
            raised = exc
        except Exception as exc:
            probs.append(("%s:raise:%s:%s" % (kind, type(exc).__name__, cls), "%s %s raised %r, stored bytes %s" % (kind, target, exc, _fmt_model(st))))
            raised = exc
        if kind == "del":
            if len(present) == len(reg):
                if raised is not None:
                    probs.append(("del:KeyError-on-stored-region:%s" % cls, "del %s raised KeyError although every byte is stored: %s" % (target, _fmt_model(st))))
                for k in reg:
                    del st.model[k]
            elif raised is None:
                probs.append(("del:no-KeyError:%s" % cls, "del %s did not raise although bytes %s are not stored (%s)" % (
                    target, [k for k in reg if k not in st.model], _fmt_model(st))))
        else:
            has_array = any(k[0] == base for k in st.model)
            if raised is not None and has_array:
                probs.append(("delp:KeyError:%s" % cls, "delete_partial %s raised KeyError, stored bytes %s" % (target, _fmt_model(st))))
            for k in present:
                del st.model[k]
        st.last = (cls, raised is not None)
    elif kind == "rt":
        try:
            state = st.engine.get_state()
            items = list(dict(state).items())
            fresh = SymbolicExecutionEngine(_Lifter(asz))
            fresh.set_state(state)
            st.engine = fresh
        except Exception as exc:
            probs.append(("export-import:raise:%s" % type(exc).__name__, "get_state/set_state raised %r, stored bytes %s" % (exc, _fmt_model(st))))
            return probs
        covered = {}
        for dst, _src in items:
            if not dst.is_mem():
                probs.append(("export:non-memory-key", "exported key %s" % dst))
                continue
            base, off = _split(st, dst.ptr)
            for k in _region(st, base, off, dst.size):
                covered[k] = covered.get(k, 0) + 1
        dup = sorted(k for k, n in covered.items() if n > 1)
        if dup:
            probs.append(("export:overlapping-items", "exported items overlap on %s: %s" % (dup, sorted(str(d) for d, _ in items))))
        if set(covered) != set(st.model):
            miss = sorted(set(st.model) - set(covered))
            extra = sorted(set(covered) - set(st.model))
            probs.append(("export:coverage:%s" % ("missing" if miss else "extra"),
                          "exported items %s do not cover the stored bytes exactly: missing %s extra %s" % (
                              sorted(str(d) for d, _ in items), miss, extra)))
        st.last = (len(items),)
    elif kind == "cp":
        old = sym
        try:
            new = old.copy()
        except Exception as exc:
            probs.append(("copy:raise:%s" % type(exc).__name__, "copy() raised %r, stored bytes %s" % (exc, _fmt_model(st))))
            return probs
        # scribble on the old object: the copy must not see it
        for base in (st.primary, st.second):
            old.write(m.ExprMem(ptr(asz, base, -1), 32), m.ExprId("Y32", 32))
            try:
                old.symbols_mem.delete_partial(m.ExprMem(ptr(asz, base, 1), 32))
            except KeyError:
                pass
        st.engine.symbols = new
        st.last = (len(st.model),)
    else:
        raise ValueError(ev)
    return probs


def _split(st, p):
    """(base kind, offset) of a canonical pointer - independent of get_expr_base_offset."""
    if p.is_int():
        return INT, int(p)
    off = 0
    args = [p]
    if p.is_op("+"):
        args = list(p.args)
        if args[-1].is_int():
            off = int(args[-1])
            args = args[:-1]
    names = sorted(a.name for a in args if a.is_id())
    if names == ["A"] and len(args) == 1:
        return SYM, off
    if names == ["A", "B"] and len(args) == 2:
        return SUM, off
    return ("?", str(p)), off


def _fmt_model(st):
    out = []
    for (base, off), d in sorted(st.model.items()):
        if d[0] == "u":
            txt = "bits[" + " ".join("%s%s.%d" % (b[0], b[1] if b[0] != "o" else "%s%+d" % (BASE_NAME[b[1]], b[2] if b[2] < (st.mask >> 1) else b[2] - st.mask - 1), b[-1])
                                      if b[0] != "c" else str(b[1]) for b in d[1]) + "]"
        else:
            txt = "".join(str(x) for x in d[:1]) + ":" + ",".join(str(x) for x in d[1:])
        out.append("%s%+d:%s" % (BASE_NAME[base], off if off < (st.mask >> 1) else off - st.mask - 1, txt))
    return "{" + " ".join(out) + "}"


def _pattern(st, reg):
    """Skeleton of a region: runs of byte classes (s stored id, c constant, m stored memory byte, o original)."""
    out = ""
    for k in reg:
        d = st.model.get(k)
        c = "o" if d is None else {"id": "s", "c": "c", "o": "m", "u": "u"}[d[0]]
        if not out or out[-1] != c:
            out += c
    return out


_inv_cache = {}


def invariant(st):
    """The probe grid is a pure function of the store's content (reads and membership do not modify it), so its verdict
    is computed once per distinct content in each worker process and served from a table afterwards."""
    key = _content_key(st)
    probs = _inv_cache.get(key)
    if probs is None:
        probs = _inv_cache[key] = _probe(st)
        if len(_inv_cache) > 200000:
            _inv_cache.clear()
    return list(probs)


def _probe(st):
    m = _m()
    probs = []
    asz = st.asz
    sym = st.engine.symbols
    seen_sigs = set()
    probes = [(st.primary, off, w) for off in PROBE_OFFS for w in WIDTHS]
    probes += [(st.second, off, w) for off in PROBE_OFFS_2ND for w in (8, 32)]
    for base, off, w in probes:
        reg = _region(st, base, off, w)
        target = m.ExprMem(ptr(asz, base, off), w)
        wrap = "wrap" if _wraps(st, off, w) else "nowrap"
        # ---- read
        try:
            got = sym.read(target)
        except Exception as exc:
            sig = "read:raise:%s:%s:%s:%s" % (type(exc).__name__, BASE_NAME[base], wrap, _pattern(st, reg))
            if sig not in seen_sigs:
                seen_sigs.add(sig)
                probs.append((sig, "read %s raised %r, stored bytes %s" % (target, exc, _fmt_model(st))))
            got = None
        if got is not None:
            if got.size != w:
                probs.append(("read:size:%s:%s" % (wrap, _pattern(st, reg)), "read %s returned %s of %d bits, stored bytes %s" % (target, got, got.size, _fmt_model(st))))
            else:
                descs = [st.model.get(k) or ("o", k[0], k[1]) for k in reg]
                want = []
                for vi in range(NVAL):
                    v = 0
                    for i, d in enumerate(descs):
                        v |= desc_val(asz, d, vi) << (8 * i)
                    want.append(v)
                try:
                    have = eval_expr(asz, got)
                except Exception as exc:
                    have = None
                    sig = "read:unevaluable:%s" % type(exc).__name__
                    if sig not in seen_sigs:
                        seen_sigs.add(sig)
                        probs.append((sig, "read %s returned %s which the reference semantics cannot evaluate: %r" % (target, got, exc)))
                if have is not None and tuple(want) != have:
                    sig = "read:wrong-value:%s:w%d:%s:%s" % (BASE_NAME[base], w, wrap, _pattern(st, reg))
                    if sig not in seen_sigs:
                        seen_sigs.add(sig)
                        vi = [i for i in range(NVAL) if want[i] != have[i]][0]
                        probs.append((sig, "read %s = %s evaluates to %#x, the byte store holds %#x (valuation %d: %s); stored bytes %s" % (
                            target, got, have[vi], want[vi], vi,
                            {k: hex(v) for k, v in valuation_cached(asz, vi).items() if k in str(got) or k in "AB"}, _fmt_model(st))))
        # ---- membership
        npresent = sum(1 for k in reg if k in st.model)
        for name, fn, want_b in (("contains", lambda: target in sym, npresent == len(reg)),
                                 ("contains_partial", lambda: sym.symbols_mem.contains_partial(target), npresent > 0)):
            try:
                got_b = fn()
            except Exception as exc:
                got_b = "raised %r" % (exc,)
            if got_b != want_b:
                sig = "%s:%s:expected-%s" % (name, wrap, want_b)
                if sig not in seen_sigs:
                    seen_sigs.add(sig)
                    probs.append((sig, "%s(%s) = %s but %d of its %d bytes are stored: %s" % (name, target, got_b, npresent, len(reg), _fmt_model(st))))
    # ---- export / import and copy(), after EVERY history: the state exported by get_state() and imported into a fresh
    # engine, and the object returned by copy(), must answer every byte (and the widest read across the wrap) like the model
    from miasm.ir.symbexec import SymbolicExecutionEngine
    clones = []
    try:
        fresh = SymbolicExecutionEngine(_Lifter(asz))
        fresh.set_state(st.engine.get_state())
        clones.append(("export-import", fresh.symbols))
    except Exception as exc:
        probs.append(("export-import:raise:%s" % type(exc).__name__, "get_state/set_state raised %r, stored bytes %s" % (exc, _fmt_model(st))))
    try:
        clones.append(("copy", sym.copy()))
    except Exception as exc:
        probs.append(("copy:raise:%s" % type(exc).__name__, "copy() raised %r, stored bytes %s" % (exc, _fmt_model(st))))
    # every stored byte and its two neighbours (that is where a wrong region boundary shows), plus two 64-bit reads
    near = set()
    for (base, o) in st.model:
        so = o if o <= (st.mask >> 1) else o - st.mask - 1
        for d in (-1, 0, 1):
            near.add((base, so + d))
    byte_probes = [(base, off, 8) for base, off in sorted(near)]
    byte_probes += [(st.primary, -4, 64), (st.primary, 0, 64)]
    for name, clone in clones:
        for base, off, w in byte_probes:
            reg = _region(st, base, off, w)
            target = m.ExprMem(ptr(asz, base, off), w)
            try:
                got = clone.read(target)
                have = eval_expr(asz, got)
            except Exception as exc:
                probs.append(("%s:read-raise:%s" % (name, type(exc).__name__), "%s: read %s raised %r, stored bytes %s" % (name, target, exc, _fmt_model(st))))
                break
            descs = [st.model.get(k) or ("o", k[0], k[1]) for k in reg]
            want = tuple(sum(desc_val(asz, d, vi) << (8 * i) for i, d in enumerate(descs)) for vi in range(NVAL))
            if have != want:
                stored = "stored" if reg[0] in st.model else "untouched"
                vi = [i for i in range(NVAL) if want[i] != have[i]][0]
                probs.append(("%s:read-differs:w%d:%s-byte" % (name, w, stored),
                              "after %s, read %s = %s evaluates to %#x, the byte store holds %#x (valuation %d); the live store answers %s; stored bytes %s" % (
                                  "get_state() -> set_state() into a fresh engine" if name == "export-import" else "copy()",
                                  target, got, have[vi], want[vi], vi, sym.read(target), _fmt_model(st))))
                break
    return probs


def _content_key(st):
    impl = []
    for base, arr in st.engine.symbols.symbols_mem.base_to_memarray.items():
        b = str(base)
        for off, (idx, e) in arr._offset_to_expr.items():
            impl.append((b, off, idx, str(e)))
    impl.sort()
    # limit - nev: states of seeds with different remaining depth budgets are not merged (each is expanded to its own bound)
    return (st.asz, st.primary, tuple(sorted(st.model.items())), tuple(impl))


def canon(st):
    ck = _content_key(st)
    if _keys is not None:
        _keys.add(hashlib.sha1(repr(ck).encode()).digest()[:10])
    key = (st.more, st.limit - st.nev, ck)
    return hashlib.sha1(repr(key).encode()).hexdigest()       # short, deterministic handle (keys travel between processes)


def outcome(st, ev):
    return (ev[0], st.last)


PRE1 = (("w", SYM, -2, ("X", 64)), ("w", SYM, 0, ("Y", 16)), ("w", SYM, -1, ("C", 16)))      # overlapping, across the wrap
PRE2 = (("w", INT, -1, ("X", 32)), ("w", INT, 1, ("C", 8)), ("w", INT, 3, ("C", 32)))        # wrap + adjacent constants
PRE3 = (("w", SUM, -2, ("M", 32, 1)), ("w", SUM, 0, ("X", 16)))                              # shifted copy across the wrap
PRE4 = (("w", SYM, -2, ("Z", 32, SUM)), ("w", SYM, 2, ("Z", 32, SUM)), ("w", SYM, 6, ("Z", 8, SUM)))   # word-wise copy q -> p + a byte

# A seed is (address size, primary base, pre-applied events, own depth limit, extended menu).
# SEEDS is the union of both tiers (one list, so that a recorded seed index is tier-independent).
SEEDS = []
PLAN = {"quick": [], "thorough": []}


def _plan():
    def add(tier, seed):
        if seed not in SEEDS:
            SEEDS.append(seed)
        PLAN[tier].append(SEEDS.index(seed))
    # quick: depth 3 on two systems (both address sizes, bases A and A+B), depth 2 on the integer base at address size 8 and
    # behind two seeded stores (one of them the integer base at address size 32); the thorough tier has all six systems
    for asz, primary in ((8, SYM), (32, SUM)):
        add("quick", (asz, primary, (), 3, False))
    add("quick", (8, INT, (), 2, False))
    for asz, primary, pre in ((8, SYM, PRE1), (32, INT, PRE2)):
        add("quick", (asz, primary, pre, 2, False))
    # thorough: depth 4 on three systems (base menu), depth 3 with the extended menu on two others, depth 3 behind seven
    # seeded stores covering all six systems (one search = one process; sized for <= 15 min at load ~130: ~300k transitions)
    for asz, primary in ((8, SYM), (32, INT), (32, SUM)):
        add("thorough", (asz, primary, (), 4, False))
    for asz, primary in ((8, INT), (32, SYM)):          # (8, A+B) is reached through its seeded store below
        add("thorough", (asz, primary, (), 3, True))
    for asz in (8, 32):
        for primary, pre in ((SYM, PRE1), (INT, PRE2), (SUM, PRE3)):
            add("thorough", (asz, primary, pre, 3, False))
    add("thorough", (32, SYM, PRE4, 3, False))


_plan()


class _Local(object):
    """Context of one in-process search (one search per seed: the probe table and compiled evaluators stay warm)."""

    def __init__(self):
        self.violations = []

    def pmap(self, fn, shards):
        return [fn(s) for s in shards]

    def violation(self, sig, what, case):
        self.violations.append(violation(sig, what, case))


_keys = None


def _explore_seed(seed_idx):
    import sys
    global _keys
    local = _Local()
    seed = SEEDS[seed_idx]
    _keys = set()
    cov = bfs.explore(local, sys.modules[__name__], max_depth=seed[3], seeds=[seed], chunk=64)
    # keep at most 3 witnesses per signature (first found = shortest history), count the rest
    count = {}
    keep = []
    for v in local.violations:
        v["case"]["seed"] = seed_idx
        count[v["sig"]] = count.get(v["sig"], 0) + 1
        if count[v["sig"]] <= 3:
            keep.append(v)
    for smp in cov.get("samples", []):
        smp["seed"] = seed_idx
    keys, _keys = _keys, None
    return cov, keep, count, keys


def run(ctx):
    idxs = PLAN[ctx.tier]
    if ctx.quick:
        # one process: a transition costs ~2 ms once the probe table and the compiled evaluators are warm, which a pool
        # of cold workers cannot beat on this amount of work
        res = [_explore_seed(i) for i in idxs]
    else:
        order = sorted(idxs, key=lambda i: (-SEEDS[i][3], -int(SEEDS[i][4]), i))      # deepest searches first
        got = dict(zip(order, ctx.pmap(_explore_seed, order)))
        res = [got[i] for i in idxs]
    cov = {"samples": [], "new_states_per_depth_by_seed": {}, "states_counted_per_seed": 0}
    sigcount = {}
    vs = []
    allkeys = set()
    for (c, keep, count, keys), si in zip(res, idxs):
        for k in ("transitions", "traces_validated_against_impl", "evaluations"):
            cov[k] = cov.get(k, 0) + c[k]
        cov["states_counted_per_seed"] += c["states"]
        cov["new_states_per_depth_by_seed"][str(si)] = c["new_states_per_depth"]
        cov["samples"] += c["samples"][:1]
        cov["distinct_outcomes"] = max(cov.get("distinct_outcomes", 0), c["distinct_outcomes"])
        vs += keep
        allkeys |= keys
        for k, n in count.items():
            sigcount[k] = sigcount.get(k, 0) + n
    # witnesses: shortest history first
    vs.sort(key=lambda v: (len(v["case"]["hist"]) + len(SEEDS[v["case"]["seed"]][2]), v["case"]["seed"]))
    ctx.add_violations(vs)
    cov["states"] = cov["distinct_nontrivial"] = len(allkeys)       # measured: distinct (system, store content) over all seeds
    cov["samples"] = cov["samples"][:4]
    cov["violating_transitions_by_signature"] = sigcount
    cov["exhaustive"] = True
    cov["max_depth"] = max(SEEDS[i][3] for i in idxs)
    cov["bounds"] = {"address_sizes": [8, 32], "bases": ["int", "A", "A+B"], "widths": list(WIDTHS),
                     "seeds(addrsize,base,pre,depth,extended_menu)": [repr(SEEDS[i]) for i in idxs],
                     "events_per_state": {"base_menu": len(events(make((8, SYM, (), 1, False)))),
                                          "extended_menu": len(events(make((8, SYM, (), 1, True))))},
                     "probe_offsets": PROBE_OFFS, "valuations": NVAL}
    return cov


def replay(case):
    import sys
    return bfs.replay(sys.modules[__name__], SEEDS, case)
