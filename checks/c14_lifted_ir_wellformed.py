"""C14 - lifted IR is well-formed for every decodable instruction.

Engine E2 (bounded-exhaustive enumeration of the `insngen` encoding lattices).

Space: per target (x86 16/32/64, ARM l/b, Thumb l/b, AArch64 l/b, MIPS32 l/b, PPC32 b, MSP430, MeP l/b) the three
`mc/insngen.py` sources (curated vectors, their single-bit flips / major-opcode byte substitutions, opcode-map cubes
with the menu truncations of BOUNDS).  Every element the decoder accepts is lifted (once per distinct decoded byte
string of a shard) at the addresses {0, 0x1000, 2^pc_bits - 8} the way the disassembly engine does it
(offset set, `dstflow2label` for flow-changing instructions), with the target's `lifter_model_call`.  Instructions
that cannot stand alone get the successors the engine would give them (NOPs): the delay slot of a MIPS32 branch, the
instructions of a Thumb IT block.

Oracle (the property statement):
  * NotImplementedError                      -> "reported unsupported" (counted, fine)
  * any other exception while lifting        -> violation  raise:<Type>(<class of message>)
  * for every IRBlock of the resulting IRCFG:
      - both sides of every assignment have the same width              (width-mismatch)
      - every destination is an ExprId or an ExprMem                    (bad-destination:<Type>)
      - exactly one assignment to IRDst                                 (irdst-count:<n>)
      - every leaf of the ExprCond tree of IRDst's value is an ExprLoc / ExprInt; anything else (register,
        memory, computed value: an indirect jump) is class `indirect`, counted, never a violation
      - every ExprId is one of the architecture's registers (regs.all_regs_ids, exception_flags) or the
        lifter's IRDst              (foreign-id:<register family>, one signature per target, mnemonics in `what`)
      - the IRCFG has an edge block -> L for every ExprLoc leaf L of the block's IRDst, and an edge to the
        location of the offset for every ExprInt leaf                   (missing-edge:loc / missing-edge:int)
"""
import collections
import contextlib
import gc
import io
import re

from mc import insngen as g
from mc.runner import violation

PROP = "C14"
LEVEL = "exploration"
ENGINE = "enum"
RULE = ("every element of the insngen lattices (curated vectors of test/arch, all their single-bit flips, in the thorough "
        "tier all substitutions of a major-opcode byte, and opcode-map cubes: all 2^16 opcode half-words / all 256 first "
        "bytes x prefix x ModRM x tail menus) that the decoder accepts, lifted at 3 addresses; distinct = distinct decoded "
        "byte string (instr.b) per target (exact inside the cube and inside the curated+deviation sources; the two groups "
        "are not merged with each other); non-trivial = the lifter produced IR (not 'unsupported')")
LEVEL_TEXT = ("Bounded-exhaustive over explicitly described encoding lattices: every decodable element is lifted and every "
              "resulting IR block is walked structurally. The opcode halves of the fixed-width ISAs and the first opcode "
              "byte (one-byte and 0F maps) of x86 are enumerated completely, operand fields through fixed menus.")
LEVEL_NOTE = ("Not covered: encodings outside the lattices (operand-field combinations beyond the menus, x86 0F38/0F3A maps "
              "beyond what the 0F slab reaches, three-prefix combinations); addresses other than the three listed; "
              "lifting of several arbitrary instructions in one block (delay slots and IT blocks are filled with NOPs). "
              "Trusted: miasm's decoder output "
              "is taken as the definition of 'decodable'.")
TECHNIQUE = "bounded-exhaustive enumeration of encoding lattices with a structural IR well-formedness walk"
ASSUMPTIONS = ["an instruction is 'decodable' when mn.dis returns without raising",
               "lifting = Lifter.add_instr_to_ircfg on the decoded instruction after the disassembly engine's "
               "preparation (offset, dstflow2label)",
               "the architecture's registers are arch.regs.all_regs_ids plus exception_flags; IRDst is the lifter's"]

ADDRS = ("0", "0x1000", "top-8")

# which sources of which targets, and the menu truncations of the cubes, per tier (the stated bound) -----------
_T = g.LIFT_TARGETS
_NAT = [t for t in g.NATIVE if t in _T]
_SWP = [t for t in g.SWAPPED if t in _T]
BOUNDS = {
    # quick (sized for about a minute on a machine whose load is 5x its cores; ~10 s on an idle one): curated vectors
    # of every target; all single-bit flips for three native-order targets with short curated lists; cube for one byte
    # order per architecture (decode tables and semantics are shared, the byte order only permutes the bytes fetched)
    # with the 16-bit axis restricted to the multiples of 64 (stride) and, for x86, one ModRM byte x one tail
    "quick": {
        "curated": _T,
        "bitflip": ["x86_16", "ppc32b", "msp430"],
        "bytesub": [],
        "cube": g.cube_dims({
            "fixed32": {"lo": 1, "hi": 0, "stride": 64},
            "thumb": {"ext": 1, "stride": 64},
            "msp430": {"ext": 1, "stride": 64},
            "word16": {"ext": 1, "stride": 64},
            "x86": {"prefix": 3, "maps": 2, "second": 1, "tail": 1},
        }, _NAT),
        # two interacting immediates (bit-field position x width, mask begin x end): boundary band of the pair product
        "immpair": dict((n, {"mode": "band"}) for n in g.IMMPAIR_TARGETS),
        "shard": 512, "bundles": 16,
    },
    # thorough: curated + all bit flips for every target; the complete 16-bit axis for the native-order targets;
    # x86: 7 prefixes x 2 maps x 256 x 4 ModRM x 2 tails; major-opcode byte substitutions for x86_16 and msp430
    "thorough": {
        "curated": _T, "bitflip": _T, "bytesub": ["x86_16", "msp430"],
        "cube": g.cube_dims({
            "fixed32": {"lo": 1, "hi": 0},
            "thumb": {"ext": 1},
            "msp430": {"ext": 1},
            "word16": {"ext": 1},
            "x86": {"prefix": 7, "maps": 2, "second": 4, "tail": 2},
        }, _NAT),
        "immpair": dict((n, {"mode": "full"}) for n in g.IMMPAIR_TARGETS),       # the complete pair product
        "shard": 4096, "bundles": 96,
    },
}


# ---------------------------------------------------------------------------------------------------------
_lenv = {}


def _lift_env(name):
    if name not in _lenv:
        t, mn = g.env(name)
        M = t.machine_obj()
        g.quiet()       # sem.py modules log "DEFAULT SLDT ADDRESS" warnings on stderr
        cls = M.lifter_model_call or M.lifter
        allowed = set(mn.regs.all_regs_ids)
        ef = getattr(mn.regs, "exception_flags", None)
        if ef is not None:
            allowed.add(ef)
        _lenv[name] = (t, mn, cls, allowed)
    return _lenv[name]


def _addr(t, a):
    return {"0": 0, "0x1000": 0x1000, "top-8": (1 << t.pc_bits) - 8}[a]


def _ids(e, acc, seen):
    """Collect the ExprId of expression e into acc."""
    from miasm.expression.expression import ExprId, ExprMem, ExprOp, ExprCompose, ExprSlice, ExprCond
    stack = [e]
    while stack:
        e = stack.pop()
        if e in seen:
            continue
        seen.add(e)
        if isinstance(e, ExprId):
            acc.add(e)
        elif isinstance(e, ExprMem):
            stack.append(e.ptr)
        elif isinstance(e, (ExprOp, ExprCompose)):
            stack.extend(e.args)
        elif isinstance(e, ExprSlice):
            stack.append(e.arg)
        elif isinstance(e, ExprCond):
            stack.extend((e.cond, e.src1, e.src2))


def _leaves(e):
    out = []
    stack = [e]
    while stack:
        e = stack.pop()
        if e.is_cond():
            stack.extend((e.src1, e.src2))
        else:
            out.append(e)
    return out


def exc_class(e, instr):
    msg = str(e)
    name = type(e).__name__
    if "must have same size" in msg:
        return "%s(size-mismatch)" % name
    if "unknown mnemo" in msg:
        return "%s(unknown-mnemo)" % name
    if "Concurrent access" in msg:
        return "%s(concurrent-assignment)" % name
    if "Destination cannot be" in msg:
        return "%s(bad-destination)" % name
    if "Multiple destinations" in msg:
        return "%s(multiple-irdst)" % name
    if isinstance(e, KeyError) and e.args and isinstance(e.args[0], str) and \
            e.args[0].lower().replace(".", "_") == instr.name.lower().replace(".", "_"):
        return "KeyError(no-semantics-entry)"
    if isinstance(e, TypeError) and "positional argument" in msg:
        return "TypeError(arity)"
    return name


_NOP = {"mips32": "00000000", "arm": "bf00"}       # big-endian unit values: MIPS32 NOP, Thumb NOP


def _context(name, t, instr):
    """Instructions that only make sense with successors are lifted the way the disassembly engine presents them:
    a flow-changing instruction with a delay slot (MIPS32) is followed by its delay-slot instruction, a Thumb IT
    instruction by the instructions of its IT block.  The successors are NOPs."""
    n = 0
    if t.kind == "thumb":
        nm = instr.name
        if nm.startswith("IT") and 2 <= len(nm) <= 5 and set(nm[2:]) <= set("TE"):
            n = len(nm) - 1
    elif instr.delayslot and instr.breakflow():
        n = instr.delayslot
    if not n:
        return []
    out = []
    off = instr.offset + instr.l
    for _k in range(n):
        nop = g.decode(name, t.pack([int(_NOP[t.testdir], 16)]))
        nop.offset = off & ((1 << t.pc_bits) - 1)
        off += nop.l
        out.append(nop)
    return out


def lift_once(name, raw, a, instr=None):
    """Lift the instruction decoded from raw at address class a.
    -> (outcome, kinds, counters, instr)   outcome in undecodable / unsupported / raised / lifted;
       kinds = list of (kind, detail) violations.
    instr: an already decoded instruction whose args were not modified (else raw is decoded again)."""
    from miasm.core.locationdb import LocationDB
    from miasm.core.asmblock import AsmBlock
    from miasm.expression.expression import ExprId, ExprMem
    t, mn, cls, allowed = _lift_env(name)
    if instr is None:
        instr = g.decode(name, raw)
    if instr is None:
        return "undecodable", [], {}, None
    cnt = {}
    loc_db = LocationDB()
    lifter = cls(loc_db)
    instr.offset = _addr(t, a)
    try:
        if instr.breakflow() and instr.dstflow():
            cnt["relabelled"] = 1
            instr.dstflow2label(loc_db)
    except Exception as e:     # the engine's preparation is not "lifting": count, lift what we have
        cnt["prep_raised:" + type(e).__name__] = 1
    try:
        ircfg = lifter.new_ircfg()
        ctx_lines = _context(name, t, instr)
        if ctx_lines:
            # same thing add_instr_to_ircfg does, with the lines the instruction cannot be lifted without
            cnt["with_context"] = 1
            block = AsmBlock(loc_db, loc_db.get_or_create_offset_location(instr.offset))
            block.lines = [instr] + ctx_lines
            lifter.add_asmblock_to_ircfg(block, ircfg)
        else:
            lifter.add_instr_to_ircfg(instr, ircfg)
    except NotImplementedError:
        return "unsupported", [], cnt, instr
    except Exception as e:
        return "raised", [("raise:" + exc_class(e, instr), "%s: %s" % (type(e).__name__, str(e)[:160]))], cnt, instr
    kinds = []
    irdst = lifter.IRDst
    ok_ids = allowed
    seen = set()
    cnt["blocks"] = len(ircfg.blocks)
    edges = set(ircfg.edges())
    for lk, irb in ircfg.blocks.items():
        n_dst = 0
        dst_val = None
        acc = set()
        for ab in irb:
            for dst, src in ab.items():
                if dst.size != src.size:
                    kinds.append(("width-mismatch", "%s (%d) = %s (%d)" % (dst, dst.size, src, src.size)))
                if not isinstance(dst, (ExprId, ExprMem)):
                    kinds.append(("bad-destination:" + type(dst).__name__, str(dst)))
                if isinstance(dst, ExprId) and dst.name == "IRDst":
                    n_dst += 1
                    dst_val = src
                _ids(dst, acc, seen)
                _ids(src, acc, seen)
        foreign = sorted((x for x in acc if x not in ok_ids and x != irdst), key=str)
        if foreign:
            fam = sorted(set(re.sub(r"[0-9]+", "#", str(x)) for x in foreign))
            kinds.append(("foreign-id:" + ",".join(fam), ", ".join("%s/%d" % (x, x.size) for x in foreign[:4])))
        if n_dst != 1:
            kinds.append(("irdst-count:%s" % (n_dst if n_dst < 2 else "many"), "block %s sets IRDst %d times" % (lk, n_dst)))
            continue
        for leaf in _leaves(dst_val):
            if leaf.is_loc():
                cnt["leaf_loc"] = cnt.get("leaf_loc", 0) + 1
                if (lk, leaf.loc_key) not in edges:
                    kinds.append(("missing-edge:loc", "no edge %s -> %s" % (lk, leaf.loc_key)))
            elif leaf.is_int():
                cnt["leaf_int"] = cnt.get("leaf_int", 0) + 1
                tgt = loc_db.get_offset_location(int(leaf))
                if tgt is None or (lk, tgt) not in edges:
                    kinds.append(("missing-edge:int", "no edge %s -> offset %#x" % (lk, int(leaf))))
            else:
                cnt["indirect"] = cnt.get("indirect", 0) + 1
    return "lifted", kinds, cnt, instr


def judge(name, raw, first=None):
    """-> (counters, violations) for one element at all addresses. first: the freshly decoded instruction."""
    counters = collections.Counter()
    vs = []
    done = set()
    instr = first if first is not None else g.decode(name, raw)
    if instr is None:
        return counters, vs
    args0 = list(instr.args)        # decode once: dstflow2label replaces entries of instr.args, the lifters leave the
    for a in ADDRS:                 # instruction alone; the decoded arguments are put back before every address
        instr.args = list(args0)
        outcome, kinds, cnt, instr = lift_once(name, raw, a, instr)
        counters[outcome] += 1
        counters.update(cnt)
        if outcome == "lifted" and not kinds:
            counters["wellformed"] += 1
        for kind, detail in kinds:
            mnemo = g.base_mnemonic(name, instr.name)
            # one signature per (target, register family) for foreign registers: the mnemonic does not matter
            folded = kind.startswith("foreign-id:")
            sig = "%s|%s|%s" % (name, "*" if folded else mnemo, kind)
            if sig in done:
                continue
            done.add(sig)
            try:
                txt = str(instr)
            except Exception:
                txt = instr.name
            v = violation(sig, "%s %s (%s) at %s: %s" % (name, bytes(instr.b).hex(), " ".join(txt.split()), a, detail),
                          {"target": name, "raw": raw})
            if folded:
                v["mnemo"] = mnemo
            vs.append(v)
    return counters, vs


def _shard(shard):
    g.quiet()
    name = shard[0]
    stats = {}
    counters = collections.Counter()
    best = {}           # sig -> (sortkey, violation, count)
    sample = None
    for raw, instr in g.iter_shard(shard, stats):
        c, vs = judge(name, raw, instr)
        counters.update(c)
        if sample is None and c.get("wellformed"):
            sample = {"target": name, "bytes": bytes(instr.b).hex(), "text": " ".join(str(instr).split())}
        for v in vs:
            g.note_best(best, v, (len(instr.b), bytes(instr.b)))
    keys = stats.pop("_keys", [])
    return name, shard[1], stats, dict(counters), best, sample, keys


def _bundle(bundle):
    with contextlib.redirect_stdout(io.StringIO()):      # ppc/sem.py print()s "implemented as NOP" warnings
        return [g.deep_call(_shard, s) for s in bundle]


def plan(tier, only=None):
    return g.make_plan(BOUNDS[tier], g.LIFT_TARGETS, only)


def run(ctx):
    tier = "quick" if ctx.quick else "thorough"
    shards = plan(tier)
    for name in g.LIFT_TARGETS:          # import / warm every architecture before the pool forks
        _lift_env(name)
        raw = g.raw_of(name, "curated", g.curated(name)[0])
        judge(name, raw, g.decode(name, raw))
    gc.collect()
    gc.freeze()                          # keep the collector away from the inherited heap (copy-on-write faults)
    res = [r for rs in ctx.pmap(_bundle, g.bundles(shards, BOUNDS[tier]["bundles"])) for r in rs]
    bounds = dict(BOUNDS[tier], sizes=g.plan_sizes(BOUNDS[tier], g.LIFT_TARGETS), addresses=list(ADDRS))
    return g.fold(ctx, res, bounds, nontrivial=lambda c: c.get("lifted", 0))


def replay(case):
    raw = case["raw"]
    if isinstance(raw, str):
        raw = bytes.fromhex(raw)
    _c, vs = judge(case["target"], raw)
    return vs
