"""C15 - every encoding proposed by the assembler decodes to the same instruction.

Engine E2 (bounded-exhaustive enumeration of the `insngen` encoding lattices).

Space: per target (x86 16/32/64, ARM l/b, Thumb l/b, AArch64 l/b, MIPS32 l/b, PPC32 b, MSP430, MeP l/b, SH4) the
`mc/insngen.py` sources with the truncations of BOUNDS.  Every element the decoder accepts is taken once per distinct
decoded byte string:  i = mn.dis(bytes, mode).

Oracle (the property statement):
  * cands = mn.asm(i) returns at least one encoding            (asm:raise:<Type> / asm:no-encoding)
  * for every candidate c:  i2 = mn.dis(c, mode) succeeds       (cand-undecodable:<Type>)
      - i2.name == i.name                                       (cand-name)
      - i2.mode == i.mode                                       (cand-mode)
      - i2.args == i.args   (== on expressions, as decoded)     (cand-args / cand-argcount;
          same printed operands, only a width differs: *|cand-args:width-only(addrA->B | opA->B ...), one signature
          per target and width class, mnemonics listed in `what`)
      - i2.l == len(c)                                          (cand-length; with a memory operand:
          *|cand-length(mem=<address skeleton>), one signature per target and addressing shape)
Counted, not demanded: whether the original bytes are among the candidates (`original_among_candidates`).
"""
import collections
import gc

from mc import insngen as g
from mc.runner import violation

PROP = "C15"
LEVEL = "exploration"
ENGINE = "enum"
RULE = ("every element of the insngen lattices (curated vectors of test/arch, their single-bit flips, thorough: major-opcode "
        "byte substitutions, opcode-map cubes) that the decoder accepts, once per distinct decoded byte string; the decoded "
        "instruction is re-assembled and every candidate decoded again; non-trivial = the assembler proposed at least one "
        "candidate (so that at least one decode comparison took place)")
LEVEL_TEXT = ("Bounded-exhaustive over explicitly described encoding lattices: for every decodable element all assembler "
              "candidates are decoded and compared field by field with the instruction they were made from.")
LEVEL_NOTE = ("Not covered: encodings outside the lattices; instructions built by hand or by the parser rather than by the "
              "decoder (C16 covers parsed text); symbolic (label) operands. Trusted: expression equality of miasm.")
TECHNIQUE = "bounded-exhaustive enumeration of encoding lattices, decode -> assemble -> decode comparison"
ASSUMPTIONS = ["an instruction is 'decodable' when mn.dis returns without raising",
               "operands are compared with == on the decoded expressions (both sides come from the same decoder)"]

_T = g.TARGETS
_NAT = g.NATIVE
BOUNDS = {
    # quick: same shape as C14's quick tier (see there) plus SH4; x86 (asm costs 2-5 ms per instruction) gets two
    # prefixes per mode and no bit flips
    "quick": {
        "curated": _T,
        "bitflip": ["ppc32b", "msp430", "sh4"],
        "bytesub": [],
        "cube": g.cube_dims({
            "fixed32": {"lo": 1, "hi": 0, "stride": 64},
            "thumb": {"ext": 1, "stride": 64},
            "msp430": {"ext": 1, "stride": 64},
            "word16": {"ext": 1, "stride": 64},
            "sh4": {"ext": 1, "stride": 64},
            "x86": {"prefix": 2, "maps": 2, "second": 1, "tail": 1},
        }, _NAT),
        # prefix stacks whose order matters to the assembler: (none, FS) x 66 x 67 x (none, F3, F2) x (none, REX.W) in
        # front of string and mandatory-prefix SSE opcodes, memory and register ModRM
        "x86stack": dict((n, {"seg": 2, "opsz": 2, "adsz": 2, "mand": 3, "rex": 2, "ops": ("string", "sse"),
                              "modrm": 2}) for n in ("x86_32", "x86_64")),
        "shard": 512, "bundles": 16,
    },
    "thorough": {
        "curated": _T, "bitflip": _T, "bytesub": ["x86_16", "msp430", "sh4"],
        "cube": g.cube_dims({
            "fixed32": {"lo": 1, "hi": 0},
            "thumb": {"ext": 1},
            "msp430": {"ext": 1},
            "word16": {"ext": 1},
            "sh4": {"ext": 1},
            "x86": {"prefix": 7, "maps": 2, "second": 4, "tail": 2},
        }, _NAT),
        "x86stack": dict((n, {"seg": 4, "opsz": 2, "adsz": 2, "mand": 4, "rex": 2, "ops": ("string", "lock", "sse"),
                              "modrm": 3}) for n in ("x86_16", "x86_32", "x86_64")),
        "shard": 4096, "bundles": 96,
    },
}


def _txt(i):
    try:
        return " ".join(str(i).split())
    except Exception as e:
        return "%s <unprintable: %s>" % (i.name, type(e).__name__)


def _widths(e):
    """size of the operand and, for a memory operand, of its address"""
    return "%d[%d]" % (e.size, e.ptr.size) if e.is_mem() else str(e.size)


def _width_class(args, args2):
    """What differs between two operand lists that print identically: addrA->B (address width of a memory operand),
    memA->B (its access width), opA->B (width of a register / constant operand)."""
    out = set()
    for a, b in zip(args, args2):
        if a == b:
            continue
        if a.is_mem() and b.is_mem():
            if a.ptr.size != b.ptr.size:
                out.add("addr%d->%d" % (a.ptr.size, b.ptr.size))
            elif a.size != b.size:
                out.add("mem%d->%d" % (a.size, b.size))
            else:
                out.add("inner")
        elif a.size != b.size:
            out.add("op%d->%d" % (a.size, b.size))
        else:
            out.add("inner")
    return ",".join(sorted(out))


# kinds whose cause does not depend on the mnemonic: one signature per (target, kind), the mnemonics go to `what`
def _folded(kind):
    return kind.startswith("cand-args:width-only(") or kind.startswith("cand-length(mem=")


def judge(name, raw, first=None):
    """-> (counters, list of (kind, detail), instr)"""
    t, mn = g.env(name)
    cnt = collections.Counter()
    instr = first if first is not None else g.decode(name, raw)
    if instr is None:
        return cnt, [], None
    kinds = []
    try:
        cands = mn.asm(instr)
    except Exception as e:
        if isinstance(e, ValueError) and str(e).startswith("('cannot asm") or "cannot asm" in str(e):
            kinds.append(("asm:no-encoding", "asm proposes no encoding: %s" % str(e)[:120]))
        else:
            kinds.append(("asm:raise:" + type(e).__name__, "asm raised %s: %s" % (type(e).__name__, str(e)[:120])))
        cnt["asm_failed"] += 1
        return cnt, kinds, instr
    if not cands:
        cnt["asm_failed"] += 1
        return cnt, [("asm:no-encoding", "asm returned no candidate")], instr
    cnt["assembled"] += 1
    cnt["candidates"] += len(cands)
    if bytes(instr.b) in [bytes(c) for c in cands]:
        cnt["original_among_candidates"] += 1
    seen = set()
    for c in sorted(set(bytes(c) for c in cands), key=lambda b: (len(b), b)):
        k = None
        try:
            i2 = mn.dis(c, t.mode)
        except Exception as e:
            k = ("cand-undecodable:" + type(e).__name__, "candidate %s does not decode: %s" % (c.hex(), str(e)[:80]))
            i2 = None
        if i2 is not None:
            if i2.name != instr.name:
                k = ("cand-name", "candidate %s decodes to %s" % (c.hex(), _txt(i2)))
            elif i2.mode != instr.mode:
                k = ("cand-mode", "candidate %s decodes in mode %r, not %r" % (c.hex(), i2.mode, instr.mode))
            elif len(i2.args) != len(instr.args):
                k = ("cand-argcount", "candidate %s decodes to %s" % (c.hex(), _txt(i2)))
            elif list(i2.args) != list(instr.args):
                s1, s2 = [str(a) for a in i2.args], [str(a) for a in instr.args]
                if s1 == s2:        # same printed operands: only the width of a constant / address differs
                    k = ("cand-args:width-only(%s)" % _width_class(instr.args, i2.args),
                         "candidate %s decodes to %s: operand widths %s instead of %s" % (
                        c.hex(), _txt(i2), [_widths(a) for a in i2.args], [_widths(a) for a in instr.args]))
                else:
                    k = ("cand-args", "candidate %s decodes to %s (args %s vs %s)" % (c.hex(), _txt(i2), s1, s2))
            elif i2.l != len(c):
                mems = [g.skeleton(a.ptr) for a in instr.args if a.is_mem()]
                k = ("cand-length(mem=%s)" % mems[0] if mems else "cand-length",
                     "candidate %s (%d bytes) decodes with length %r" % (c.hex(), len(c), i2.l))
        if k is None:
            cnt["candidates_ok"] += 1
        elif k[0] not in seen:
            seen.add(k[0])
            kinds.append(k)
    if not kinds:
        cnt["roundtrip_ok"] += 1
    return cnt, kinds, instr


def violations_of(name, raw, first=None):
    cnt, kinds, instr = judge(name, raw, first)
    vs = []
    for kind, detail in kinds:
        mnemo = g.base_mnemonic(name, instr.name)
        sig = "%s|%s|%s" % (name, "*" if _folded(kind) else mnemo, kind)
        v = violation(sig, "%s %s (%s): %s" % (name, bytes(instr.b).hex(), _txt(instr), detail),
                      {"target": name, "raw": raw})
        if _folded(kind):
            v["mnemo"] = mnemo
        vs.append(v)
    return cnt, vs


def _shard(shard):
    g.quiet()
    name = shard[0]
    stats = {}
    counters = collections.Counter()
    best = {}
    sample = None
    for raw, instr in g.iter_shard(shard, stats):
        c, vs = violations_of(name, raw, instr)
        counters.update(c)
        if sample is None and c.get("roundtrip_ok") and c.get("candidates", 0) > 1:
            sample = {"target": name, "bytes": bytes(instr.b).hex(), "text": _txt(instr), "candidates": c["candidates"]}
        for v in vs:
            g.note_best(best, v, (len(instr.b), bytes(instr.b)))
    keys = stats.pop("_keys", [])
    return name, shard[1], stats, dict(counters), best, sample, keys


def _bundle(bundle):
    return [g.deep_call(_shard, s) for s in bundle]


def plan(tier, only=None):
    return g.make_plan(BOUNDS[tier], g.TARGETS, only)


def run(ctx):
    tier = "quick" if ctx.quick else "thorough"
    shards = plan(tier)
    for name in g.TARGETS:               # import / warm every architecture before the pool forks
        raw = g.raw_of(name, "curated", g.curated(name)[0])
        judge(name, raw)
    g.quiet()
    gc.collect()
    gc.freeze()
    res = [r for rs in ctx.pmap(_bundle, g.bundles(shards, BOUNDS[tier]["bundles"])) for r in rs]
    bounds = dict(BOUNDS[tier], sizes=g.plan_sizes(BOUNDS[tier], g.TARGETS))
    return g.fold(ctx, res, bounds, nontrivial=lambda c: c.get("assembled", 0))


def replay(case):
    raw = case["raw"]
    if isinstance(raw, str):
        raw = bytes.fromhex(raw)
    g.env(case["target"])
    g.quiet()
    _c, vs = violations_of(case["target"], raw)
    return vs
