"""C15 - every encoding proposed by the assembler decodes to the same instruction.

Engine E2 (bounded-exhaustive enumeration of the `insngen` encoding lattices).

Space: per target (x86 16/32/64, ARM l/b, Thumb l/b, AArch64 l/b, MIPS32 l/b, PPC32 b, MSP430, MeP l/b, SH4) the
`mc/insngen.py` sources with the truncations of BOUNDS.  Every element the decoder accepts is taken once per distinct
decoded byte string:  i = mn.dis(bytes, mode).

Oracle (the property statement):
  * cands = mn.asm(i) returns at least one encoding            (asm:raise:<Type> / asm:no-encoding)
  * for every candidate c:  i2 = mn.dis(c, mode) succeeds       (cand-undecodable:<Type>)
      - i2.name == i.name                                       (cand-name)
      - i2.mode == i.mode                                       (cand-mode)
      - i2.args == i.args   (== on expressions, as decoded)     (cand-args / cand-argcount;
          same printed operands, only a width differs: *|cand-args:width-only(addrA->B | opA->B ...), one signature
          per target and width class, mnemonics listed in `what`)
      - i2.l == len(c)                                          (cand-length; with a memory operand:
          *|cand-length(mem=<address skeleton>), one signature per target and addressing shape)
Counted, not demanded: whether the original bytes are among the candidates (`original_among_candidates`).
"""
import collections
import gc
import json
import os
import subprocess
import sys

from mc import insngen as g
from mc.runner import violation

PROP = "C15"
LEVEL = "exploration"
ENGINE = "enum"
RULE = ("every element of the insngen lattices (curated vectors of test/arch, their single-bit flips, thorough: major-opcode "
        "byte substitutions, opcode-map cubes) that the decoder accepts, once per distinct decoded byte string; the decoded "
        "instruction is re-assembled and every candidate decoded again; non-trivial = the assembler proposed at least one "
        "candidate (so that at least one decode comparison took place)")
LEVEL_TEXT = ("Bounded-exhaustive over explicitly described encoding lattices: for every decodable element all assembler "
              "candidates are decoded and compared field by field with the instruction they were made from.")
LEVEL_NOTE = ("Not covered: encodings outside the lattices; instructions built by hand or by the parser rather than by the "
              "decoder (C16 covers parsed text); symbolic (label) operands. Trusted: expression equality of miasm.")
TECHNIQUE = "bounded-exhaustive enumeration of encoding lattices, decode -> assemble -> decode comparison"
ASSUMPTIONS = ["an instruction is 'decodable' when mn.dis returns without raising",
               "operands are compared with == on the decoded expressions (both sides come from the same decoder)"]

_T = g.TARGETS
_NAT = g.NATIVE
BOUNDS = {
    # quick: same shape as C14's quick tier (see there) plus SH4; x86 (asm costs 2-5 ms per instruction) gets two
    # prefixes per mode and no bit flips
    "quick": {
        "curated": _T,
        "bitflip": ["ppc32b", "msp430", "sh4"],
        "bytesub": [],
        "cube": g.cube_dims({
            "fixed32": {"lo": 1, "hi": 0, "stride": 64},
            "thumb": {"ext": 1, "stride": 64},
            "msp430": {"ext": 1, "stride": 64},
            "word16": {"ext": 1, "stride": 64},
            "sh4": {"ext": 1, "stride": 64},
            "x86": {"prefix": 2, "maps": 2, "second": 1, "tail": 1},
        }, _NAT),
        # prefix stacks whose order matters to the assembler: (none, FS) x 66 x 67 x (none, F3, F2) x (none, REX.W) in
        # front of string and mandatory-prefix SSE opcodes, memory and register ModRM
        "x86stack": dict((n, {"seg": 2, "opsz": 2, "adsz": 2, "mand": 3, "rex": 2, "ops": ("string", "sse"),
                              "modrm": 2}) for n in ("x86_32", "x86_64")),
        "shard": 512, "bundles": 16,
    },
    "thorough": {
        "curated": _T, "bitflip": _T, "bytesub": ["x86_16", "msp430", "sh4"],
        "cube": g.cube_dims({
            "fixed32": {"lo": 1, "hi": 0},
            "thumb": {"ext": 1},
            "msp430": {"ext": 1},
            "word16": {"ext": 1},
            "sh4": {"ext": 1},
            "x86": {"prefix": 7, "maps": 2, "second": 4, "tail": 2},
        }, _NAT),
        "x86stack": dict((n, {"seg": 4, "opsz": 2, "adsz": 2, "mand": 4, "rex": 2, "ops": ("string", "lock", "sse"),
                              "modrm": 3}) for n in ("x86_16", "x86_32", "x86_64")),
        "shard": 4096, "bundles": 96,
    },
}


def _txt(i):
    try:
        return " ".join(str(i).split())
    except Exception as e:
        return "%s <unprintable: %s>" % (i.name, type(e).__name__)


def _widths(e):
    """size of the operand and, for a memory operand, of its address"""
    return "%d[%d]" % (e.size, e.ptr.size) if e.is_mem() else str(e.size)


def _width_class(args, args2):
    """What differs between two operand lists that print identically: addrA->B (address width of a memory operand),
    memA->B (its access width), opA->B (width of a register / constant operand)."""
    out = set()
    for a, b in zip(args, args2):
        if a == b:
            continue
        if a.is_mem() and b.is_mem():
            if a.ptr.size != b.ptr.size:
                out.add("addr%d->%d" % (a.ptr.size, b.ptr.size))
            elif a.size != b.size:
                out.add("mem%d->%d" % (a.size, b.size))
            else:
                out.add("inner")
        elif a.size != b.size:
            out.add("op%d->%d" % (a.size, b.size))
        else:
            out.add("inner")
    return ",".join(sorted(out))


# kinds whose cause does not depend on the mnemonic: one signature per (target, kind), the mnemonics go to `what`
def _folded(kind):
    return kind.startswith("cand-args:width-only(") or kind.startswith("cand-length(mem=")


def judge(name, raw, first=None):
    """-> (counters, list of (kind, detail), instr)"""
    t, mn = g.env(name)
    cnt = collections.Counter()
    instr = first if first is not None else g.decode(name, raw)
    if instr is None:
        return cnt, [], None
    kinds = []
    try:
        cands = mn.asm(instr)
    except Exception as e:
        if isinstance(e, ValueError) and str(e).startswith("('cannot asm") or "cannot asm" in str(e):
            kinds.append(("asm:no-encoding", "asm proposes no encoding: %s" % str(e)[:120]))
        else:
            kinds.append(("asm:raise:" + type(e).__name__, "asm raised %s: %s" % (type(e).__name__, str(e)[:120])))
        cnt["asm_failed"] += 1
        return cnt, kinds, instr
    if not cands:
        cnt["asm_failed"] += 1
        return cnt, [("asm:no-encoding", "asm returned no candidate")], instr
    cnt["assembled"] += 1
    cnt["candidates"] += len(cands)
    if bytes(instr.b) in [bytes(c) for c in cands]:
        cnt["original_among_candidates"] += 1
    seen = set()
    for c in sorted(set(bytes(c) for c in cands), key=lambda b: (len(b), b)):
        k = None
        try:
            i2 = mn.dis(c, t.mode)
        except Exception as e:
            k = ("cand-undecodable:" + type(e).__name__, "candidate %s does not decode: %s" % (c.hex(), str(e)[:80]))
            i2 = None
        if i2 is not None:
            if i2.name != instr.name:
                k = ("cand-name", "candidate %s decodes to %s" % (c.hex(), _txt(i2)))
            elif i2.mode != instr.mode:
                k = ("cand-mode", "candidate %s decodes in mode %r, not %r" % (c.hex(), i2.mode, instr.mode))
            elif len(i2.args) != len(instr.args):
                k = ("cand-argcount", "candidate %s decodes to %s" % (c.hex(), _txt(i2)))
            elif list(i2.args) != list(instr.args):
                s1, s2 = [str(a) for a in i2.args], [str(a) for a in instr.args]
                if s1 == s2:        # same printed operands: only the width of a constant / address differs
                    k = ("cand-args:width-only(%s)" % _width_class(instr.args, i2.args),
                         "candidate %s decodes to %s: operand widths %s instead of %s" % (
                        c.hex(), _txt(i2), [_widths(a) for a in i2.args], [_widths(a) for a in instr.args]))
                else:
                    k = ("cand-args", "candidate %s decodes to %s (args %s vs %s)" % (c.hex(), _txt(i2), s1, s2))
            elif i2.l != len(c):
                mems = [g.skeleton(a.ptr) for a in instr.args if a.is_mem()]
                k = ("cand-length(mem=%s)" % mems[0] if mems else "cand-length",
                     "candidate %s (%d bytes) decodes with length %r" % (c.hex(), len(c), i2.l))
        if k is None:
            cnt["candidates_ok"] += 1
        elif k[0] not in seen:
            seen.add(k[0])
            kinds.append(k)
    if not kinds:
        cnt["roundtrip_ok"] += 1
    return cnt, kinds, instr


def violations_of(name, raw, first=None):
    cnt, kinds, instr = judge(name, raw, first)
    vs = []
    for kind, detail in kinds:
        mnemo = g.base_mnemonic(name, instr.name)
        sig = "%s|%s|%s" % (name, "*" if _folded(kind) else mnemo, kind)
        v = violation(sig, "%s %s (%s): %s" % (name, bytes(instr.b).hex(), _txt(instr), detail),
                      {"target": name, "raw": raw})
        if _folded(kind):
            v["mnemo"] = mnemo
        vs.append(v)
    return cnt, vs


def _shard(shard):
    g.quiet()
    name = shard[0]
    stats = {}
    counters = collections.Counter()
    best = {}
    sample = None
    for raw, instr in g.iter_shard(shard, stats):
        c, vs = violations_of(name, raw, instr)
        counters.update(c)
        if sample is None and c.get("roundtrip_ok") and c.get("candidates", 0) > 1:
            sample = {"target": name, "bytes": bytes(instr.b).hex(), "text": _txt(instr), "candidates": c["candidates"]}
        for v in vs:
            g.note_best(best, v, (len(instr.b), bytes(instr.b)))
    keys = stats.pop("_keys", [])
    return name, shard[1], stats, dict(counters), best, sample, keys


def _bundle(bundle):
    return [g.deep_call(_shard, s) for s in bundle]


def plan(tier, only=None):
    return g.make_plan(BOUNDS[tier], g.TARGETS, only)


# ---------------------------------------------------------------------------------------------------------
# history family: the assembler keeps module-level state (caches); an element is judged after other elements were
# assembled in the same process.  For the AArch64 logical-immediate instructions the same mask VALUE is assembled in
# the 32-bit and then the 64-bit form, and the other way round.  The family is evaluated serially in the parent,
# before anything else touched the architecture module; a case carries every element of the family that was assembled
# before it with the same mask value, so that a fresh process reproduces the state that matters.

_HIST_OPS = (("AND", 0), ("ORR", 1), ("EOR", 2), ("ANDS", 3))
_HIST_MASKS = [(k, sh) for k in (1, 2, 7, 8, 16, 31) for sh in (0, 1, 8, 15, 16) if k + sh <= 32]      # ones(k) << sh


def _a64_logimm(t, opc, sf, k, sh):
    """<op> Rd=3, Rn=7, #(ones(k) << sh) in the 32-bit (sf=0: N=0, element 32) or 64-bit (sf=1: N=1) form."""
    n, width = (1, 64) if sf else (0, 32)
    immr = (width - sh) % width
    return t.pack([sf << 31 | opc << 29 | 0x24 << 23 | n << 22 | immr << 16 | (k - 1) << 10 | 7 << 5 | 3])


def history_cases(name):
    """[(history raws, raw)] in evaluation order."""
    t = g.Target(name)
    out = []
    for idx, (k, sh) in enumerate(_HIST_MASKS):
        seen = []                       # everything assembled so far with this mask value
        for _nm, opc in _HIST_OPS:
            # 32-bit then 64-bit and 64-bit then 32-bit; which order meets the untouched state alternates per mask
            for first in ((0, 1) if idx % 2 == 0 else (1, 0)):
                h = _a64_logimm(t, opc, first, k, sh)
                x = _a64_logimm(t, opc, 1 - first, k, sh)
                out.append((list(seen) + [h], x))
                seen += [h, x]
    return out


def judge_with_history(name, history, raw):
    """Assemble the history (results ignored), then judge raw as usual."""
    t, mn = g.env(name)
    for h in history:
        try:
            i = g.decode(name, h)
            if i is not None:
                mn.asm(i)
        except Exception:
            pass
    cnt, kinds, instr = judge(name, raw)
    vs = []
    for kind, detail in kinds:
        sig = "%s|%s|after-history:%s" % (name, g.base_mnemonic(name, instr.name), kind)
        vs.append(violation(sig, "%s %s (%s) assembled after %s: %s" % (
            name, bytes(instr.b).hex(), _txt(instr), [h.hex() for h in history[-2:]], detail),
            {"target": name, "raw": raw, "history": list(history)}))
    return cnt, vs


def run_history_family(ctx):
    """Serial, in the parent, before anything else used the assembler.  Only aarch64l: both byte orders share the
    module state, and a case must carry everything that matters for it."""
    from mc.runner import jsonable
    counters = collections.Counter()
    name = "aarch64l"
    for history, raw in history_cases(name):
        # the earlier entries of `history` were assembled by the earlier cases of this loop
        cnt, vs = judge_with_history(name, history[-1:], raw)
        counters["history_cases"] += 1
        counters["history_assembled"] += cnt.get("assembled", 0)
        counters["history_ok"] += 0 if vs else 1
        for v in vs:
            v["case"]["history"] = jsonable(history)
            ctx.add_violations([v])
    return dict(counters)


def _reproduces(case, sig):
    """Does the case yield the signature when replayed alone in a fresh process?"""
    code = ("import sys, json\nsys.path.insert(0, %r)\nfrom mc import runner\nfrom checks import c15_asm_roundtrip as c\n"
            "case = runner.unjson(json.load(sys.stdin))\nprint('SIGS=' + json.dumps([v['sig'] for v in c.replay(case)]))\n"
            % os.path.dirname(os.path.dirname(os.path.abspath(__file__))))
    p = subprocess.run([sys.executable, "-c", code], input=json.dumps(case).encode(), stdout=subprocess.PIPE,
                       stderr=subprocess.DEVNULL, cwd=os.path.dirname(os.path.dirname(os.path.abspath(__file__))))
    for line in p.stdout.decode(errors="replace").splitlines():
        if line.startswith("SIGS="):
            return sig in json.loads(line[5:])
    return False


def drop_unreproducible(ctx, limit=20):
    """A violation found in a worker may depend on what that process assembled before (module-level assembler state).
    Every violation that would be printed (the first `limit` unregistered signatures, in the runner's order) is replayed
    alone in a fresh process first; those that do not reproduce are dropped and counted (the history family above is
    the place where history-dependent behaviour is judged, with the history in the case)."""
    from mc.runner import load_findings
    known = load_findings(PROP)
    by_sig = {}
    for v in ctx.violations:
        by_sig.setdefault(v["sig"], []).append(v)
    kept = dropped = 0
    for sig in sorted(by_sig):
        if sig in known:
            continue
        if kept >= limit:
            break
        if _reproduces(by_sig[sig][0]["case"], sig):
            kept += 1
        else:
            dropped += 1
            ctx.violations[:] = [v for v in ctx.violations if v["sig"] != sig]
    return dropped


def run(ctx):
    tier = "quick" if ctx.quick else "thorough"
    shards = plan(tier)
    g.env("aarch64l")
    g.quiet()
    hist = run_history_family(ctx)       # first: nothing else has used the assembler yet
    for name in g.TARGETS:               # import / warm every architecture before the pool forks
        raw = g.raw_of(name, "curated", g.curated(name)[0])
        judge(name, raw)
    g.quiet()
    gc.collect()
    gc.freeze()
    res = [r for rs in ctx.pmap(_bundle, g.bundles(shards, BOUNDS[tier]["bundles"])) for r in rs]
    bounds = dict(BOUNDS[tier], sizes=g.plan_sizes(BOUNDS[tier], g.TARGETS),
                  history_family={"ops": [o for o, _ in _HIST_OPS], "masks_ones_shift": _HIST_MASKS})
    cov = g.fold(ctx, res, bounds, nontrivial=lambda c: c.get("assembled", 0))
    cov.update(hist)
    cov["violations_dropped_not_reproducible_alone"] = drop_unreproducible(ctx)
    return cov


def replay(case):
    raw = case["raw"]
    if isinstance(raw, str):
        raw = bytes.fromhex(raw)
    g.env(case["target"])
    g.quiet()
    if case.get("history"):
        hist = [bytes.fromhex(h) if isinstance(h, str) else h for h in case["history"]]
        _c, vs = judge_with_history(case["target"], hist, raw)
        return vs
    _c, vs = violations_of(case["target"], raw)
    return vs
