"""C16 - instruction text parses back to the same instruction.

Engine E2 (bounded-exhaustive enumeration of the `insngen` encoding lattices).

Space: per target the `mc/insngen.py` sources with the truncations of BOUNDS.  `fromstring` (pyparsing) costs
5-30 ms per call, so the lattices are smaller than C14/C15's and the
judgement is made once per distinct printed text of a target (parse and assemble only see the text and the mode).

For every decodable element i = mn.dis(bytes, mode):
    s = str(i)                                   (decoded operands carry no labels, so no loc_db is needed to print)
    j = mn.fromstring(s, loc_db, mode)           (parse:raise:<Type>)
    str(j) == s                                  (reprint-differs)
    cands = mn.asm(j, loc_db) non empty          (asm-of-parsed:raise:<Type> / asm-of-parsed:no-encoding)
    some c in cands: str(mn.dis(c, mode)) == s   (no-encoding-prints-the-text)
Counted, not demanded: j.args == i.args, original bytes among the candidates.
"""
import collections
import gc

from mc import insngen as g
from mc.runner import violation

PROP = "C16"
LEVEL = "exploration"
ENGINE = "enum"
RULE = ("every element of the insngen lattices of BOUNDS (curated vectors, bit flips, cubes; index strides where the parser is "
        "slow) that the decoder accepts, judged once per distinct printed text of a target; non-trivial = the text was "
        "parsed back (so that the print and encode comparisons took place)")
LEVEL_TEXT = ("Bounded-exhaustive over explicitly described encoding lattices: every decodable element is printed, parsed "
              "back, printed again, assembled, and the candidates decoded and printed.")
LEVEL_NOTE = ("Not covered: texts that no decoded instruction of the lattice prints; operands with labels; the lattices are "
              "smaller than C15's because one parse costs 5-30 ms. Trusted: nothing beyond string equality.")
TECHNIQUE = "bounded-exhaustive enumeration of encoding lattices, decode -> print -> parse -> print/assemble/decode comparison"
ASSUMPTIONS = ["an instruction is 'decodable' when mn.dis returns without raising",
               "'prints identically' is exact string equality of str(instr)"]

_T = g.TARGETS
# "stride": {source kind: {target: n}} keeps only the indexes of that source that are multiples of n (a fixed, stated
# subset; 1 when absent).  One fromstring costs 5-30 ms (x86, aarch64, msp430 at the upper end).
BOUNDS = {
    "quick": {
        "curated": _T,
        "bitflip": ["arml"],
        "bytesub": [],
        "stride": {
            "curated": {"x86_16": 2, "x86_32": 16, "x86_64": 8, "aarch64l": 16, "aarch64b": 16, "armtl": 2, "armtb": 2,
                        "mepl": 8, "mepb": 8},
            "bitflip": {"arml": 8},
        },
        "cube": g.cube_dims({"word16": {"ext": 1, "stride": 256}}, ["mepb"]),
        # REP / REPE / REPNE / LOCK x 66 x 67 (x REX.W) in front of every string instruction and of the lockable
        # read-modify-write opcodes with a memory operand, all three modes
        "x86stack": dict((n, {"seg": 1, "opsz": 2, "adsz": 2, "mand": 4, "rex": 2, "ops": ("string", "lock"),
                              "modrm": 1}) for n in ("x86_16", "x86_32", "x86_64")),
        # constant generators / modified / sign-extended immediates x boundary constants (native byte orders)
        "specimm": dict((n, {"mode": "quick"}) for n in ("msp430", "arml", "armtl", "mips32b", "ppc32b", "aarch64l")),
        "shard": 128, "bundles": 32,
    },
    "thorough": {
        "curated": _T,
        "bitflip": ["x86_16", "x86_32", "x86_64", "arml", "armtl", "aarch64l", "mips32b", "ppc32b", "msp430", "mepb", "sh4"],
        "bytesub": [],
        "stride": {
            "bitflip": {"x86_32": 4, "x86_64": 2},
        },
        "cube": dict(g.cube_dims({"word16": {"ext": 1, "stride": 16}}, ["mepb"]),
                     **g.cube_dims({"fixed32": {"lo": 1, "hi": 0, "stride": 64},
                                    "thumb": {"ext": 1, "stride": 64},
                                    "msp430": {"ext": 1, "stride": 64},
                                    "sh4": {"ext": 1, "stride": 64}},
                                   ["arml", "armtl", "aarch64l", "mips32b", "ppc32b", "msp430", "sh4"])),
        "x86stack": dict((n, {"seg": 3, "opsz": 2, "adsz": 2, "mand": 4, "rex": 2, "ops": ("string", "lock", "sse"),
                              "modrm": 2}) for n in ("x86_16", "x86_32", "x86_64")),
        "specimm": dict((n, {"mode": "full"}) for n in g.SPECIMM_TARGETS),
        "shard": 128, "bundles": 160,
    },
}


def _txt(i):
    return " ".join(str(i).split())


def judge(name, raw, first=None, text_seen=None):
    """-> (counters, kinds, instr)"""
    from miasm.core.locationdb import LocationDB
    t, mn = g.env(name)
    cnt = collections.Counter()
    instr = first if first is not None else g.decode(name, raw)
    if instr is None:
        return cnt, [], None
    loc_db = LocationDB()
    try:
        s = str(instr)
    except Exception as e:
        cnt["print_raised:" + type(e).__name__] += 1     # printing is not part of C16's statement (it needs a text)
        return cnt, [], instr
    if text_seen is not None:
        if s in text_seen:
            cnt["text_already_judged"] += 1
            return cnt, [], instr
        text_seen.add(s)
    cnt["texts"] += 1
    try:
        j = mn.fromstring(s, loc_db, t.mode)
    except Exception as e:
        cnt["parse_failed"] += 1
        return cnt, [("parse:raise:" + type(e).__name__, "fromstring(%r) raised %s: %s" % (s, type(e).__name__, str(e)[:100]))], instr
    cnt["parsed"] += 1
    kinds = []
    try:
        s2 = str(j)
    except Exception as e:
        s2 = None
        kinds.append(("reprint:raise:" + type(e).__name__, "printing the parsed instruction raised %s" % e))
    if s2 is not None and s2 != s:
        kinds.append(("reprint-differs", "parsed instruction prints %r instead of %r" % (s2, s)))
    if list(j.args) == list(instr.args):
        cnt["parsed_args_equal_decoded"] += 1
    try:
        cands = mn.asm(j, loc_db)
    except Exception as e:
        if "cannot asm" in str(e):
            kinds.append(("asm-of-parsed:no-encoding", "asm of the parsed %r proposes no encoding" % s))
        else:
            kinds.append(("asm-of-parsed:raise:" + type(e).__name__, "asm of the parsed %r raised %s: %s" % (s, type(e).__name__, str(e)[:100])))
        return cnt, kinds, instr
    if not cands:
        kinds.append(("asm-of-parsed:no-encoding", "asm of the parsed %r returned no candidate" % s))
        return cnt, kinds, instr
    cnt["assembled"] += 1
    cands = sorted(set(bytes(c) for c in cands), key=lambda b: (len(b), b))
    if bytes(instr.b) in cands:
        cnt["original_among_candidates"] += 1
    ok = False
    other = None
    for c in cands:
        try:
            i2 = mn.dis(c, t.mode)
            s3 = str(i2)
        except Exception as e:
            other = other or "%s: %s" % (c.hex(), type(e).__name__)
            continue
        if s3 == s:
            ok = True
            break
        other = other or "%s: %r" % (c.hex(), s3)
    if not ok:
        kinds.append(("no-encoding-prints-the-text", "none of the %d encodings of the parsed %r decodes to that text (e.g. %s)" % (
            len(cands), s, other)))
    if not kinds:
        cnt["roundtrip_ok"] += 1
    return cnt, kinds, instr


def violations_of(name, raw, first=None, text_seen=None):
    cnt, kinds, instr = judge(name, raw, first, text_seen)
    vs = []
    for kind, detail in kinds:
        sig = "%s|%s|%s" % (name, g.base_mnemonic(name, instr.name), kind)
        vs.append(violation(sig, "%s %s: %s" % (name, bytes(instr.b).hex(), detail), {"target": name, "raw": raw}))
    return cnt, vs


def _shard(shard_and_stride):
    shard, stride = shard_and_stride
    g.quiet()
    name = shard[0]
    stats = {}
    counters = collections.Counter()
    best = {}
    sample = None
    seen = set()
    for idx, raw, instr in g.iter_shard_indexed(shard, stats, stride):
        c, vs = violations_of(name, raw, instr, seen)
        counters.update(c)
        if sample is None and c.get("roundtrip_ok") and instr.args:
            sample = {"target": name, "bytes": bytes(instr.b).hex(), "text": _txt(instr)}
        for v in vs:
            g.note_best(best, v, (len(instr.b), bytes(instr.b)))
    keys = stats.pop("_keys", [])
    return name, shard[1], stats, dict(counters), best, sample, keys


def _bundle(bundle):
    return [g.deep_call(_shard, s) for s in bundle]


def plan(tier, only=None):
    b = BOUNDS[tier]
    out = []
    for s in g.make_plan(b, g.TARGETS, only):
        stride = b.get("stride", {}).get(s[1], {}).get(s[0], 1)
        out.append((s, stride))
    return out


def run(ctx):
    tier = "quick" if ctx.quick else "thorough"
    items = plan(tier)
    for name in g.TARGETS:
        raw = g.raw_of(name, "curated", g.curated(name)[0])
        judge(name, raw)
    g.quiet()
    gc.collect()
    gc.freeze()
    stride_of = dict(((s[0], s[1]), st) for s, st in items)
    bundles = [[(s, stride_of[(s[0], s[1])]) for s in b] for b in g.bundles([s for s, _ in items], BOUNDS[tier]["bundles"])]
    res = [r for rs in ctx.pmap(_bundle, bundles) for r in rs]
    bounds = dict(BOUNDS[tier], sizes=g.plan_sizes(BOUNDS[tier], g.TARGETS))
    return g.fold(ctx, res, bounds, nontrivial=lambda c: c.get("parsed", 0))


def replay(case):
    raw = case["raw"]
    if isinstance(raw, str):
        raw = bytes.fromhex(raw)
    g.env(case["target"])
    g.quiet()
    _c, vs = violations_of(case["target"], raw)
    return vs
