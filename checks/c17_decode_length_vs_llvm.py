"""C17 - decoded instruction lengths agree with a reference disassembler (llvm-mc, LLVM 14).

Engine E2 (bounded-exhaustive enumeration of the `insngen` encoding lattices), reference decoder: `llvm-mc`.

Space: per target (x86 16/32/64, ARM l/b, Thumb l/b, AArch64 l/b, MIPS32 l/b, PPC32 b) the curated vectors of
/repo/test/arch/<arch>/arch.py (harvested with ast) and the opcode-map cubes of `mc/insngen.py` with the menu
truncations of BOUNDS: fixed-width ISAs all 2^16 high half-words x a low half-word menu, Thumb all 2^16 first
half-words x a second half-word menu, x86 prefix menu x {one-byte map, 0F map} x all 256 opcode bytes x ModRM menu x
tail menu; plus the x86 prefix-stack family "pfx" (stacks of 66h / 67h x REX byte x every opcode with an operand-size- or
address-size-dependent immediate / relative / moffs operand x ModRM-SIB-disp forms, see PFX_*) and the ARM / Thumb
register-field family "regs" (Thumb-2 load/store/preload space F800..F9FF and the ARM unconditional preload/hint rows:
every Rn x every Rt x a few offset forms, see REGS_*).
Every element miasm decodes (mn.dis(bytes, mode) returns) is taken once per distinct decoded byte string.

Oracle (the property statement).  For a decoded instruction of length L exactly the L bytes are handed to
`llvm-mc --disassemble -show-encoding` as one *atomic block* `[0x.. 0x..]` (the reference decoder cannot read past the
block; after an undecodable byte the rest of a block is skipped).  Every case block is followed by a sentinel block
(one fixed instruction of the target, three candidates per target, never one whose bytes occur in a case of the batch)
so that stdout, which carries no positions, is cut into per-case segments; the number of segments must equal the number
of cases (anything else is a harness error, never a verdict); stderr carries `line:col` per diagnostic.  The case
agrees iff its segment holds exactly one instruction and no "invalid instruction encoding" diagnostic was issued for
its line: then the reference decoded one valid instruction that consumed exactly L bytes.
  * "potentially undefined instruction encoding" (LLVM's SoftFail for UNPREDICTABLE operand combinations) still yields
    a decoded instruction: counted (`ref_soft_fail`), not demanded.
  * x86: LLVM returns some prefix bytes as instructions of their own (a leading LOCK always, XACQUIRE/XRELEASE, REX64,
    DATA16 ...; llvm-mc prints them on separate lines).  Leading prefix lines are joined with the instruction that follows
    them; prefix lines with nothing behind them are no instruction.
  * Thumb: LLVM keeps the IT-block state across blocks; four `mov r8, r8` before every sentinel drain it, so that every
    case is decoded in the same clean state whatever precedes it (replay of a single case gives the same verdict).
  * big-endian ARM / Thumb / AArch64: LLVM reads instruction units little-endian (BE8), miasm big-endian (BE32): swapped.
A disagreeing case is classified in a second reference run on the prefixes raw[:n] (n = 1..15 for x86, {2, 4} for
Thumb): the smallest n that gives one valid instruction is the reference length (kind `length-differs`), none gives
kind `ref-invalid`.

Signature = target | kind | miasm mnemonic | opcode class (see opclass()).
"""
import collections
import re
import shutil
import subprocess

from mc import insngen as g
from mc.runner import violation

PROP = "C17"
LEVEL = "exploration"
ENGINE = "enum"
RULE = ("every element of the insngen lattices (curated vectors of test/arch; opcode-map cubes: all 2^16 opcode "
        "half-words x operand half-word menu for ARM/Thumb/AArch64/MIPS32/PPC, prefix menu x one-byte/0F map x all 256 "
        "opcode bytes x ModRM menu x tail menu for x86, and stacks of 66h/67h x REX x every Iz/Iv/Jz/moffs opcode x ModRM "
        "forms; every Rn x every Rt of the Thumb-2 load/store/preload space and of the ARM preload/hint rows x offset menu) "
        "that miasm decodes, once per distinct decoded byte string "
        "(instr.b) per target and shard; its L bytes go to llvm-mc as one atomic block; non-trivial = miasm decoded the "
        "element, so that one comparison with the reference decoder took place")
LEVEL_TEXT = ("Bounded-exhaustive over explicitly described encoding lattices: the complete major-opcode axis of every "
              "listed architecture (16 opcode bits of the fixed-width ISAs and of Thumb, every first opcode byte of the "
              "x86 one-byte and 0F maps under 5-7 prefixes) is crossed with operand menus, and every element miasm decodes "
              "is compared with LLVM 14's decoder: a valid instruction of the same length must exist at that position.")
LEVEL_NOTE = ("Trusted base: LLVM 14's decoder tables (llvm-mc --disassemble) with the feature sets of LLVM_TARGETS - a reserved "
              "encoding LLVM accepts, or an extension LLVM lacks, shifts the verdict accordingly; llvm-mc prints a lone x86 "
              "prefix byte (lock, rep, data16 ...) as an instruction of its own, which is taken as LLVM's answer. "
              "Not covered: operand-field combinations outside the menus (low half-words, ModRM/SIB/tail bytes), x86 0F38/0F3A "
              "and VEX/EVEX maps beyond what the menus reach, stacks of several prefixes other than 66h/67h + REX on the "
              "immediate-carrying opcodes (family pfx), what the instruction *means* (only "
              "validity and length are compared); MSP430 / MeP / SH4 are outside the property.")
TECHNIQUE = "bounded-exhaustive enumeration of opcode-map cubes, differential length/validity comparison against llvm-mc"
ASSUMPTIONS = ["an instruction is 'decoded by miasm' when mn.dis returns without raising; its length is instr.l",
               "decode candidates are tried in definition order (miasm iterates a set of classes, i.e. in an address-dependent "
               "order, and returns the first alias): fixes which alias mnemonic names an encoding, not its length",
               "llvm-mc 14 (--disassemble, atomic blocks) is the reference decoder; an instruction it prints without an "
               "'invalid instruction encoding' diagnostic is valid, 'potentially undefined' (SoftFail) included",
               "big-endian ARM / Thumb / AArch64: miasm reads big-endian instruction units (BE32), LLVM's armv7eb / "
               "thumbv7eb / aarch64_be disassemblers read them little-endian (BE8): units are byte-swapped for LLVM"]

TARGETS = ["x86_16", "x86_32", "x86_64", "arml", "armb", "armtl", "armtb", "aarch64l", "aarch64b",
           "mips32l", "mips32b", "ppc32b"]

# target -> (llvm-mc arguments, swap the 16/32-bit units before handing them to llvm, sentinel candidates (bytes as llvm
# reads them)).  llvm-mc's big-endian ARM / Thumb / AArch64 disassemblers read instructions little-endian (BE8 data
# model; probed), miasm's "b" modes read them big-endian (BE32): the units are byte-swapped for the reference.
_ARM_ATTR = "-mattr=+neon,+vfp4,+fp16,+mp,+virtualization,+trustzone,+hwdiv,+hwdiv-arm,+crc,+crypto,+dsp"
_A64_ATTR = "-mattr=+v8.5a,+crypto,+fp-armv8,+neon,+fullfp16,+sve"
LLVM_TARGETS = {
    "x86_16": (["-triple=i386-unknown-unknown-code16"], False,
               ["b8115e", "bb22a5", "b933c7"]),
    "x86_32": (["-triple=i386-unknown-unknown"], False, ["b8115e47a5", "bb22a558c3", "b933c769d1"]),
    "x86_64": (["-triple=x86_64-unknown-unknown"], False, ["b8115e47a5", "bb22a558c3", "b933c769d1"]),
    "arml": (["-triple=armv7-unknown-unknown", _ARM_ATTR], False, ["5e1705e3", "a52306e3", "c73907e3"]),
    "armb": (["-triple=armv7eb-unknown-unknown", _ARM_ATTR], True, ["5e1705e3", "a52306e3", "c73907e3"]),
    "armtl": (["-triple=thumbv7-unknown-unknown", _ARM_ATTR], False, ["45f64765", "4af22356", "4cf23977"]),
    "armtb": (["-triple=thumbv7eb-unknown-unknown", _ARM_ATTR], True, ["45f64765", "4af22356", "4cf23977"]),
    "aarch64l": (["-triple=aarch64-unknown-unknown", _A64_ATTR], False, ["c5eb8bd2", "a6b494d2", "27e798d2"]),
    "aarch64b": (["-triple=aarch64_be-unknown-unknown", _A64_ATTR], True, ["c5eb8bd2", "a6b494d2", "27e798d2"]),
    "mips32l": (["-triple=mipsel-unknown-unknown", "-mcpu=mips32r2"], False, ["5e170534", "a5230634", "c7390734"]),
    "mips32b": (["-triple=mips-unknown-unknown", "-mcpu=mips32r2"], False, ["3405175e", "340623a5", "340739c7"]),
    "ppc32b": (["-triple=powerpc-unknown-unknown", "-mcpu=pwr9"], False, ["38a0175e", "38c023a5", "38e039c7"]),
}

# LLVM's Thumb decoder keeps the IT-block state across blocks: a case that LLVM reads as IT would make the next (up to 4)
# instructions conditional, sentinel and following cases included.  Every Thumb case is therefore followed by four
# `mov r8, r8` (valid inside and outside IT blocks) that drain the state before the sentinel, so that every case is
# decoded in the same clean state, whatever precedes it in the batch.  Their output lines are cut off the segment.
FLUSH = {"armtl": bytes.fromhex("c046") * 4, "armtb": bytes.fromhex("c046") * 4}

_NAT = [t for t in g.NATIVE if t in TARGETS]
_SWP = [t for t in g.SWAPPED if t in TARGETS]
BOUNDS = {
    # quick (sized for a machine whose load is 5-10x its cores): curated vectors of every target; cubes for one byte
    # order per architecture with the completely enumerated 16-bit axis restricted to the multiples of 8 (the 3 low bits
    # of that half-word - an operand field - stay 0) and one operand half-word; x86: every prefix x both maps x all 256
    # opcodes x 2 ModRM bytes x 1 tail.
    "quick": {
        "curated": TARGETS, "bitflip": [], "bytesub": [],
        "cube": g.cube_dims({"fixed32": {"lo": 1, "hi": 0, "stride": 8}, "thumb": {"ext": 1, "stride": 8},
                             "x86": {"prefix": 7, "maps": 2, "second": 2, "tail": 1}}, _NAT),
        # prefix stacks {none, 66, 67, 66 67, 67 66} x REX {none, 40, 48, 4C, 4F} (64-bit mode) x Iz/Iv/Jz/moffs opcodes
        "pfx": dict((t, {"rex": 5, "modrm": 6, "tail": 1}) for t in ("x86_16", "x86_32", "x86_64")),
        # every Rn x every Rt of the Thumb-2 load/store/preload space (F800..F9FF) and of the ARM preload/hint rows
        "regs": {"armtl": {"low": 3}, "armtb": {"low": 2}, "arml": {"ops": 18, "low": 2}, "armb": {"ops": 18, "low": 1}},
        "shard": 2048, "bundles": 8,
    },
    # thorough: complete 16-bit opcode axis x 4 operand half-words (the other byte order: x 1), x86 with the complete
    # ModRM menu (16) x 4 tails.
    "thorough": {
        "curated": TARGETS, "bitflip": [], "bytesub": [],
        "cube": dict(
            g.cube_dims({"fixed32": {"lo": 4, "hi": 0}, "thumb": {"ext": 4},
                         "x86": {"prefix": 7, "maps": 2, "second": 16, "tail": 4}}, _NAT),
            **g.cube_dims({"fixed32": {"lo": 1, "hi": 0}, "thumb": {"ext": 1}}, _SWP)),
        # the same with every REX byte (none, 40..4F), the complete ModRM menu and 2 tails
        "pfx": dict((t, {"rex": 17, "modrm": 10, "tail": 2}) for t in ("x86_16", "x86_32", "x86_64")),
        "regs": {"armtl": {"low": 6}, "armtb": {"low": 3}, "arml": {"ops": 65, "low": 4}, "armb": {"ops": 65, "low": 2}},
        "shard": 8192, "bundles": 48,
    },
}

MAXLEN = 15


# ---------------------------------------------------------------------------------------------------------------
# x86 prefix-stack family ("pfx"): the cube of insngen puts ONE prefix byte in front of an opcode.  The width of an
# immediate / relative / moffs operand depends on the *combination* of 66h, 67h and REX.W (64-bit mode: REX.W beats 66h),
# so this family crosses stacks of legacy prefixes with a REX byte on every opcode that carries an operand-size- or
# address-size-dependent immediate, with a few ModRM / SIB / displacement forms.
PFX_LEGACY = [b"", b"\x66", b"\x67", b"\x66\x67", b"\x67\x66"]
PFX_REX = [None, 0x40, 0x48, 0x4C, 0x4F,                      # quick: none, no bit, W, WR, WRXB
           0x49, 0x4A, 0x4B, 0x4D, 0x4E, 0x41, 0x42, 0x44, 0x45, 0x47, 0x43, 0x46]
# opcodes without ModRM: Iz accumulator forms, PUSH Iz, MOV r, Iv, CALL/JMP Jz, MOV moffs, Jcc Jz, ENTER, RET Iw
PFX_PLAIN = ([bytes([o]) for o in (0x05, 0x0D, 0x15, 0x1D, 0x25, 0x2D, 0x35, 0x3D, 0xA9, 0x68)]
             + [bytes([o]) for o in range(0xB8, 0xC0)]
             + [bytes([o]) for o in (0xE8, 0xE9, 0xA0, 0xA1, 0xA2, 0xA3, 0xC8, 0xC2)]
             + [bytes([0x0F, o]) for o in range(0x80, 0x90)])
# opcodes with ModRM: IMUL Gv,Ev,Iz; group 1 Ev,Iz; MOV Ev,Iz; group 3 (TEST Ev,Iz); IMUL Ib and group 1 Ib as contrast
PFX_MODRM = [b"\x69", b"\x81", b"\xC7", b"\xF7", b"\x6B", b"\x83"]
# ModRM menu: [reg], register, disp32 / rip-relative (16-bit addressing: [di]), SIB, SIB+disp8, disp32, reg field 7
PFX_MODRM_MENU = [0x00, 0xC0, 0x05, 0x04, 0x44, 0x80, 0x38, 0xF8, 0x06, 0x46]
PFX_TAILS = [bytes([0x25, 0x11, 0x22, 0x33, 0x44, 0x55, 0x66, 0x77, 0x88, 0x99, 0xAA, 0xBB, 0xCC, 0xDD]),
             bytes([0xE5, 0xFF, 0xFF, 0xFF, 0x7F, 0x00, 0x00, 0x00, 0x80, 0x01, 0x02, 0x03, 0x04, 0x05])]


class PfxSource(object):
    """insngen-compatible source (n, group, item): legacy stack x REX x (opcode [x ModRM]) x tail, leading bytes major."""

    def __init__(self, name, dims):
        t = g.Target(name)
        self.name, self.kind = name, "pfx"
        rex = PFX_REX[:dims["rex"]] if t.mode == 64 else [None]
        bodies = list(PFX_PLAIN) + [op + bytes([m]) for op in PFX_MODRM for m in PFX_MODRM_MENU[:dims["modrm"]]]
        tails = PFX_TAILS[:dims["tail"]]
        self.items = [leg + (b"" if r is None else bytes([r])) + body + tail
                      for leg in PFX_LEGACY for r in rex for body in bodies for tail in tails]
        self.n, self.group = len(self.items), len(tails)
        self.item = self.items.__getitem__


# ---------------------------------------------------------------------------------------------------------------
# ARM / Thumb register-field family ("regs"): the cubes cross the opcode half-word with a handful of operand half-words,
# so only a few (Rn, Rt) pairs occur.  "Unallocated" encodings live exactly where PC / SP sit in a register field, so
# for the load / store / preload spaces every Rn x every Rt is enumerated with a few offset forms:
#   Thumb-2: hw0 = F800..F9FF (STR* / LDR* / LDRS* / PLD / PLDW / PLI: 32 opcodes x 16 Rn), hw1 = Rt(16) : low12 menu
#            (imm12 forms, and the imm8 forms 1PUW:imm8, the register form 000000:imm2:Rm, the T variant 1110:imm8);
#   ARM:     unconditional space cond=1111, bits 27:20 from REGS_ARM_OPS (PLD / PLDW / PLI immediate and register forms
#            first, then CLREX/DSB/DMB/ISB and CPS/SETEND rows, thorough: all of 0x40..0x7F) x 16 Rn x 16 Rd x low12 menu.
REGS_THUMB_LOW = [0xFFF, 0x000, 0xC04, 0x900, 0xE01, 0x02F]
REGS_ARM_OPS = ([0x41 + 4 * i for i in range(16)] + [0x57, 0x10]
                + [o for o in range(0x40, 0x80) if o & 3 != 1 and o != 0x57])
REGS_ARM_LOW = [0xFFF, 0x000, 0x06F, 0x05F]


class RegSource(object):
    """insngen-compatible source (n, group, item), leading bytes major."""

    def __init__(self, name, dims):
        t = g.Target(name)
        self.name, self.kind = name, "regs"
        self.t = t
        if t.kind == "thumb":
            self.low = REGS_THUMB_LOW[:dims["low"]]
            self.heads = list(range(0xF800, 0xFA00))
        else:
            self.low = REGS_ARM_LOW[:dims["low"]]
            self.heads = [0xF000 | (op << 4) | rn for op in REGS_ARM_OPS[:dims["ops"]] for rn in range(16)]
        self.group = 16 * len(self.low)
        self.n = len(self.heads) * self.group

    def item(self, i):
        h, r = divmod(i, self.group)
        rt, l = divmod(r, len(self.low))
        lo = (rt << 12) | self.low[l]
        if self.t.kind == "thumb":
            return self.t.pack([self.heads[h], lo])
        return self.t.pack([(self.heads[h] << 16) | lo])


LOCAL_SOURCES = {"pfx": PfxSource, "regs": RegSource}


def local_source(kind, name, dims):
    """Registers a family of this module under insngen's source cache, so that g.shards / g.iter_shard_indexed serve it."""
    key = ("src", name, kind, tuple(sorted(dims.items())))
    if key not in g._cache:
        g._cache[key] = LOCAL_SOURCES[kind](name, dims)
    return g._cache[key]


def local_shards(tier, only=None):
    out = []
    for kind in sorted(LOCAL_SOURCES):
        for name in TARGETS:
            dims = BOUNDS[tier][kind].get(name)
            if dims is None or (only and name not in only):
                continue
            local_source(kind, name, dims)
            out += g.shards(name, kind, dims, BOUNDS[tier]["shard"])
    return out


# ---------------------------------------------------------------------------------------------------------------
# the reference decoder

_llvm = {}


def llvm_mc():
    if "exe" not in _llvm:
        exe = shutil.which("llvm-mc-14") or shutil.which("llvm-mc")
        if not exe:
            raise RuntimeError("llvm-mc (LLVM 14) is not installed: C17 has no reference decoder")
        _llvm["exe"] = exe
    return _llvm["exe"]


_WARN = re.compile(r"^(?:<stdin>|-):(\d+):(\d+): warning: (.*)$")


def _run_llvm(target, text):
    args = [llvm_mc(), "--disassemble", "-show-encoding"] + LLVM_TARGETS[target][0]
    p = subprocess.run(args, input=text.encode(), stdout=subprocess.PIPE, stderr=subprocess.PIPE)
    if p.returncode not in (0, 1):
        raise RuntimeError("llvm-mc failed (rc=%r): %s" % (p.returncode, p.stderr[-300:]))
    out = [l.strip() for l in p.stdout.decode(errors="replace").splitlines() if "encoding: [" in l]
    warns = []
    for l in p.stderr.decode(errors="replace").splitlines():
        m = _WARN.match(l)
        if m:
            warns.append((int(m.group(1)), int(m.group(2)), m.group(3)))
        elif ": error:" in l:
            raise RuntimeError("llvm-mc error: " + l)
    return out, warns


def _block(b):
    return "[" + " ".join("0x%02x" % c for c in b) + "]\n"


def to_ref(target, b):
    """The bytes as the reference decoder must be given them."""
    if LLVM_TARGETS[target][1]:
        return g.Target(target).swap_units(b)
    return b


def ref_run(target, blocks):
    """blocks: byte strings (already in the reference's byte order). -> per block (n_instructions, invalid_col,
    soft, [instruction texts]); invalid_col = column of the 'invalid instruction encoding' diagnostic or None."""
    if not blocks:
        return []
    usable = [bytes.fromhex(x) for x in LLVM_TARGETS[target][2]]
    usable = [sb for sb in usable if not any(sb in b for b in blocks)]
    if not usable:
        if len(blocks) == 1:
            raise RuntimeError("every sentinel candidate of %s occurs in the case %s" % (target, blocks[0].hex()))
        h = len(blocks) // 2
        return ref_run(target, blocks[:h]) + ref_run(target, blocks[h:])
    nflush = len(FLUSH.get(target, b"")) // 2
    err = None
    for sb in usable:
        sline = (_block(FLUSH[target]).rstrip("\n") + " " if nflush else "") + _block(sb)
        # line 1 is the sentinel alone (its printed form is read off the output), then 2 lines per case
        out, warns = _run_llvm(target, _block(sb) + "".join(_block(b) + sline for b in blocks))
        if not out:
            raise RuntimeError("llvm-mc printed nothing for %s" % target)
        stext = out[0]
        segs = [[]]
        for l in out[1:]:
            if l == stext:
                if nflush:
                    del segs[-1][-nflush:]
                segs.append([])
            else:
                segs[-1].append(l)
        if len(segs) == len(blocks) + 1 and not segs[-1]:
            break
        # a case printed the same text as the sentinel (another encoding of it): try the next sentinel
        err = "llvm-mc output of %s is not aligned with the cases: %d segments for %d cases" % (
            target, len(segs) - 1, len(blocks))
    else:
        raise RuntimeError(err)
    inval = {}
    soft = set()
    for line, col, msg in warns:
        if line % 2 == 1:
            raise RuntimeError("llvm-mc diagnostic on a sentinel line of %s: %r" % (target, (line, col, msg)))
        i = (line - 2) // 2
        if msg.startswith("invalid instruction encoding"):
            inval.setdefault(i, col)
        elif msg.startswith("potentially undefined"):
            soft.add(i)
        else:
            raise RuntimeError("unknown llvm-mc diagnostic: %r" % msg)
    res = []
    x86 = target.startswith("x86")
    for i in range(len(blocks)):
        seg = segs[i]
        n = len(seg)
        if x86 and n > 1:
            # leading stand-alone prefix pseudo-instructions belong to the instruction that follows them
            k = 0
            while k < n - 1 and _mnemo(seg[k]) in X86_PREFIX_PSEUDO:
                k += 1
            n -= k
        if x86 and n == 1 and _mnemo(seg[-1]) in X86_PREFIX_PSEUDO:
            n = 0                      # prefix bytes with nothing behind them: no instruction
        res.append((n, inval.get(i), i in soft, seg))
    return res


# LLVM's x86 decoder returns some prefix bytes as MCInsts of their own (a leading LOCK always; F2/F3 before
# LOCK/XCHG/MOV as XACQUIRE/XRELEASE; prefixes it cannot attach otherwise) and llvm-mc prints each on its own line.
# They are part of the instruction that follows (one architectural instruction), never an instruction by themselves.
X86_PREFIX_PSEUDO = frozenset(["lock", "rep", "repe", "repz", "repne", "repnz", "xacquire", "xrelease", "data16", "data32",
                               "addr16", "addr32", "rex64", "cs", "ds", "es", "fs", "gs", "ss", "notrack"])


def _mnemo(line):
    """'lock' for a line that consists of prefix names only ("lock", "lock<TAB>lock" = 66 F0 ...), else the text"""
    toks = line.split("#")[0].split()
    if toks and all(t in X86_PREFIX_PSEUDO for t in toks):
        return toks[0]
    return " ".join(toks)


def agrees(r):
    """exactly one valid instruction, and it consumed the whole block"""
    return r[0] == 1 and r[1] is None


# ---------------------------------------------------------------------------------------------------------------
# signatures

_X86_LEGACY = frozenset([0x66, 0x67, 0xF2, 0xF3, 0xF0, 0x2E, 0x36, 0x3E, 0x26, 0x64, 0x65])


def opclass(target, b):
    """Masked-opcode class of the decoded bytes b (in miasm's byte order)."""
    t = g.Target(target)
    if t.kind == "x86":
        i = 0
        mand = ""
        nrex = 0
        while i < len(b) - 1 and (b[i] in _X86_LEGACY or (t.mode == 64 and 0x40 <= b[i] <= 0x4F)):
            if b[i] in (0x66, 0xF2, 0xF3):
                mand = "66:" if b[i] == 0x66 else "rep:"     # the last of these selects the instruction in the 0F maps
            if 0x40 <= b[i] <= 0x4F:
                nrex += 1
            i += 1
        if nrex > 1:
            return "rex+rex"                   # several REX prefixes (LLVM 14 rejects them unless identical)
        if b[i] == 0x0F and i + 1 < len(b):
            if b[i + 1] in (0x38, 0x3A) and i + 2 < len(b):
                return mand + "0f%02x%02x" % (b[i + 1], b[i + 2])
            return mand + "0f%02x" % b[i + 1]
        return "%02x" % b[i]
    if t.kind == "thumb":
        h = int.from_bytes(b[:2], "little" if t.order == "l" else "big")
        if len(b) == 2:
            return "t16:%02x" % (h >> 11 << 3)             # top 5 bits
        return "t32:%03x" % (h >> 9 << 1)                  # top 7 bits of the first half-word
    w = int.from_bytes(b[:4], "little" if t.order == "l" else "big")
    if t.testdir == "arm":
        if w >> 28 == 0xF:
            return "uncond:%02x" % ((w >> 20) & 0xFF)
        return "%x" % ((w >> 24) & 0xF)                    # bits 27:24 (condition ignored)
    if t.testdir == "aarch64":
        return "%02x" % ((w >> 24) & 0x1F)                 # bits 28:24
    if t.testdir == "mips32":
        op = w >> 26
        if op in (0, 0x1C, 0x1F):
            return "%02x/%02x" % (op, w & 0x3F)            # SPECIAL / SPECIAL2 / SPECIAL3: function field
        if op in (0x10, 0x11, 0x12, 0x13):
            return "%02x/rs%02x" % (op, (w >> 21) & 0x1F)  # COPz: rs field
        return "%02x" % op
    if t.testdir == "ppc32":
        return "%02d" % (w >> 26)                          # primary opcode
    raise ValueError(target)


def deterministic(target):
    """cls_mn.guess_mnemo returns its candidates in the iteration order of a *set of classes* (hash = address), and dis()
    returns the first alias among several decodable candidates (aarch64 `SUBS WZR, WZR, ..` is CMP or NEGS): the mnemonic
    of such an encoding changes from process to process.  Signatures carry the mnemonic, so the candidates are put in
    definition order (mn.all_mn) - one of the orders miasm itself may use; lengths do not depend on it."""
    t, mn = g.env(target)
    if mn.__dict__.get("_c17_sorted"):
        return
    order = dict((c, i) for i, c in enumerate(mn.all_mn))
    orig = mn.guess_mnemo.__func__

    def guess_mnemo(cls, bs, attrib, pre_dis_info, offset):
        return sorted(orig(cls, bs, attrib, pre_dis_info, offset), key=lambda c: order.get(c, len(order)))
    mn.guess_mnemo = classmethod(guess_mnemo)
    mn._c17_sorted = True


def base_mnemonic(target, name):
    """miasm mnemonic without the ARM condition code (suffix, or infix of LDC<c>L / STC<c>L)"""
    b = g.base_mnemonic(target, name)
    if b == name and g.Target(target).testdir == "arm" and len(name) == 6 and name[:3] in ("LDC", "STC") \
            and name[5] == "L" and name[3:5] in g._COND:
        return name[:3] + "L"
    return b


def _txt(i):
    try:
        return " ".join(str(i).split())
    except Exception as e:
        return "%s <unprintable: %s>" % (i.name, type(e).__name__)


# ---------------------------------------------------------------------------------------------------------------
# judging a list of decoded cases of one target

def classify(target, cases, results):
    """cases: [(raw, L, mnemonic)], results: ref_run of raw[:L]. -> {case index: (kind, ref_len or None, ref texts)}
    for the disagreeing cases (second reference run on the prefixes of raw)."""
    bad = [i for i, r in enumerate(results) if not agrees(r)]
    if not bad:
        return {}
    t = g.Target(target)
    probes = []
    for i in bad:
        raw, L, _mn = cases[i]
        if t.kind == "x86":
            ns = [n for n in range(1, min(MAXLEN, len(raw)) + 1) if n != L]
        elif t.kind == "thumb":
            ns = [n for n in (2, 4) if n != L and n <= len(raw)]
        else:
            ns = []
        for n in ns:
            probes.append((i, n))
    res2 = ref_run(target, [to_ref(target, cases[i][0][:n]) for i, n in probes])
    reflen = {}
    reftxt = {}
    for (i, n), r in zip(probes, res2):
        if agrees(r) and (i not in reflen or n < reflen[i]):
            reflen[i] = n
            reftxt[i] = r[3]
    out = {}
    for i in bad:
        if i in reflen:
            out[i] = ("length-differs", reflen[i], reftxt[i])
        else:
            out[i] = ("ref-invalid", None, results[i][3])
    return out


def judge_cases(target, cases):
    """cases: [(raw, L, mnemonic)] -> (counters, [(case index, kind, ref_len, ref texts)])"""
    cnt = collections.Counter()
    blocks = [to_ref(target, raw[:L]) for raw, L, _mn in cases]
    short = [i for i, (raw, L, _mn) in enumerate(cases) if L > len(raw) or L <= 0]
    if short:
        raise RuntimeError("miasm reported a length outside the bytes it was given: %r" % (cases[short[0]],))
    results = ref_run(target, blocks)
    cnt["compared"] += len(cases)
    cnt["ref_soft_fail"] += sum(1 for r in results if r[2])
    cls = classify(target, cases, results)
    cnt["agree"] += len(cases) - len(cls)
    out = []
    for i in sorted(cls):
        kind, rl, txt = cls[i]
        cnt[kind] += 1
        out.append((i, kind, rl, txt))
    return cnt, out


def make_violation(target, raw, L, instr, kind, rl, reftxt):
    b = bytes(raw[:L])
    mnemo = base_mnemonic(target, instr.name)
    sig = "%s|%s|%s|%s" % (target, kind, mnemo, opclass(target, b))
    ref = "; ".join(" ".join(x.split("encoding: [")[0].rstrip(" \t#@/").split()) for x in reftxt) or "-"
    if kind == "ref-invalid":
        what = "%s %s: miasm decodes '%s' (length %d), llvm-mc %s finds no valid instruction there (decoded: %s)" % (
            target, b.hex(), _txt(instr), L, " ".join(LLVM_TARGETS[target][0]), ref)
    else:
        what = "%s %s: miasm decodes '%s' with length %d, llvm-mc %s decodes %s = '%s' with length %d" % (
            target, bytes(raw[:max(L, rl)]).hex(), _txt(instr), L, " ".join(LLVM_TARGETS[target][0]),
            bytes(raw[:rl]).hex(), ref, rl)
    return violation(sig, what, {"target": target, "raw": bytes(raw)})


BATCH = 10000          # cases per llvm-mc run (2 input lines per case)


def _bundle(bundle):
    """Shards of one bundle: decode everything with miasm first, then one reference run per target and <= BATCH cases."""
    g.quiet()
    out = []
    pending = {}           # target -> [(result index, raw, L, instr)]
    for shard in bundle:
        name = shard[0]
        deterministic(name)
        if shard[1] in LOCAL_SOURCES:
            local_source(shard[1], name, shard[2])
        stats = {}
        counters = collections.Counter()
        idx = len(out)
        pend = pending.setdefault(name, [])
        for _i, raw, instr in g.iter_shard_indexed(shard, stats):
            pend.append((idx, raw, instr.l, instr))
            counters["len%d" % instr.l] += 1
        keys = stats.pop("_keys", [])
        out.append([name, shard[1], stats, counters, {}, None, keys])
    for name in sorted(pending):
        pend = pending[name]
        for lo in range(0, len(pend), BATCH):
            part = pend[lo:lo + BATCH]
            cnt, bad = judge_cases(name, [(raw, L, instr.name) for _x, raw, L, instr in part])
            out[part[0][0]][3].update(cnt)
            badset = set(b[0] for b in bad)
            for j, (idx, raw, L, instr) in enumerate(part):
                if out[idx][5] is None and j not in badset and L > 1:
                    out[idx][5] = {"target": name, "bytes": bytes(raw[:L]).hex(), "text": _txt(instr), "length": L}
            for j, kind, rl, txt in bad:
                idx, raw, L, instr = part[j]
                v = make_violation(name, raw, L, instr, kind, rl, txt)
                k = (L, bytes(raw[:L]))
                best = out[idx][4]
                cur = best.get(v["sig"])
                if cur is None:
                    best[v["sig"]] = [k, v, 1]
                else:
                    cur[2] += 1
                    if k < cur[0]:
                        cur[0], cur[1] = k, v
    return [(r[0], r[1], r[2], dict(r[3]), r[4], r[5], r[6]) for r in out]


def _work(bundle):
    return g.deep_call(_bundle, bundle)


def plan(tier, only=None):
    return g.make_plan(BOUNDS[tier], TARGETS, only) + local_shards(tier, only)


def run(ctx):
    tier = "quick" if ctx.quick else "thorough"
    llvm_mc()
    shards = plan(tier)
    # no warm-up in the parent: every worker imports the architectures of its own bundles (a bundle holds one family)
    res = [r for rs in ctx.pmap(_work, g.bundles(shards, BOUNDS[tier]["bundles"])) for r in rs]
    sizes = g.plan_sizes(BOUNDS[tier], TARGETS)
    for kind in LOCAL_SOURCES:
        for name, dims in BOUNDS[tier][kind].items():
            sizes[name][kind] = local_source(kind, name, dims).n
    bounds = dict(BOUNDS[tier], sizes=sizes,
                  llvm=dict((t, " ".join(LLVM_TARGETS[t][0])) for t in TARGETS))
    cov = g.fold(ctx, res, bounds, nontrivial=lambda c: c.get("compared", 0))
    cov["reference"] = subprocess.run([llvm_mc(), "--version"], stdout=subprocess.PIPE).stdout.decode().split("\n")[1].strip()
    return cov


def replay(case):
    target = case["target"]
    raw = case["raw"]
    if isinstance(raw, str):
        raw = bytes.fromhex(raw)
    deterministic(target)
    g.quiet()
    instr = g.decode(target, raw)
    if instr is None:
        return []
    _cnt, bad = judge_cases(target, [(raw, instr.l, instr.name)])
    return [make_violation(target, raw, instr.l, instr, kind, rl, txt) for _i, kind, rl, txt in bad]
