"""C18 - x86 instruction semantics match the host processor.

Engine E2 (bounded-exhaustive enumeration), oracle: the host x86-64 CPU.

  native side : native/x86host.c, compiled with gcc into a per-run temp dir and run as a helper process (one per
                worker, fed through stdin): loads arithmetic flags + DF, 16 GPRs, 16 XMM, 8 MMX registers and a 256-byte scratch
                window, executes the instruction bytes, stores everything back; SIGFPE/SIGSEGV/SIGILL/SIGTRAP are
                caught on an alternate stack and reported as the outcome.
  miasm side  : Machine("x86_64"|"x86_32").jitter(loc_db, "python") - the jitcore_python path through sem.py - on the
                same bytes, registers, flags and scratch window (one long-lived jitter per worker, one instruction per
                block); thorough: the GCC backend too.

Space (see RULE / bounds): an allow-list of unprivileged, non-control-flow instruction forms, written as assembly text
and assembled with miasm's own assembler (first candidate), times a per-form lattice of operand values: boundary
values for every register portion / memory cell the lifted IR reads, all combinations of the flags it reads, shift
counts around 0/1/width, REP counts 0..3, both directions.

Oracle: all 16 GPRs, XMM and MMX registers, the scratch window (and "nothing written outside it"), the next pc, and the
flags that the Intel SDM defines for the mnemonic (table UNDEFINED below; a flag the SDM leaves undefined is not
compared, a flag the instruction does not touch must be preserved); a native #DE <=> a division exception in miasm.
"""
import hashlib
import itertools
import json
import os
import re
import shutil
import struct
import subprocess
import sys
import tempfile

from mc.runner import violation

PROP = "C18"
LEVEL = "exploration"
ENGINE = "enum"
RULE = ("every form of the allow-list (mnemonic x operand shape: reg/reg at 8/16/32/64 bits incl. AH-style and REX registers, "
        "reg/mem, mem/reg, imm8/imm32, SIB addressing) x product of boundary values for each register portion and memory cell "
        "the lifted IR reads x all combinations of the flags it reads (remaining flags all-clear / all-set) x shift counts "
        "{0,1,w-1,w,w+1,...} x REP counts 0..3 x DF; a case is non-trivial when the native execution changes a register, a flag "
        "or memory, or faults")
LEVEL_TEXT = ("Bounded-exhaustive differential execution: every listed instruction form on every member of its boundary-value "
              "lattice is executed on the host CPU and through miasm's Python jitter (thorough: GCC jitter too); registers, vector "
              "registers, memory and architecturally defined flags must be equal, a native #DE must be a division exception in miasm.")
LEVEL_NOTE = ("Trusted: the host CPU (AMD EPYC), gcc, native/x86host.c, the SDM undefined-flag table in this file. Operand values "
              "are boundary values, not all values (per-form budget rule: value levels are lowered from the last operand until the "
              "product fits the cap recorded in bounds). Quick: Python jitter, every third admitted 32-bit form. Thorough: Python "
              "jitter on the full lattice; the GCC jitter (run in a forked child so that a crash of jitted code is an outcome, not a "
              "harness failure) on every fourth form with the quick lattice and on every floating point form. 32-bit mode: only mode-invariant encodings, executed natively in 64-bit mode "
              "from a state with zero upper halves (no DAA/DAS/AAA/AAS/AAM/AAD/PUSHA/POPA/INTO/BOUND/ARPL, no 0x40-0x4F INC/DEC, no 16-bit "
              "addressing, no stack-width dependent forms). x87, privileged and control-flow instructions are outside the alphabet; MMX "
              "registers are loaded and compared, but only the packed shift family (PSLL/PSRL/PSRA) has MMX forms in the alphabet. The "
              "count lattice of a packed shift with a register/memory count (values around the element size, 2^k and 2^k+{1,3} up "
              "to 2^63, 0x10000, 0x100000003, 2^64-1, garbage in the high quadword of a 128-bit count) is never lowered by the budget rule. Scalar/packed floating point arithmetic cannot be evaluated by the Python backend (skipped and counted); it "
              "is compared on the GCC backend in the thorough tier only.")
TECHNIQUE = "bounded-exhaustive differential execution of single instructions against the host CPU"
ASSUMPTIONS = ["the host CPU implements the architecture (flags the SDM leaves undefined are not compared)",
               "bytes produced by miasm's assembler for the listed forms are the instruction the text names (C15 covers the assembler)",
               "32-bit mode semantics of a mode-invariant encoding equal its 64-bit mode semantics on a state with zero upper halves"]

CODE = 0x20000
DATA = 0x30000
PAGE = 0x1000
WIN_OFF = 0x800
WIN_LEN = 0x100
WIN = DATA + WIN_OFF
P_MID = WIN + 0x80
P_SRC = WIN + 0x40
P_DST = WIN + 0xC0

GPR = ["RAX", "RCX", "RDX", "RBX", "RSP", "RBP", "RSI", "RDI", "R8", "R9", "R10", "R11", "R12", "R13", "R14", "R15"]
GIDX = {n: i for i, n in enumerate(GPR)}
XMM = ["XMM%d" % i for i in range(16)]
FLAGBITS = [("cf", 0x1), ("pf", 0x4), ("af", 0x10), ("zf", 0x40), ("nf", 0x80), ("df", 0x400), ("of", 0x800)]
FBIT = dict(FLAGBITS)
STATUS = 0x8D5
CF, PF, AF, ZF, SF, DF, OF = 0x1, 0x4, 0x10, 0x40, 0x80, 0x400, 0x800

EXCEPT_INT_XX = 1 << 2
EXCEPT_ACCESS_VIOL = (1 << 14)
EXCEPT_DIV_BY_ZERO = (1 << 16)
EXCEPT_PRIV_INSN = (1 << 17)
EXCEPT_ILLEGAL_INSN = (1 << 18)
EXCEPT_UNK_MNEMO = (1 << 19)

REQ_FMT = "<B15sQ16Q"
RESP_HEAD = "<IIQQ16Q"
RESP_SIZE = 4 + 4 + 8 + 8 + 128 + 256 + 64 + 256
SIGNAMES = {0: "ok", 4: "ill", 5: "trap", 7: "segv", 8: "div", 11: "segv"}

# ------------------------------------------------------------------------------------------------------------------
# register name table (hand written; independent of miasm's regs.py)
# ------------------------------------------------------------------------------------------------------------------
SUBREG = {}


def _mk_subreg():
    legacy = ["AX", "CX", "DX", "BX", "SP", "BP", "SI", "DI"]
    for i, n in enumerate(legacy):
        par = "R" + n
        SUBREG["R" + n] = (par, 0, 64)
        SUBREG["E" + n] = (par, 0, 32)
        SUBREG[n] = (par, 0, 16)
    for n in "ACDB":
        SUBREG[n + "L"] = ("R%sX" % n, 0, 8)
        SUBREG[n + "H"] = ("R%sX" % n, 8, 8)
    for n in ("SP", "BP", "SI", "DI"):
        SUBREG[n + "L"] = ("R" + n, 0, 8)
    for i in range(8, 16):
        par = "R%d" % i
        SUBREG[par] = (par, 0, 64)
        SUBREG[par + "D"] = (par, 0, 32)
        SUBREG[par + "W"] = (par, 0, 16)
        SUBREG[par + "B"] = (par, 0, 8)
    for i in range(16):
        SUBREG["XMM%d" % i] = ("XMM%d" % i, 0, 128)
    for i in range(8):
        SUBREG["MM%d" % i] = ("MM%d" % i, 0, 64)


_mk_subreg()

# ------------------------------------------------------------------------------------------------------------------
# SDM table of undefined flags / results.  Returns (undefined flag mask, skip_case, dst_undefined)
# ------------------------------------------------------------------------------------------------------------------
G_LOGIC = {"AND", "OR", "XOR", "TEST"}
G_SHIFT = {"SHL", "SHR", "SAR", "SAL"}
G_ROT = {"ROL", "ROR", "RCL", "RCR"}
G_SHXD = {"SHLD", "SHRD"}
G_BT = {"BT", "BTS", "BTR", "BTC"}
G_BSX = {"BSF", "BSR"}
G_MUL = {"MUL", "IMUL"}
G_DIV = {"DIV", "IDIV"}


def count_of(form, st):
    """Shift count of a case (last operand: immediate or CL)."""
    kind, v = form["count"]
    if kind == "imm":
        return v
    return st["gpr"][GIDX["RCX"]] & 0xFF


def undefined(form, st, nat_flags):
    name = form["name"]
    w = form["opw"]
    if name in G_LOGIC:
        return AF, False, False
    if name in G_SHIFT or name in G_ROT or name in G_SHXD:
        mc = count_of(form, st) & (63 if w == 64 else 31)
        if mc == 0:
            return 0, False, False
        if name in G_SHXD:
            if mc > w:
                return STATUS, True, True
            return AF | (0 if mc == 1 else OF), False, False
        if name in G_SHIFT:
            return AF | (0 if mc == 1 else OF) | (CF if mc >= w else 0), False, False
        return (0 if mc == 1 else OF), False, False
    if name in G_BT:
        return OF | SF | AF | PF, False, False
    if name in G_BSX:
        return CF | OF | SF | AF | PF, False, bool(nat_flags & ZF)
    if name in G_MUL:
        return SF | ZF | AF | PF, False, False
    if name in G_DIV:
        return STATUS, False, False
    return 0, False, False


def count_class(form, st):
    name = form["name"]
    if not (name in G_SHIFT or name in G_ROT or name in G_SHXD):
        return ""
    w = form["opw"]
    mc = count_of(form, st) & (63 if w == 64 else 31)
    if mc == 0:
        return "c0"
    if mc == 1:
        return "c1"
    if mc < w:
        return "c<w"
    if mc == w:
        return "c=w"
    return "c>w"


# ------------------------------------------------------------------------------------------------------------------
# value lattices
# ------------------------------------------------------------------------------------------------------------------
def _boundary(w):
    from mc import refsem
    return refsem.boundary(w)


def _rep(byte, w):
    return int(("%02x" % byte) * (w // 8), 16)


_vals_cache = {}


def int_values(w, level):
    key = ("i", w, level)
    if key in _vals_cache:
        return _vals_cache[key]
    m = (1 << w) - 1
    if level >= 3:
        out = list(_boundary(w))
    elif level == 2:
        out = sorted({0, 1, (1 << (w - 1)) - 1, 1 << (w - 1), m, m - 1, _rep(0x55, w) if w >= 8 else 1, 1 << (w // 2)})
    elif level == 1:
        out = sorted({0, 1, (1 << (w - 1)) - 1, 1 << (w - 1), m})
    else:
        out = sorted({1, m})
    _vals_cache[key] = out
    return out


def _lanes(lw, picks):
    n = 128 // lw
    b = _boundary(lw)
    v = 0
    for i in range(n):
        v |= b[(picks * 5 + i * 3 + (i * i) % 7) % len(b)] << (i * lw)
    return v


DOUBLES = [0x0000000000000000, 0x8000000000000000, 0x3FF0000000000000, 0xBFF0000000000000, 0x3FF8000000000000,
           0x4000000000000000, 0x4330000000000000, 0x7FEFFFFFFFFFFFFF, 0x0010000000000000, 0x0000000000000001,
           0x7FF0000000000000, 0xFFF0000000000000, 0x7FF8000000000000, 0x7FF0000000000001, 0x3FB999999999999A,
           0xC1E0000000000000, 0x41DFFFFFFFC00000, 0x43E0000000000000]
FLOATS = [0x00000000, 0x80000000, 0x3F800000, 0xBF800000, 0x3FC00000, 0x40000000, 0x4B000000, 0x7F7FFFFF, 0x00800000,
          0x00000001, 0x7F800000, 0xFF800000, 0x7FC00000, 0x7F800001, 0x3DCCCCCD, 0xCF000000, 0x4EFFFFFF, 0x5F000000]


def xmm_values(level, kind=None):
    key = ("x", level, kind)
    if key in _vals_cache:
        return _vals_cache[key]
    m = (1 << 128) - 1
    hi = 0x0123456789ABCDEF << 64
    if kind == "f64":
        src = DOUBLES if level >= 3 else (DOUBLES[:8] if level == 2 else (DOUBLES[:5] if level == 1 else [DOUBLES[2], DOUBLES[12]]))
        out = [hi | d for d in src]
    elif kind == "f32":
        src = FLOATS if level >= 3 else (FLOATS[:8] if level == 2 else (FLOATS[:5] if level == 1 else [FLOATS[2], FLOATS[12]]))
        out = [hi | (0x89ABCDEF << 32) | f for f in src]
    elif kind == "count":
        small = [0, 1, 2, 7, 8, 9, 15, 16, 17, 31, 32, 33, 63, 64, 65, 0xFF, 1 << 32, 1 << 63]
        src = small if level >= 3 else ([0, 1, 15, 16, 31, 32, 63, 64] if level == 2 else ([0, 1, 15, 16, 64] if level == 1 else [1, 64]))
        out = [hi | c for c in src]
    else:
        lanes = [_lanes(lw, k) for lw in (8, 16, 32, 64) for k in range(3)]
        if level >= 3:
            out = sorted(set(_boundary(128)) | set(lanes))
        elif level == 2:
            out = [0, m, 1 << 127, lanes[0], lanes[3], lanes[6], lanes[9], _rep(0x55, 128)]
        elif level == 1:
            out = [0, m, lanes[0], lanes[4], lanes[8]]
        else:
            out = [lanes[1], m]
    _vals_cache[key] = out
    return out


def pcount_values(level, elt, w):
    """Counts of a packed shift taken from a register / memory operand: the processor tests the whole low quadword against the
    element size. Values below, at and above the element size, powers of two (alone and with low bits in range) up to 2^63,
    all ones; a 128-bit operand carries garbage in its high quadword, which must be ignored."""
    key = ("p", level, elt, w)
    if key in _vals_cache:
        return _vals_cache[key]
    if level >= 3:
        s = {0, 1, 2, 7, 8, 9, 15, 16, 17, 31, 32, 33, 63, 64, 65, 0xFF, 0xFFFF, 0x10000, 0x100000003, (1 << 64) - 1}
        for k in (4, 5, 6, 7, 15, 16, 17, 31, 32, 33, 63):
            s |= {1 << k, (1 << k) + 1, (1 << k) + 3}
    else:
        s = {0, 1, elt - 1, elt, 64, 0x10000, 0x100000003, (1 << 64) - 1}
    out = sorted(s)
    if w == 128:
        hi = 0x0123456789ABCDEF << 64
        out = [hi | c for c in out] + [3, 1 << 64]
    _vals_cache[key] = out
    return out


def mm_values(level):
    """64-bit MMX operand: the low halves of the XMM lattice (lane patterns for 8/16/32-bit elements) plus boundary values."""
    key = ("mmv", level)
    if key not in _vals_cache:
        m = (1 << 64) - 1
        out = []
        for v in [x & m for x in xmm_values(level)] + (int_values(64, level) if level >= 3 else []):
            if v not in out:
                out.append(v)
        _vals_cache[key] = out
    return _vals_cache[key]


def count_values(w, level):
    if level >= 3:
        s = {0, 1, 2, w - 1, w, w + 1, 7, 8, 9, 15, 16, 17, 18, 31, 32, 33, 63, 64, 65, 0x80, 0xFF}
    elif level >= 1:
        s = {0, 1, w - 1, w, w + 1, 33}
    else:
        s = {1, w + 1}
    return sorted(x & 0xFF for x in s)


def bitoff_values(w, level):
    m = (1 << w) - 1
    if level >= 2:
        s = {0, 1, 7, 8, w - 1, w, w + 1, 2 * w - 1, m, (-w) & m, (-w - 1) & m}
    elif level == 1:
        s = {0, 1, w - 1, w, m}
    else:
        s = {w + 1, m}
    return sorted(s)


def rep_values(level):
    return [0, 1, 2, 3] if level >= 1 else [0, 2]


BYTE_ALPHA = [0x00, 0x01, 0x7F, 0x80, 0xFF, 0x55, 0xAA, 0x10, 0xFE]


def window_bg(variant):
    """256-byte background of the scratch window. variant 0: period 0x80 (the two string operands see equal data),
    1: second half inverted (they differ everywhere), 2: all zero."""
    if variant == 2:
        return bytes(WIN_LEN)
    out = bytearray(WIN_LEN)
    for i in range(WIN_LEN):
        j = i & 0x7F
        b = BYTE_ALPHA[(j * 5 + (j >> 3)) % len(BYTE_ALPHA)]
        if variant == 1 and i >= 0x80:
            b ^= 0xFF
        out[i] = b
    return bytes(out)


def gpr_bg(mode):
    out = []
    for i in range(16):
        v = ((0xA5 + i * 0x11) & 0xFF) * 0x0101010101010101
        out.append(v if mode == 64 else v & 0xFFFFFFFF)
    out[GIDX["RSP"]] = P_MID + 0x20
    return out


def mm_bg():
    return [int.from_bytes(bytes(((i * 8 + j) * 11 + 0x93) & 0xFF for j in range(8)), "little") for i in range(8)]


def xmm_bg():
    return [int.from_bytes(bytes(((i * 16 + j) * 7 + 0x81) & 0xFF for j in range(16)), "little") for i in range(16)]


# ------------------------------------------------------------------------------------------------------------------
# instruction forms (assembly text, 64-bit syntax; the 32-bit list is derived from it)
# ------------------------------------------------------------------------------------------------------------------
CC = ["O", "NO", "B", "AE", "Z", "NZ", "BE", "A", "S", "NS", "PE", "NP", "L", "GE", "LE", "G"]
MEM = {8: "BYTE PTR", 16: "WORD PTR", 32: "DWORD PTR", 64: "QWORD PTR", 128: "XMMWORD PTR"}
REGW = {8: ["DL", "AH", "SIL"], 16: ["DX", "R8W"], 32: ["EDX", "R8D"], 64: ["RDX", "R8"]}
ACC = {8: "AL", 16: "AX", 32: "EAX", 64: "RAX"}
SRC = {8: "CL", 16: "CX", 32: "ECX", 64: "RCX"}
IMMS = {8: ["0x7F", "0x80"], 16: ["0x7F", "0x8000"], 32: ["0xFFFFFFFF", "0x12345678"], 64: ["0xFFFFFFFFFFFFFFFF", "0x12345678"]}
ACCIMM = {8: "0x80", 16: "0x1234", 32: "0x80000000", 64: "0xFFFFFFFF80000000"}
RR = [("AL", "DL"), ("AH", "DL"), ("DL", "AH"), ("AL", "AH"), ("BH", "CH"), ("R8B", "SIL"), ("AX", "DX"), ("R8W", "R10W"),
      ("EAX", "EDX"), ("R8D", "EDX"), ("EAX", "EAX"), ("RAX", "RDX"), ("R8", "R10"), ("RDX", "RDX")]
RM = [("AL", 8, "[RBX]"), ("AH", 8, "[RBX+0x10]"), ("AX", 16, "[RBX+0x10]"), ("EAX", 32, "[RBX+RDI*0x4+0x10]"),
      ("RAX", 64, "[RBX]"), ("R8", 64, "[R13]")]


def m(w, addr="[RBX]"):
    return "%s %s" % (MEM[w], addr)


def forms64():
    F = []

    def add(group, text):
        F.append((group, text))

    for op in ["ADD", "ADC", "SUB", "SBB", "AND", "OR", "XOR", "CMP", "TEST"]:
        for a, b in RR:
            add("alu2", "%s %s, %s" % (op, a, b))
        for r, w, ad in RM:
            if op != "TEST":
                add("alu2", "%s %s, %s" % (op, r, m(w, ad)))
            add("alu2", "%s %s, %s" % (op, m(w, ad), r))
        for w in (8, 16, 32, 64):
            add("alu2", "%s %s, %s" % (op, ACC[w], ACCIMM[w]))
            for imm in IMMS[w]:
                add("alu2", "%s %s, %s" % (op, REGW[w][0], imm))
                add("alu2", "%s %s, %s" % (op, m(w, "[RBX+0x10]"), imm))
    un_ops = ["DL", "AH", "SIL", "DX", "EDX", "R8D", "RDX", m(8), m(16, "[RBX+0x10]"), m(32), m(64, "[RBX+0x10]")]
    for op in ["NEG", "NOT", "INC", "DEC"]:
        for o in un_ops:
            add("alu1", "%s %s" % (op, o))
    for a, b in RR:
        add("mov", "MOV %s, %s" % (a, b))
    for r, w, ad in RM:
        add("mov", "MOV %s, %s" % (r, m(w, ad)))
        add("mov", "MOV %s, %s" % (m(w, ad), r))
    for t in ["MOV DL, 0x80", "MOV AH, 0x7F", "MOV DX, 0x8000", "MOV EDX, 0x80000000", "MOV RDX, 0xFFFFFFFF80000000",
              "MOV RAX, 0x1122334455667788", "MOV R8, 0x8877665544332211", "MOV BYTE PTR [RBX], 0x80",
              "MOV WORD PTR [RBX], 0x8000", "MOV DWORD PTR [RBX], 0x80000000", "MOV QWORD PTR [RBX], 0xFFFFFFFF80000000"]:
        add("mov", t)
    # shifts and rotates
    sh_imm = {8: [0, 2, 7, 8, 9, 0x1F, 0x20, 0x21], 16: [0, 2, 15, 16, 17, 31, 32, 33], 32: [0, 2, 31, 32, 33], 64: [0, 2, 32, 63, 64, 65]}
    for op in ["SHL", "SHR", "SAR", "ROL", "ROR", "RCL", "RCR"]:
        for w, regs in ((8, ["DL", "AH"]), (16, ["DX"]), (32, ["EDX", "R8D"]), (64, ["RDX"])):
            for r in regs:
                add("shift", "%s %s, CL" % (op, r))
                add("shift", "%s %s, 0x1" % (op, r))
            for c in sh_imm[w]:
                add("shift", "%s %s, 0x%X" % (op, regs[0], c))
            add("shift", "%s %s, CL" % (op, m(w)))
            add("shift", "%s %s, 0x1" % (op, m(w, "[RBX+0x10]")))
            add("shift", "%s %s, 0x%X" % (op, m(w), w - 1))
    add("shift", "SAL EDX, 0x2")
    add("shift", "SAL EDX, CL")
    for op in ["SHLD", "SHRD"]:
        for w, d, s in ((16, "DX", "AX"), (32, "EDX", "EAX"), (64, "RDX", "RAX"), (32, "R8D", "R10D")):
            add("shxd", "%s %s, %s, CL" % (op, d, s))
            for c in (0, 1, 2, w - 1, w, w + 1):
                add("shxd", "%s %s, %s, 0x%X" % (op, d, s, c))
        for w in (16, 32, 64):
            add("shxd", "%s %s, %s, CL" % (op, m(w), ACC[w]))
            add("shxd", "%s %s, %s, 0x1" % (op, m(w), ACC[w]))
            add("shxd", "%s %s, %s, 0x%X" % (op, m(w), ACC[w], w - 1))
    for op in ["BT", "BTS", "BTR", "BTC"]:
        for w, d in ((16, "DX"), (32, "EDX"), (64, "RDX")):
            add("bt", "%s %s, %s" % (op, d, ACC[w]))
            add("bt", "%s %s, %s" % (op, m(w), ACC[w]))
            for c in (0, 1, w - 1, w, w + 1, 0xFF):
                add("bt", "%s %s, 0x%X" % (op, d, c))
            for c in (1, w + 1):
                add("bt", "%s %s, 0x%X" % (op, m(w), c))
    for op in ["BSF", "BSR"]:
        for a, b in (("AX", "DX"), ("EAX", "EDX"), ("RAX", "RDX"), ("R8D", "R10D"), ("EAX", "EAX")):
            add("bsx", "%s %s, %s" % (op, a, b))
        for w in (16, 32, 64):
            add("bsx", "%s %s, %s" % (op, ACC[w], m(w)))
    md_ops = ["CL", "AH", "BH", "CX", "DX", "ECX", "EDX", "RCX", "R8", "R8D", m(8), m(16), m(32), m(64)]
    for op in ["MUL", "IMUL", "DIV", "IDIV"]:
        for o in md_ops:
            add("muldiv", "%s %s" % (op, o))
    for a, b in (("AX", "DX"), ("EAX", "EDX"), ("RAX", "RDX"), ("R8D", "R10D"), ("EAX", "EAX")):
        add("imul", "IMUL %s, %s" % (a, b))
    for w in (16, 32, 64):
        add("imul", "IMUL %s, %s" % (ACC[w], m(w)))
        for imm in IMMS[w]:
            add("imul", "IMUL %s, %s, %s" % (ACC[w], REGW[w][0], imm))
        add("imul", "IMUL %s, %s, 0x7F" % (ACC[w], m(w)))
        add("imul", "IMUL %s, %s, %s" % (ACC[w], m(w), "0x1234" if w == 16 else "0x12345678"))
    for cc in CC:
        for a, b in (("AX", "DX"), ("EAX", "EDX"), ("RAX", "RDX"), ("R8D", "R10D")):
            add("cmov", "CMOV%s %s, %s" % (cc, a, b))
        add("cmov", "CMOV%s EAX, %s" % (cc, m(32)))
        add("cmov", "CMOV%s RAX, %s" % (cc, m(64)))
        for o in ("DL", "AH", "SIL", m(8)):
            add("setcc", "SET%s %s" % (cc, o))
    for sfx in "BWDQ":
        for base, pres in (("MOVS", ["", "REP "]), ("STOS", ["", "REP "]), ("LODS", ["", "REP "]),
                           ("CMPS", ["", "REPE ", "REPNE "]), ("SCAS", ["", "REPE ", "REPNE "])):
            for p in pres:
                add("string", "%s%s%s" % (p, base, sfx))
    for a, b in [("AL", "DL"), ("AH", "DL"), ("R8B", "SIL"), ("AX", "DX"), ("DX", "CX"), ("EAX", "EDX"), ("EDX", "ECX"), ("EAX", "EAX"),
                 ("RAX", "RDX"), ("R8", "R10"), ("RDX", "RCX")]:
        add("xchg", "XCHG %s, %s" % (a, b))
        if a != b:
            add("xchg", "XADD %s, %s" % (a, b))
            add("xchg", "CMPXCHG %s, %s" % (b, a) if a in ("AL", "AX", "EAX", "RAX") else "CMPXCHG %s, %s" % (a, b))
    add("xchg", "XADD EDX, EDX")
    add("xchg", "CMPXCHG EAX, EAX")
    add("xchg", "CMPXCHG ECX, EAX")
    for w in (8, 16, 32, 64):
        add("xchg", "XCHG %s, %s" % (m(w), SRC[w]))
        add("xchg", "XADD %s, %s" % (m(w), SRC[w]))
        add("xchg", "CMPXCHG %s, %s" % (m(w), SRC[w]))
    add("xchg", "XADD BYTE PTR [RBX], AH")
    for r in ("EDX", "RDX", "R8D", "R8", "EAX"):
        add("misc", "BSWAP %s" % r)
    for d, w in (("AX", 16), ("EAX", 32), ("RAX", 64), ("R8", 64)):
        for ad in ("[RBX]", "[RBX+0x10]", "[RBX+RDI*0x4+0x12345678]", "[RBX+RDI*0x8]", "[RBX+RBX*0x2]", "[RSP+0x10]", "[R13+R12*0x2+0x7F]"):
            add("lea", "LEA %s, %s" % (d, m(w, ad)))
    for op in ("MOVSX", "MOVZX"):
        for d, s in (("AX", "DL"), ("EAX", "DL"), ("RAX", "DL"), ("EAX", "AH"), ("EAX", "DX"), ("RAX", "DX"), ("R8D", "SIL"), ("AX", "AH"),
                     ("EAX", "AL")):
            add("movx", "%s %s, %s" % (op, d, s))
        for d, w in (("AX", 8), ("EAX", 8), ("RAX", 8), ("EAX", 16), ("RAX", 16)):
            add("movx", "%s %s, %s" % (op, d, m(w)))
    for t in ("MOVSXD RAX, EDX", "MOVSXD RAX, EAX", "MOVSXD R8, DWORD PTR [RBX]"):
        add("movx", t)
    for t in ("CBW", "CWDE", "CDQE", "CWD", "CDQ", "CQO", "LAHF", "SAHF", "CLC", "STC", "CMC", "CLD", "STD", "NOP"):
        add("misc", t)
    # SSE / SSE2
    xx = [("XMM1", "XMM2"), ("XMM9", "XMM12"), ("XMM1", "XMM1")]
    xm = ("XMM1", "XMMWORD PTR [RBX+0x10]")
    packed = ["PXOR", "POR", "PAND", "PANDN", "XORPS", "ORPS", "ANDPS", "ANDNPS", "XORPD", "ORPD", "ANDPD", "ANDNPD",
              "PADDB", "PADDW", "PADDD", "PADDQ", "PSUBB", "PSUBW", "PSUBD", "PSUBQ",
              "PADDSB", "PADDSW", "PADDUSB", "PADDUSW", "PSUBSB", "PSUBSW", "PSUBUSB", "PSUBUSW",
              "PCMPEQB", "PCMPEQW", "PCMPEQD", "PCMPGTB", "PCMPGTW", "PCMPGTD",
              "PUNPCKLBW", "PUNPCKLWD", "PUNPCKLDQ", "PUNPCKLQDQ", "PUNPCKHBW", "PUNPCKHWD", "PUNPCKHDQ", "PUNPCKHQDQ",
              "PMULLW", "PMULHW", "PMULHUW", "PMULUDQ", "PMADDWD", "PMINUB", "PMAXUB", "PMINSW", "PMAXSW", "PAVGB", "PAVGW", "PSADBW",
              "PACKSSWB", "PACKSSDW", "PACKUSWB", "UNPCKLPS", "UNPCKHPS", "UNPCKLPD", "UNPCKHPD",
              "MOVDQA", "MOVDQU", "MOVAPS", "MOVUPS", "MOVAPD", "MOVUPD"]
    for op in packed:
        for a, b in xx[:2] if op.startswith("MOV") else xx:
            add("sse", "%s %s, %s" % (op, a, b))
        add("sse", "%s %s, %s" % (op, xm[0], xm[1]))
    for op in ("MOVDQA", "MOVDQU", "MOVAPS", "MOVUPS", "MOVAPD", "MOVUPD"):
        add("sse", "%s XMMWORD PTR [RBX+0x10], XMM1" % op)
    for op, w in (("PSLLW", 16), ("PSLLD", 32), ("PSLLQ", 64), ("PSRLW", 16), ("PSRLD", 32), ("PSRLQ", 64), ("PSRAW", 16), ("PSRAD", 32)):
        add("sseshift", "%s XMM1, XMM2" % op)
        add("sseshift", "%s XMM1, XMMWORD PTR [RBX+0x10]" % op)
        for c in (0, 1, w - 1, w, 0xFF):
            add("sseshift", "%s XMM1, 0x%X" % (op, c))
        # MMX forms of the same template (64-bit destination, count in an MMX register or a quadword in memory)
        add("sseshift", "%s MM1, MM2" % op)
        add("sseshift", "%s MM1, QWORD PTR [RBX+0x10]" % op)
        for c in (1, w, 0xFF):
            add("sseshift", "%s MM1, 0x%X" % (op, c))
    for op in ("PSLLDQ", "PSRLDQ"):
        for c in (0, 1, 8, 15, 16, 0xFF):
            add("sseshift", "%s XMM1, 0x%X" % (op, c))
    for op in ("PSHUFD", "PSHUFLW", "PSHUFHW"):
        for c in (0x00, 0x1B, 0xE4, 0xFF, 0x4E):
            add("sse", "%s XMM1, XMM2, 0x%X" % (op, c))
        add("sse", "%s XMM1, XMMWORD PTR [RBX+0x10], 0x1B" % op)
        add("sse", "%s XMM1, XMM1, 0x39" % op)
    for op in ("SHUFPS", "SHUFPD"):
        for c in (0x00, 0x1B, 0xE4, 0xFF, 0x02):
            add("sse", "%s XMM1, XMM2, 0x%X" % (op, c))
    for t in ["MOVD XMM1, EDX", "MOVD EDX, XMM1", "MOVD XMM1, DWORD PTR [RBX]", "MOVD DWORD PTR [RBX], XMM1", "MOVD XMM9, R8D",
              "MOVQ XMM1, RDX", "MOVQ RDX, XMM1", "MOVQ XMM1, XMM2", "MOVQ XMM1, QWORD PTR [RBX]", "MOVQ QWORD PTR [RBX], XMM1",
              "MOVSS XMM1, XMM2", "MOVSS XMM1, DWORD PTR [RBX]", "MOVSS DWORD PTR [RBX], XMM1",
              "MOVSD XMM1, XMM2", "MOVSD XMM1, QWORD PTR [RBX]", "MOVSD QWORD PTR [RBX], XMM1",
              "MOVLPS XMM1, QWORD PTR [RBX]", "MOVLPS QWORD PTR [RBX], XMM1", "MOVHPS XMM1, QWORD PTR [RBX]", "MOVHPS QWORD PTR [RBX], XMM1",
              "MOVLPD XMM1, QWORD PTR [RBX]", "MOVLPD QWORD PTR [RBX], XMM1", "MOVHPD XMM1, QWORD PTR [RBX]", "MOVHPD QWORD PTR [RBX], XMM1",
              "MOVHLPS XMM1, XMM2", "MOVLHPS XMM1, XMM2", "MOVMSKPS EAX, XMM1", "MOVMSKPD EAX, XMM1", "PMOVMSKB EAX, XMM1",
              "PEXTRW EAX, XMM1, 0x0", "PEXTRW EAX, XMM1, 0x7", "PEXTRW EAX, XMM1, 0xB", "PINSRW XMM1, EDX, 0x0", "PINSRW XMM1, EDX, 0x7",
              "PINSRW XMM1, EDX, 0xB", "PINSRW XMM1, WORD PTR [RBX], 0x3"]:
        add("ssemov", t)
    for op in ("ADDSD", "SUBSD", "MULSD", "DIVSD", "MINSD", "MAXSD", "SQRTSD", "COMISD", "UCOMISD", "CVTSD2SS"):
        add("fp64", "%s XMM1, XMM2" % op)
        add("fp64", "%s XMM1, QWORD PTR [RBX]" % op)
    for op in ("ADDSS", "SUBSS", "MULSS", "DIVSS", "MINSS", "MAXSS", "SQRTSS", "COMISS", "UCOMISS", "CVTSS2SD"):
        add("fp32", "%s XMM1, XMM2" % op)
        add("fp32", "%s XMM1, DWORD PTR [RBX]" % op)
    for t in ("CVTSI2SD XMM1, EDX", "CVTSI2SD XMM1, RDX", "CVTSI2SS XMM1, EDX", "CVTSI2SS XMM1, RDX"):
        add("fpcvt", t)
    for t in ("CVTSD2SI EAX, XMM1", "CVTSD2SI RAX, XMM1", "CVTTSD2SI EAX, XMM1", "CVTTSD2SI RAX, XMM1"):
        add("fp64", t)
    for t in ("CVTSS2SI EAX, XMM1", "CVTSS2SI RAX, XMM1", "CVTTSS2SI EAX, XMM1", "CVTTSS2SI RAX, XMM1"):
        add("fp32", t)
    seen = set()
    out = []
    for g, t in F:
        if t not in seen:
            seen.add(t)
            out.append((g, t))
    return out


_ONLY64 = re.compile(r"\b(R\d+[BWD]?|RAX|RCX|RDX|RBX|RSI|RDI|RSP|RBP|SIL|DIL|BPL|SPL|XMM8|XMM9|XMM1\d|CDQE|CQO|MOVSXD|MOVSQ|STOSQ|LODSQ|CMPSQ|"
                     r"SCASQ)\b")
_PTRREG = re.compile(r"\bR(BX|DI|SP|SI|BP|AX|CX|DX)\b")


def forms32():
    """32-bit list: the 64-bit texts whose only 64-bit registers are address registers, re-written with 32-bit address registers."""
    out = []
    for g, t in forms64():
        def fix(mo):
            return _PTRREG.sub(lambda x: "E" + x.group(1), mo.group(0))
        t32 = re.sub(r"\[[^\]]*\]", fix, t)
        if _ONLY64.search(re.sub(r"\[[^\]]*\]", "", t32)) or re.search(r"\bR\d+", t32):
            continue
        if "QWORD" in t32 and g not in ("ssemov", "fp64", "fp32", "sseshift"):
            continue
        out.append((g, t32))
    return out


# bytes whose meaning depends on the mode (first opcode byte after legacy prefixes): REX/INC/DEC, BCD, PUSHA..., moffs, ...
_MODE_DEP_OPC = set(range(0x40, 0x50)) | {0x06, 0x07, 0x0E, 0x16, 0x17, 0x1E, 0x1F, 0x27, 0x2F, 0x37, 0x3F, 0x60, 0x61, 0x62, 0x63,
                                           0x82, 0x9A, 0xA0, 0xA1, 0xA2, 0xA3, 0xC4, 0xC5, 0xCE, 0xD4, 0xD5, 0xD6, 0xEA} | \
    set(range(0x50, 0x60)) | {0x68, 0x6A, 0x8F, 0x9C, 0x9D, 0xC8, 0xC9, 0xC2, 0xC3, 0xCA, 0xCB, 0xE8, 0xE9}


def mode_invariant(code):
    """Byte-level admission rule for 32-bit mode cases."""
    i = 0
    while i < len(code) and code[i] in (0x66, 0xF2, 0xF3):
        i += 1
    if i >= len(code):
        return False, "prefix-only"
    b = code[i]
    if b in (0x67, 0x2E, 0x36, 0x3E, 0x26, 0x64, 0x65, 0xF0):
        return False, "prefix-%02x" % b
    if b in _MODE_DEP_OPC:
        return False, "opcode-%02x" % b
    return True, ""


# ------------------------------------------------------------------------------------------------------------------
# assembling (cached per assembler source) and analysis of a form
# ------------------------------------------------------------------------------------------------------------------
_M = {}


def _miasm(mode):
    if ("loc_db", mode) not in _M:
        from miasm.analysis.machine import Machine
        from miasm.core.locationdb import LocationDB
        loc_db = LocationDB()
        mach = Machine("x86_%d" % mode)
        _M[("loc_db", mode)] = loc_db
        _M[("mach", mode)] = mach
        _M[("lifter", mode)] = mach.lifter(loc_db)
    return _M[("mach", mode)], _M[("loc_db", mode)], _M[("lifter", mode)]


def assemble(mode, text):
    from miasm.arch.x86.arch import mn_x86
    _, loc_db, _ = _miasm(mode)
    ins = mn_x86.fromstring(text, loc_db, mode)
    cands = mn_x86.asm(ins)
    return bytes(cands[0])


def _asm_shard(items):
    _load()
    out = []
    for mode, text in items:
        try:
            out.append((mode, text, assemble(mode, text).hex()))
        except Exception as e:
            out.append((mode, text, "!%s: %s" % (type(e).__name__, str(e)[:80])))
    return out


def _asm_cache_path(texts):
    from mc import native
    h = hashlib.sha256()
    for rel in ("miasm/arch/x86/arch.py", "miasm/core/cpu.py", "miasm/core/asm_ast.py", "miasm/core/parse_asm.py"):
        try:
            with open(os.path.join(native.REPO, rel), "rb") as fd:
                h.update(fd.read())
        except OSError:
            h.update(b"?")
    h.update(json.dumps(texts).encode())
    d = os.path.join(os.path.dirname(os.path.dirname(os.path.abspath(__file__))), ".cache", "c18")
    return d, os.path.join(d, "asm_%s.json" % h.hexdigest()[:24])


ASM_TABLE = os.path.join(os.path.dirname(os.path.abspath(__file__)), "c18_asm_table.json")


def assemble_all(ctx, todo):
    """{(mode, text): hex bytes or '!error'}.

    Assembling ~3300 texts with mn_x86.asm (which enumerates every candidate encoding) costs several CPU minutes, so the
    result is kept: checks/c18_asm_table.json is the shipped product of miasm's assembler (first candidate) for the template
    list; a text missing from it (template list edited) is assembled live and kept under /verif/.cache/c18 keyed by the
    assembler sources. The bytes are inputs only: both sides execute them, the live decoder and lifter always run."""
    table = {}
    try:
        with open(ASM_TABLE) as fd:
            table = {(mo, t): b for mo, t, b in json.load(fd)["entries"]}
    except Exception:
        table = {}
    missing = [k for k in todo if k not in table]
    if not missing:
        return {k: table[k] for k in todo}, True
    texts = [[mo, t] for mo, t in missing]
    d, path = _asm_cache_path(texts)
    if os.path.exists(path):
        try:
            with open(path) as fd:
                data = json.load(fd)
            table.update({(mo, t): b for mo, t, b in data})
            return {k: table[k] for k in todo}, True
        except Exception:
            pass
    n = 96
    shards = [missing[i::n] for i in range(n)]
    res = ctx.pmap(_asm_shard, [s for s in shards if s])
    data = [r for part in res for r in part]
    table.update({(mo, t): b for mo, t, b in data})
    try:
        os.makedirs(d, exist_ok=True)
        for old in os.listdir(d):
            if old.startswith("asm_"):
                os.unlink(os.path.join(d, old))
        fdn, tmp = tempfile.mkstemp(dir=d, prefix=".tmp")
        with os.fdopen(fdn, "w") as fd:
            json.dump(data, fd)
        os.replace(tmp, path)
    except OSError:
        pass
    return {k: table[k] for k in todo}, False


def regen_table():
    """python -m checks.c18_x86_vs_host --regen-table : rebuild checks/c18_asm_table.json with miasm's assembler."""
    import multiprocessing as mp
    _load()
    todo = [(64, t) for g, t in forms64()] + [(32, t) for g, t in forms32()]
    with mp.get_context("fork").Pool(os.cpu_count() or 4) as pool:
        res = pool.map(_asm_shard, [todo[i::96] for i in range(96)])
    got = {(mo, t): b for part in res for mo, t, b in part}
    data = {"generator": "miasm mn_x86.fromstring + mn_x86.asm, first candidate", "entries": [[mo, t, got[(mo, t)]] for mo, t in todo]}
    with open(ASM_TABLE, "w") as fd:
        json.dump(data, fd, indent=0)
    print("wrote %d entries (%d not assemblable)" % (len(todo), sum(1 for v in got.values() if v.startswith("!"))))


def _arg_class(a):
    if a.is_id():
        n = a.name
        if a.size == 8:
            return "r8h" if n in ("AH", "BH", "CH", "DH") else "r8"
        if n.startswith("XMM"):
            return "xmm"
        if n.startswith("MM"):
            return "mm"
        return "r%d" % a.size
    if a.is_mem():
        return "m%d" % a.size
    if a.is_int():
        return "imm"
    return "x"


def _visit(e, lo, hi, in_addr, in_mul, acc):
    """Collect register portions read by @e: acc['regs'][parent] -> set of (lo, hi); address registers and memory reads."""
    if e.is_id():
        if e.name in FBIT:
            acc["flags"].add(e.name)
            return
        if e.name not in SUBREG:
            acc["other"].add(e.name)
            return
        par, rlo, rw = SUBREG[e.name]
        a, b = rlo + lo, rlo + min(hi, rw)
        if in_addr:
            (acc["index"] if in_mul else acc["ptr"]).add(par)
        else:
            acc["regs"].setdefault(par, set()).add((a, b))
        return
    if e.is_slice():
        _visit(e.arg, lo + e.start, min(e.start + hi, e.stop), in_addr, in_mul, acc)
        return
    if e.is_mem():
        acc["mem"].append((e.ptr, e.size))
        _visit(e.ptr, 0, e.ptr.size, True, False, acc)
        return
    if e.is_op():
        mul = in_mul or (in_addr and e.op in ("*", "<<"))
        for a in e.args:
            _visit(a, 0, a.size, in_addr, mul, acc)
        return
    if e.is_compose():
        for a in e.args:
            _visit(a, 0, a.size, in_addr, in_mul, acc)
        return
    if e.is_cond():
        for a in (e.cond, e.src1, e.src2):
            _visit(a, 0, a.size, in_addr, in_mul, acc)
        return


def _eval_ptr(ptr, pins):
    """Concrete address of a memory operand under the pinned address registers (input placement only, not an oracle)."""
    from miasm.expression.expression import ExprId, ExprInt
    from miasm.expression.simplifications import expr_simp
    rep = {}
    for e in ptr.get_r():
        if e.is_id() and e.name in SUBREG:
            par, lo, w = SUBREG[e.name]
            rep[e] = ExprInt((pins.get(par, 0) >> lo) & ((1 << w) - 1), e.size)
    v = expr_simp(ptr.replace_expr(rep))
    return int(v) if v.is_int() else None


def prepare(mode, group, text, code):
    """Analyse one form: decode the bytes, lift, find what the instruction reads."""
    from miasm.arch.x86.arch import mn_x86
    _, loc_db, lifter = _miasm(mode)
    ins = mn_x86.dis(code, mode)
    ins.offset = CODE
    if ins.l != len(code):
        raise ValueError("decoded length %d != %d" % (ins.l, len(code)))
    ircfg = lifter.new_ircfg()
    lifter.add_instr_to_ircfg(ins, ircfg)
    acc = {"regs": {}, "flags": set(), "ptr": set(), "index": set(), "mem": [], "other": set()}
    writes_mem = False
    for blk in list(ircfg.blocks.values()):
        blk = lifter.irbloc_fix_regs_for_mode(blk, mode)
        for ab in blk:
            for dst, src in ab.items():
                _visit(src, 0, src.size, False, False, acc)
                if dst.is_mem():
                    writes_mem = True
                    _visit(dst.ptr, 0, dst.ptr.size, True, False, acc)
    name = ins.name
    pre = ""
    g1 = ins.additional_info.g1.value if hasattr(ins, "additional_info") else 0
    if group == "string" and g1 & 2:
        pre = "repne:"
    elif group == "string" and g1 & 12:
        pre = "rep:"
    args = list(ins.args)
    is_lea = name == "LEA"
    fclass = pre + (",".join(_arg_class(a) for a in args) or "-")
    # pinned address registers
    pins = {}
    ptrs = sorted(acc["ptr"], key=GIDX.get)
    for p in ptrs:
        pins[p] = P_SRC if p == "RSI" and group == "string" else (P_DST if p == "RDI" and group == "string" else P_MID)
    for p in acc["index"]:
        if p not in pins:
            pins[p] = 2
    bitoff_par = None
    if group == "bt" and len(args) == 2 and args[0].is_mem() and args[1].is_id():
        bitoff_par = SUBREG[args[1].name][0]            # the bit offset register takes part in the address: still a value
        pins.pop(bitoff_par, None)
        acc["regs"].setdefault(bitoff_par, set()).add((0, args[1].size))
    # value slots: register portions
    slots = []
    explicit = []
    for a in args:
        if a.is_id() and a.name in SUBREG:
            par, lo, w = SUBREG[a.name]
            explicit.append((par, lo, lo + w))
    order = []
    for par, lo, hi in explicit:
        if par in acc["regs"] and par not in order:
            order.append(par)
    for par in sorted(acc["regs"], key=lambda n: (n.startswith("XMM") or n.startswith("MM"), GIDX.get(n, 0), n)):
        if par not in order:
            order.append(par)
    for par in order:
        if par in pins:
            continue
        rngs = sorted(acc["regs"][par], key=lambda r: (-(r[1] - r[0]), r[0]))
        if par.startswith("XMM"):
            rngs = [(0, 128)]                 # lane-wise reads: one 128-bit slot
        elif par.startswith("MM"):
            rngs = [(0, 64)]
        chosen = []
        for lo, hi in rngs:
            if hi <= lo:
                continue
            if lo != 0 and (lo, hi) != (8, 16):
                continue                      # preserved upper part of a partial write: background only
            if any(c[0] <= lo and hi <= c[1] for c in chosen):
                continue
            chosen.append((lo, hi))
        for lo, hi in sorted(chosen):
            slots.append({"k": "xmm" if par.startswith("XMM") else ("mm" if par.startswith("MM") else "reg"), "reg": par, "lo": lo,
                          "w": hi - lo, "vk": "int"})
    # memory cells read
    cells = []
    for ptr, size in acc["mem"]:
        ad = _eval_ptr(ptr, pins)
        if ad is None or not (WIN <= ad and ad + size // 8 <= WIN + WIN_LEN):
            continue
        if (ad, size) not in cells:
            cells.append((ad, size))
    for ad, size in cells:
        slots.append({"k": "mem", "addr": ad, "w": size, "vk": "int"})
    # special value kinds
    opw = args[0].size if args else 0
    count = None
    if group in ("shift", "shxd"):
        last = args[-1]
        if last.is_int():
            count = ("imm", int(last))
        else:
            count = ("cl", 0)
            for s in slots:
                if s["k"] == "reg" and s["reg"] == "RCX" and s["lo"] == 0:
                    s["vk"] = "count"
                    s["w"] = 8
    if bitoff_par:
        for s in slots:
            if s["k"] == "reg" and s["reg"] == bitoff_par:
                s["vk"] = "bitoff"
                s["w"] = args[1].size
    if group == "string":
        for s in slots:
            if s["k"] == "reg" and s["reg"] == "RCX":
                s["vk"] = "rep"
        opw = {"B": 8, "W": 16, "D": 32, "Q": 64}.get(name[-1], 0)
    if group == "sseshift" and len(args) == 2 and not args[1].is_int():
        elt = {"W": 16, "D": 32, "Q": 64}[name[-1]]
        for s in slots:
            if (args[1].is_id() and s["k"] in ("xmm", "mm") and s["reg"] == args[1].name) or \
                    (args[1].is_mem() and s["k"] == "mem" and s["w"] == args[1].size):
                s["vk"] = "pcount"
                s["elt"] = elt
                s["fixed"] = True        # the budget rule never lowers the count lattice of a packed shift
    if group in ("fp64", "fp32"):
        for s in slots:
            if s["k"] == "xmm":
                s["vk"] = "f64" if group == "fp64" else "f32"
            elif s["k"] == "mem":
                s["vk"] = "f64m" if group == "fp64" else "f32m"
    dst_par = None
    if args and args[0].is_id() and args[0].name in SUBREG:
        dst_par = SUBREG[args[0].name][0]
    roles = {}
    for i, a in enumerate(args):
        if a.is_id() and a.name in SUBREG:
            roles.setdefault(SUBREG[a.name][0], "dst" if i == 0 else "src")
    for p in pins:
        roles.setdefault(p, "addr")
    bgvars = [0]
    if group == "string" and name[:4] in ("CMPS", "SCAS"):
        bgvars = [0, 1, 2]
    flags_read = sorted(acc["flags"], key=lambda f: FBIT[f])
    return {"mode": mode, "group": group, "text": text, "code": code, "name": name, "fclass": fclass, "slots": slots, "pins": pins,
            "flags_read": flags_read, "opw": opw, "count": count, "dst": dst_par, "roles": roles, "bgvars": bgvars,
            "writes_mem": writes_mem, "other_reads": sorted(acc["other"]), "is_lea": is_lea}


def slot_values(s, level):
    vk = s["vk"]
    if vk == "count":
        if s["k"] in ("xmm", "mem") and s["w"] == 128:
            return xmm_values(level, "count")
        return count_values(s.get("opw", 32), level)
    if vk == "pcount":
        return pcount_values(level, s["elt"], s["w"])
    if vk == "bitoff":
        return bitoff_values(s["w"], level)
    if vk == "rep":
        return rep_values(level)
    if vk in ("f64", "f32"):
        return xmm_values(level, vk)
    if vk == "f64m":
        return DOUBLES if level >= 3 else DOUBLES[:max(2, 3 * level)]
    if vk == "f32m":
        return FLOATS if level >= 3 else FLOATS[:max(2, 3 * level)]
    if s["w"] == 128:
        return xmm_values(level)
    if s["k"] == "mm":
        return mm_values(level)
    return int_values(s["w"], level)


def lattice(form, tier):
    """Per-slot value lists after the deterministic budget rule, flag combinations, background variants."""
    start, cap = (3, CAP_THOROUGH) if tier == "thorough" else (1, CAP_QUICK)
    if tier == "thorough" and form["mode"] == 32:
        start = 2               # same encodings as the 64-bit list, other lifter mode: medium lattice
    slots = form["slots"]
    for s in slots:
        if s["vk"] == "count":
            s["opw"] = form["opw"]
    levels = [start] * len(slots)
    nfl = 1 << len(form["flags_read"])

    def size():
        n = len(form["bgvars"]) * nfl
        for s, lv in zip(slots, levels):
            n *= len(slot_values(s, lv))
        return n

    free = [i for i, s in enumerate(slots) if not s.get("fixed")]
    while size() > cap and any(levels[i] > 0 for i in free):
        top = max(levels[i] for i in free)
        idx = max(i for i in free if levels[i] == top)
        levels[idx] -= 1
    vals = [slot_values(s, lv) for s, lv in zip(slots, levels)]
    fr = [f for f in form["flags_read"]]
    fcombos = []
    for bits in itertools.product((0, 1), repeat=len(fr)):
        v = 0
        for f, b in zip(fr, bits):
            if b:
                v |= FBIT[f]
        fcombos.append(v)
    return vals, levels, fcombos


def build_state(form, values, fl_read, rest_set, bgvar):
    mode = form["mode"]
    gpr = gpr_bg(mode)
    xmm = xmm_bg()
    mmr = mm_bg()
    win = bytearray(window_bg(bgvar))
    for par, v in form["pins"].items():
        gpr[GIDX[par]] = v
    for s, v in zip(form["slots"], values):
        if s["k"] == "reg":
            i = GIDX[s["reg"]]
            mk = ((1 << s["w"]) - 1) << s["lo"]
            gpr[i] = (gpr[i] & ~mk) | ((v << s["lo"]) & mk)
        elif s["k"] == "xmm":
            i = int(s["reg"][3:])
            mk = ((1 << s["w"]) - 1) << s["lo"]
            xmm[i] = (xmm[i] & ~mk) | ((v << s["lo"]) & mk)
        elif s["k"] == "mm":
            i = int(s["reg"][2:])
            mk = ((1 << s["w"]) - 1) << s["lo"]
            mmr[i] = (mmr[i] & ~mk) | ((v << s["lo"]) & mk)
        else:
            off = s["addr"] - WIN
            win[off:off + s["w"] // 8] = (v & ((1 << s["w"]) - 1)).to_bytes(s["w"] // 8, "little")
    readmask = 0
    for f in form["flags_read"]:
        readmask |= FBIT[f]
    flags = fl_read | ((STATUS & ~readmask) if rest_set else 0)
    if mode == 32:
        gpr = [g & 0xFFFFFFFF for g in gpr]
    return {"gpr": gpr, "xmm": xmm, "mm": mmr, "flags": flags, "win": bytes(win)}


def cases(form, tier):
    vals, levels, fcombos = lattice(form, tier)
    out = []
    for bg in form["bgvars"]:
        for ci, combo in enumerate(itertools.product(*vals)):
            for fi, fl in enumerate(fcombos):
                out.append(build_state(form, combo, fl, (ci + fi + bg) & 1, bg))
    return out, levels


# ------------------------------------------------------------------------------------------------------------------
# native helper
# ------------------------------------------------------------------------------------------------------------------
class Helper(object):
    def __init__(self, path):
        self.p = subprocess.Popen([path], stdin=subprocess.PIPE, stdout=subprocess.PIPE, stderr=subprocess.DEVNULL)

    def run(self, code, states):
        out = []
        for i in range(0, len(states), 1500):
            out.extend(self._batch(code, states[i:i + 1500]))
        return out

    def _batch(self, code, states):
        buf = [struct.pack("<I", len(states))]
        c15 = code.ljust(15, b"\0")
        for st in states:
            buf.append(struct.pack(REQ_FMT, len(code), c15, st["flags"], *st["gpr"]))
            buf.append(b"".join(x.to_bytes(16, "little") for x in st["xmm"]))
            buf.append(struct.pack("<8Q", *st["mm"]))
            buf.append(st["win"])
        self.p.stdin.write(b"".join(buf))
        self.p.stdin.flush()
        need = RESP_SIZE * len(states)
        data = self.p.stdout.read(need)
        if len(data) != need:
            raise RuntimeError("x86host helper died (exit %r) on %s" % (self.p.poll(), code.hex()))
        out = []
        for k in range(len(states)):
            b = data[k * RESP_SIZE:(k + 1) * RESP_SIZE]
            head = struct.unpack_from(RESP_HEAD, b)
            xo = 24 + 128
            out.append({"outcome": SIGNAMES.get(head[0], "sig%d" % head[0]), "dirty": head[1], "flags": head[3],
                        "gpr": list(head[4:20]),
                        "xmm": [int.from_bytes(b[xo + 16 * i:xo + 16 * i + 16], "little") for i in range(16)],
                        "mm": list(struct.unpack_from("<8Q", b, xo + 256)),
                        "win": b[xo + 320:xo + 576]})
        return out

    def close(self):
        try:
            self.p.stdin.write(struct.pack("<I", 0))
            self.p.stdin.close()
            self.p.wait(timeout=5)
        except Exception:
            try:
                self.p.kill()
            except Exception:
                pass


def build_helper(outdir):
    src = os.path.join(os.path.dirname(os.path.dirname(os.path.abspath(__file__))), "native", "x86host.c")
    exe = os.path.join(outdir, "x86host")
    p = subprocess.run(["gcc", "-O1", "-o", exe, src], stdout=subprocess.PIPE, stderr=subprocess.STDOUT)
    if p.returncode != 0:
        raise RuntimeError("building x86host failed:\n" + p.stdout.decode(errors="replace")[-2000:])
    return exe


# ------------------------------------------------------------------------------------------------------------------
# miasm side
# ------------------------------------------------------------------------------------------------------------------
FLOAT_OPS = re.compile(r"\b(fadd|fsub|fmul|fdiv|fsqrt|fcom\w*|sint_to_fp|uint_to_fp|fp_to_sint\d*|fp_to_uint\d*|fpconvert_fp\d+|fpround_\w+|"
                       r"fabs|fchs|fprem|fpatan|fsin|fcos|fxam\w*|mem_\d+_to_double|double_to_mem_\d+|u?comis[sd]_\w+)\b")


class Emu(object):
    def __init__(self, mode, backend):
        from miasm.analysis.machine import Machine
        from miasm.core.locationdb import LocationDB
        self.mode = mode
        self.backend = backend
        self.jit = Machine("x86_%d" % mode).jitter(LocationDB(), backend)
        self.jit.jit.set_options(jit_maxline=1, max_exec_per_call=1)
        self.jit.vm.add_memory_page(CODE, 7, b"\xCC" * PAGE, "code")
        self.jit.vm.add_memory_page(DATA, 3, bytes(PAGE), "data")
        self.zero_lo = bytes(WIN_OFF)
        self.zero_hi = bytes(PAGE - WIN_OFF - WIN_LEN)
        self.code_len = 0

    def load(self, code):
        jit = self.jit
        jit.jit.clear_jitted_blocks()
        jit.vm.reset_code_bloc_pool()
        jit.vm.set_mem(CODE, code + b"\xCC" * 16)
        jit.vm.reset_memory_access()
        jit.vm.set_exception(0)
        self.code_len = len(code)

    def run(self, st):
        jit = self.jit
        cpu = jit.cpu
        vm = jit.vm
        cpu.init_regs()
        regs = dict(zip(GPR, st["gpr"]))
        for i, v in enumerate(st["xmm"]):
            regs["XMM%d" % i] = v
        for i, v in enumerate(st["mm"]):
            regs["MM%d" % i] = v
        fl = st["flags"]
        for f, bit in FLAGBITS:
            regs[f] = 1 if fl & bit else 0
        regs["RIP"] = CODE
        cpu.set_gpreg(regs)
        vm.set_mem(DATA, self.zero_lo + st["win"] + self.zero_hi)
        vm.reset_memory_access()
        vm.set_exception(0)
        cpu.set_exception(0)
        pc = CODE
        n = 0
        err = None
        try:
            while pc == CODE and n < 12:
                pc = jit.jit.run_at(cpu, CODE, set())
                n += 1
                if cpu.get_exception() or (vm.get_exception() & ~1):
                    break
        except Exception as e:              # noqa - any failure of the emulation is an observable outcome
            err = "%s: %s" % (type(e).__name__, str(e)[:300])
        out = {}
        if err is not None and err.startswith("RuntimeError: Cannot find address"):
            # the Python backend reports an access to unmapped memory by raising from vm.get_mem/set_mem
            cpu.set_exception(0)
            vm.set_exception(0)
            return {"outcome": "segv"}
        if err is not None:
            out["outcome"] = "raise"
            out["err"] = err
            cpu.set_exception(0)
            vm.set_exception(0)
            return out
        ce = cpu.get_exception()
        ve = vm.get_exception() & ~1
        if ce & EXCEPT_DIV_BY_ZERO:
            oc = "div"
        elif ce & EXCEPT_INT_XX:
            oc = "div" if cpu.get_interrupt_num() == 0 else "int%d" % cpu.get_interrupt_num()
        elif ce & (EXCEPT_UNK_MNEMO | EXCEPT_ILLEGAL_INSN | EXCEPT_PRIV_INSN):
            oc = "ill"
        elif ve & EXCEPT_ACCESS_VIOL:
            oc = "segv"
        elif ce or ve:
            oc = "exc(cpu=%#x,vm=%#x)" % (ce, ve)
        elif pc == CODE:
            oc = "no-progress"
        else:
            oc = "ok"
        out["outcome"] = oc
        out["pc"] = pc
        g = cpu.get_gpreg()
        out["gpr"] = [g[n_] for n_ in GPR]
        out["xmm"] = [g["XMM%d" % i] for i in range(16)]
        out["mm"] = [g["MM%d" % i] for i in range(8)]
        f = 0
        for fn, bit in FLAGBITS:
            if g[fn]:
                f |= bit
        out["flags"] = f
        page = vm.get_mem(DATA, PAGE)
        out["win"] = page[WIN_OFF:WIN_OFF + WIN_LEN]
        out["dirty"] = 0 if (page[:WIN_OFF] == self.zero_lo and page[WIN_OFF + WIN_LEN:] == self.zero_hi) else 1
        cpu.set_exception(0)
        vm.set_exception(0)
        return out


class IsoEmu(object):
    """A jitter living in a forked child, fed through pipes. Code jitted by the GCC backend runs inside the emulating process:
    when it crashes (SIGFPE, SIGSEGV...) only the child dies; the case it was executing is reported with outcome
    'crash:<signal>' and a new child continues with the next case."""
    CHUNK = 20          # states per request: request and reply both stay below the pipe buffer size (no write/write deadlock)

    def __init__(self, mode, backend):
        self.mode = mode
        self.backend = backend
        self.pid = None
        self.to = self.frm = None

    def _spawn(self):
        import pickle
        p2c_r, p2c_w = os.pipe()
        c2p_r, c2p_w = os.pipe()
        pid = os.fork()
        if pid == 0:
            rc = 0
            try:
                os.close(p2c_w)
                os.close(c2p_r)
                inp = os.fdopen(p2c_r, "rb")
                out = os.fdopen(c2p_w, "wb")
                emu = Emu(self.mode, self.backend)
                last = None
                while True:
                    try:
                        code, sts = pickle.load(inp)
                    except EOFError:
                        break
                    if code != last:
                        emu.load(code)
                        last = code
                    for st in sts:
                        pickle.dump(emu.run(st), out, protocol=pickle.HIGHEST_PROTOCOL)
                        out.flush()
            except BaseException:
                rc = 3
            finally:
                os._exit(rc)
        os.close(p2c_r)
        os.close(c2p_w)
        self.pid = pid
        self.to = os.fdopen(p2c_w, "wb")
        self.frm = os.fdopen(c2p_r, "rb")

    def _reap(self):
        import signal
        for f in (self.to, self.frm):
            try:
                f.close()
            except Exception:
                pass
        _, status = os.waitpid(self.pid, 0)
        self.pid = None
        if os.WIFSIGNALED(status):
            try:
                return "crash:" + signal.Signals(os.WTERMSIG(status)).name
            except ValueError:
                return "crash:SIG%d" % os.WTERMSIG(status)
        return "crash:exit%d" % os.WEXITSTATUS(status)

    def run(self, code, sts):
        import pickle
        results = []
        while len(results) < len(sts):
            if self.pid is None:
                self._spawn()
            chunk = sts[len(results):len(results) + self.CHUNK]
            got = 0
            try:
                pickle.dump((code, chunk), self.to, protocol=pickle.HIGHEST_PROTOCOL)
                self.to.flush()
                while got < len(chunk):
                    results.append(pickle.load(self.frm))
                    got += 1
            except (EOFError, BrokenPipeError, pickle.UnpicklingError, OSError):
                pass
            if got < len(chunk):
                results.append({"outcome": self._reap()})
        return results

    def close(self):
        if self.pid is not None:
            try:
                self.to.close()
                self.frm.close()
                os.waitpid(self.pid, 0)
            except Exception:
                pass
            self.pid = None


def emu_isolated(mode, backend, code, sts):
    key = ("iso", mode, backend, os.getpid())
    if key not in _W:
        _W[key] = IsoEmu(mode, backend)
    return _W[key].run(code, sts)


def compare(form, st, nat, emu):
    """List of (component, detail) on which miasm contradicts the host for this case; [] when equal. None = skipped (undefined result)."""
    mode = form["mode"]
    if emu["outcome"] == "raise":
        if FLOAT_OPS.search(emu["err"]) and ("simplification is missing" in emu["err"] or "Unknown op" in emu["err"]):
            return "float-unsupported"        # floating point operator the backend cannot evaluate: skipped and counted
        return [("raise:" + emu["err"].split(":")[0], emu["err"])]
    if nat["outcome"] != emu["outcome"]:
        return [("outcome:native=%s,miasm=%s" % (nat["outcome"], emu["outcome"]), "native %s, miasm %s" % (nat["outcome"], emu["outcome"]))]
    if nat["outcome"] != "ok":
        return []
    undef, skip, dst_undef = undefined(form, st, nat["flags"])
    if skip:
        return None
    diffs = []
    if emu["pc"] != CODE + len(form["code"]):
        diffs.append(("pc", "next pc %#x, expected %#x" % (emu["pc"], CODE + len(form["code"]))))
    gm = (1 << 64) - 1 if mode == 64 else 0xFFFFFFFF
    for i, n in enumerate(GPR):
        if dst_undef and n == form["dst"]:
            continue
        a, b = nat["gpr"][i] & gm, emu["gpr"][i] & gm
        if a != b:
            role = form["roles"].get(n, n)
            diffs.append(("reg:" + role, "%s native %#x miasm %#x" % (n, a, b)))
    for i in range(16):
        if nat["xmm"][i] != emu["xmm"][i]:
            role = form["roles"].get("XMM%d" % i, "XMM%d" % i)
            diffs.append(("xmm:" + role, "XMM%d native %#034x miasm %#034x" % (i, nat["xmm"][i], emu["xmm"][i])))
    for i in range(8):
        if nat["mm"][i] != emu["mm"][i]:
            role = form["roles"].get("MM%d" % i, "MM%d" % i)
            diffs.append(("mm:" + role, "MM%d native %#018x miasm %#018x" % (i, nat["mm"][i], emu["mm"][i])))
    if nat["win"] != emu["win"]:
        k = next(i for i in range(WIN_LEN) if nat["win"][i] != emu["win"][i])
        diffs.append(("mem:window", "window+%#x.. native %s miasm %s" % (k, nat["win"][k:k + 16].hex(), emu["win"][k:k + 16].hex())))
    if bool(nat["dirty"]) != bool(emu["dirty"]):
        diffs.append(("mem:outside-window", "bytes outside the window changed: native %d miasm %d" % (nat["dirty"], emu["dirty"])))
    cmpmask = (STATUS | DF) & ~undef
    d = (nat["flags"] ^ emu["flags"]) & cmpmask
    for fn, bit in FLAGBITS:
        if d & bit:
            diffs.append(("flag:" + fn, "%s native %d miasm %d (flags in %#x, native out %#x, miasm out %#x)" % (
                fn, 1 if nat["flags"] & bit else 0, 1 if emu["flags"] & bit else 0, st["flags"], nat["flags"], emu["flags"])))
    return diffs


def describe_state(form, st):
    parts = []
    bg = gpr_bg(form["mode"])
    for i, n in enumerate(GPR):
        if st["gpr"][i] != bg[i] or n in form["roles"]:
            parts.append("%s=%#x" % (n, st["gpr"][i]))
    xb = xmm_bg()
    for i in range(16):
        if st["xmm"][i] != xb[i]:
            parts.append("XMM%d=%#x" % (i, st["xmm"][i]))
    mb = mm_bg()
    for i in range(8):
        if st["mm"][i] != mb[i]:
            parts.append("MM%d=%#x" % (i, st["mm"][i]))
    parts.append("flags=%#x" % st["flags"])
    for s in form["slots"]:
        if s["k"] == "mem":
            off = s["addr"] - WIN
            parts.append("@%d[%#x]=%#x" % (s["w"], s["addr"], int.from_bytes(st["win"][off:off + s["w"] // 8], "little")))
    return " ".join(parts)


def case_record(form, backend, st):
    return {"mode": form["mode"], "backend": backend, "group": form["group"], "asm": form["text"], "code": form["code"].hex(),
            "gpr": ["%x" % g for g in st["gpr"]], "xmm": ["%x" % x for x in st["xmm"]], "mm": ["%x" % x for x in st["mm"]], "flags": st["flags"],
            "win": st["win"].hex()}


def judge(form, backend, st, nat, emu, tally):
    """Violations (records) of one case; updates the tally."""
    res = compare(form, st, nat, emu)
    if res is None:
        tally["undefined_result_skipped"] = tally.get("undefined_result_skipped", 0) + 1
        return []
    if res == "float-unsupported":
        k = "float_op_unsupported_cases_" + backend
        tally[k] = tally.get(k, 0) + 1
        return "float"
    vs = []
    cc = count_class(form, st)
    for comp, detail in res:
        sig = "x86_%d|%s|%s|%s|%s%s" % (form["mode"], backend, form["name"], form["fclass"], (cc + "|") if cc else "", comp)
        what = "%s [%s] (%d-bit mode, %s jitter): %s; input %s" % (form["text"], form["code"].hex(), form["mode"], backend, detail,
                                                                describe_state(form, st))
        vs.append(violation(sig, what, case_record(form, backend, st)))
    return vs


# ------------------------------------------------------------------------------------------------------------------
# workers
# ------------------------------------------------------------------------------------------------------------------
_W = {}
_CFG = {}
CAP_QUICK = 50
CAP_THOROUGH = 500
MAX_WITNESS_PER_SIG = 2
QUICK_32_STRIDE = 3          # quick tier executes every third admitted 32-bit mode form
GCC_STRIDE = 4               # thorough tier: the GCC backend runs every fourth form (and every floating point form)


def _load():
    if "loaded" in _W:
        return
    from mc import native
    native.activate(["JitCore_x86"])
    from mc import jitprog
    if not os.environ.get("C18_KEEP_STDERR"):
        jitprog.silence_stderr()
    _W["loaded"] = True


def _helper():
    if "helper" not in _W or _W.get("helper_pid") != os.getpid():
        _W["helper"] = Helper(_CFG["exe"])
        _W["helper_pid"] = os.getpid()
    return _W["helper"]


def _emu(mode, backend):
    key = ("emu", mode, backend, os.getpid())
    if key not in _W:
        _W[key] = Emu(mode, backend)
    return _W[key]


def llvm_mnemonics(codes):
    """{code: (mnemonic under i386, mnemonic under x86_64)} through llvm-mc, or None when the tool is missing."""
    exe = shutil.which("llvm-mc")
    if not exe or not codes:
        return None
    out = {}
    res = {}
    for triple in ("i386", "x86_64"):
        # every case is followed by 16 NOPs, an INT3 marker and 16 NOPs: the output stays aligned even when llvm-mc rejects a
        # case and re-synchronises byte by byte (a mis-parse can swallow at most 14 bytes of the sled, never the marker)
        sled = "0x90 " * 16
        txt = "".join(" ".join("0x%02x" % b for b in c) + "\n" + sled + "\n0xcc\n" + sled + "\n" for c in codes)
        p = subprocess.run([exe, "--disassemble", "-triple=" + triple, "-output-asm-variant=1"], input=txt.encode(),
                           stdout=subprocess.PIPE, stderr=subprocess.DEVNULL)
        lines = [l.strip() for l in p.stdout.decode(errors="replace").splitlines()]
        lines = [l for l in lines if l and not l.startswith(".")]
        groups = [[]]
        for l in lines:
            if l == "int3":
                groups.append([])
            elif l != "nop":
                groups[-1].append(l)
        groups = groups[:-1]
        res[triple] = groups
    if len(res["i386"]) != len(codes) or len(res["x86_64"]) != len(codes):
        return None
    for c, a, b in zip(codes, res["i386"], res["x86_64"]):
        a = a[0] if len(a) == 1 else ("nop" if (not a and c == b"\x90") else "invalid:" + ";".join(a))
        b = b[0] if len(b) == 1 else ("nop" if (not b and c == b"\x90") else "invalid:" + ";".join(b))
        out[c] = (a, b)
    return out


def _norm_llvm(line):
    line = re.sub(r"\b[er](ax|bx|cx|dx|si|di|sp|bp)\b", r"\1", line)
    return re.sub(r"\s+", " ", line)


FP_GROUPS = ("fp64", "fp32", "fpcvt")


def lattice_tier(form, backend, tier):
    """The GCC backend shares sem.py with the Python one (the C translation itself is C04/C20's subject): in the thorough tier it
    runs the quick lattice, except for the floating point groups that the Python backend cannot evaluate at all."""
    if tier == "thorough" and backend == "gcc" and form["group"] not in FP_GROUPS:
        return "quick"
    return tier


def run_form(form, backends, tier, tally, sigs):
    """Execute every case of @form natively and through miasm; returns violations."""
    vs = []
    natives = {}
    for backend in backends:
        lt = lattice_tier(form, backend, tier)
        if lt not in natives:
            sts, levels = cases(form, lt)
            nat = _helper().run(form["code"], sts)
            natives[lt] = (sts, nat)
            g = tally.setdefault("by_group", {}).setdefault("%d:%s" % (form["mode"], form["group"]), {"forms": 0, "cases": 0})
            g["forms"] += 1 if len(natives) == 1 else 0
            g["cases"] += len(sts)
            for n_, st in zip(nat, sts):
                oc = n_["outcome"]
                tally.setdefault("native_outcomes", {})
                tally["native_outcomes"][oc] = tally["native_outcomes"].get(oc, 0) + 1
                if oc != "ok" or n_["gpr"] != st["gpr"] or n_["xmm"] != st["xmm"] or n_["mm"] != st["mm"] or n_["win"] != st["win"] or \
                        (n_["flags"] ^ st["flags"]) & (STATUS | DF):
                    tally["nontrivial"] = tally.get("nontrivial", 0) + 1
            tally["distinct_native_results"] = tally.get("distinct_native_results", 0) + len(
                {(n_["outcome"], n_["flags"], n_["gpr"][0], n_["gpr"][2], n_["xmm"][1], n_["mm"][1], n_["win"][0x80:0x90]) for n_ in nat})
        sts, nat = natives[lt]
        if backend == "gcc":
            emu_results = emu_isolated(form["mode"], backend, form["code"], sts)
        else:
            emu = _emu(form["mode"], backend)
            emu.load(form["code"])
            emu_results = None
        floaty = False
        ev = tally.setdefault("evaluations_by_backend", {})
        ev[backend] = ev.get(backend, 0) + len(sts)
        for k_, (st, n_) in enumerate(zip(sts, nat)):
            e_ = emu_results[k_] if emu_results is not None else emu.run(st)
            tally["evaluations"] = tally.get("evaluations", 0) + 1
            mo = tally.setdefault("miasm_outcomes", {})
            mo[e_["outcome"]] = mo.get(e_["outcome"], 0) + 1
            r = judge(form, backend, st, n_, e_, tally)
            if r == "float":
                floaty = True
                continue
            for v in r:
                c = sigs.get(v["sig"], 0)
                sigs[v["sig"]] = c + 1
                if c < MAX_WITNESS_PER_SIG:
                    vs.append(v)
        if floaty:
            tally.setdefault("forms_float_unsupported_" + backend, []).append("%d:%s" % (form["mode"], form["text"]))
    return vs


def _work(shard):
    """shard = (tier, backends, helper executable, [(index, mode, group, text, codehex)])"""
    import time
    t_start = time.time()
    _load()
    tier, backends, exe, items = shard
    _CFG["exe"] = exe
    if "stdout_silenced" not in _W:
        import multiprocessing
        _W["stdout_silenced"] = True
        if multiprocessing.current_process().name != "MainProcess":
            # miasm's bn.c prints debugging chatter ("a neg", "b neg") on stdout from the GCC-jitted code
            fd = os.open(os.devnull, os.O_WRONLY)
            os.dup2(fd, 1)
            os.close(fd)
    tally = {}
    sigs = {}
    vs = []
    for idx, mode, group, text, chex in items:
        code = bytes.fromhex(chex)
        try:
            form = prepare(mode, group, text, code)
        except NotImplementedError as e:
            tally.setdefault("not_implemented_in_sem", []).append("%d:%s" % (mode, text))
            continue
        except Exception as e:
            sig = "x86_%d|lift|%s|raise:%s" % (mode, text.split(" ")[0] if not text.startswith("REP") else text, type(e).__name__)
            vs.append(violation(sig, "lifting %s [%s] in %d-bit mode raised %s: %s" % (text, chex, mode, type(e).__name__, str(e)[:200]),
                                {"mode": mode, "backend": "python", "group": group, "asm": text, "code": chex, "lift_only": True}))
            continue
        bks = [b for b in backends if b != "gcc" or group in FP_GROUPS or idx % GCC_STRIDE == 0]
        vs.extend(run_form(form, bks, tier, tally, sigs))
        tally.setdefault("samples", [])
        if len(tally["samples"]) < 1:
            sts, _ = cases(form, tier)
            tally["samples"].append({"asm": text, "code": chex, "mode": mode, "cases": len(sts), "first_input": describe_state(form, sts[0])})
    tally["sig_counts"] = sigs
    tally["shard_seconds"] = round(time.time() - t_start, 2)
    return tally, vs


def _merge(dst, src):
    for k, v in src.items():
        if isinstance(v, dict):
            _merge(dst.setdefault(k, {}), v)
        elif isinstance(v, list):
            dst.setdefault(k, []).extend(v)
        elif isinstance(v, (int, float)):
            dst[k] = dst.get(k, 0) + v
        else:
            dst[k] = v


def run(ctx):
    try:
        return _run(ctx)
    except Exception:
        import traceback
        traceback.print_exc(file=sys.stdout)
        raise


def _run(ctx):
    import time
    t0 = time.time()
    _load()
    from mc import native
    tier = ctx.tier
    phase = {"load": round(time.time() - t0, 1)}
    f64 = forms64()
    f32 = forms32()
    todo = [(64, t) for g, t in f64] + [(32, t) for g, t in f32]
    t1 = time.time()
    asm, cached = assemble_all(ctx, todo)
    phase["assemble"] = round(time.time() - t1, 1)
    items = []
    not_asm = []
    seen = set()
    dup = 0
    for mode, fl in ((64, f64), (32, f32)):
        for g, t in fl:
            b = asm.get((mode, t), "!missing")
            if b.startswith("!"):
                not_asm.append("%d:%s (%s)" % (mode, t, b[1:]))
                continue
            if (mode, b) in seen:
                dup += 1
                continue
            seen.add((mode, b))
            items.append((mode, g, t, b))
    # 32-bit mode: admit only mode-invariant encodings (byte-level rule, cross-checked with llvm-mc when available)
    codes32 = [bytes.fromhex(b) for mo, g, t, b in items if mo == 32]
    t1 = time.time()
    llvm = llvm_mnemonics(codes32)
    phase["llvm_mc"] = round(time.time() - t1, 1)
    admitted, rejected, kept = [], {}, []
    n32 = 0
    for it in items:
        mode, g, t, b = it
        if mode == 32:
            code = bytes.fromhex(b)
            ok, why = mode_invariant(code)
            if ok and llvm is not None:
                a_, b_ = llvm[code]
                if _norm_llvm(a_) != _norm_llvm(b_) or "invalid" in a_ or "invalid" in b_:
                    ok, why = False, "llvm-mc-differs"
            if not ok:
                rejected.setdefault(why, []).append(t)
                continue
            admitted.append(t)
            n32 += 1
            if ctx.quick and (n32 - 1) % QUICK_32_STRIDE:
                continue
        kept.append(it)
    items = [(i,) + it for i, it in enumerate(kept)]
    outdir = tempfile.mkdtemp(prefix="c18_", dir=native.tmpdir())
    try:
        _CFG["exe"] = build_helper(outdir)
        backends = ["python"] if ctx.quick else ["python", "gcc"]
        if os.environ.get("C18_BACKENDS"):          # debugging aid only
            backends = os.environ["C18_BACKENDS"].split(",")
        # heavy forms first within an interleaved sharding so that the 16 workers stay balanced
        nsh = 64 if ctx.quick else 256
        shards = [(tier, backends, _CFG["exe"], items[i::nsh]) for i in range(nsh)]
        shards = [s for s in shards if s[3]]
        t1 = time.time()
        res = ctx.pmap(_work, shards)
        phase["execute"] = round(time.time() - t1, 1)
    finally:
        shutil.rmtree(outdir, ignore_errors=True)
    tally = {}
    for t, vs in res:
        ctx.add_violations(vs)
        _merge(tally, t)
    by_group = tally.get("by_group", {})
    cov = {
        "evaluations": tally.get("evaluations", 0),
        "distinct_nontrivial": tally.get("nontrivial", 0),
        "distinct_native_results": tally.get("distinct_native_results", 0),
        "evaluations_by_backend": tally.get("evaluations_by_backend", {}),
        "native_cases": sum(v["cases"] for v in by_group.values()),
        "forms_executed": sum(v["forms"] for v in by_group.values()),
        "forms_64": sum(v["forms"] for k, v in by_group.items() if k.startswith("64:")),
        "forms_32_admitted": len(admitted),
        "forms_32_executed": sum(v["forms"] for k, v in by_group.items() if k.startswith("32:")),
        "forms_32_rejected": sum(len(v) for v in rejected.values()),
        "rejected_32_by_reason": {k: len(v) for k, v in rejected.items()},
        "rejected_32_examples": {k: v[:6] for k, v in rejected.items()},
        "llvm_mc_cross_check": llvm is not None,
        "forms_not_assemblable": len(not_asm),
        "not_assemblable": not_asm[:60],
        "duplicate_encodings_dropped": dup,
        "not_implemented_in_sem": tally.get("not_implemented_in_sem", []),
        "forms_float_unsupported_python": sorted(set(tally.get("forms_float_unsupported_python", []))),
        "forms_float_unsupported_gcc": sorted(set(tally.get("forms_float_unsupported_gcc", []))),
        "float_cases_skipped_python": tally.get("float_op_unsupported_cases_python", 0),
        "float_cases_skipped_gcc": tally.get("float_op_unsupported_cases_gcc", 0),
        "undefined_result_skipped": tally.get("undefined_result_skipped", 0),
        "native_outcomes": tally.get("native_outcomes", {}),
        "miasm_outcomes": tally.get("miasm_outcomes", {}),
        "by_group": by_group,
        "violating_cases_by_signature": dict(sorted(tally.get("sig_counts", {}).items())),
        "asm_cache_hit": cached,
        "phase_seconds": phase,
        "shard_seconds_max": max(t.get("shard_seconds", 0) for t, _ in res),
        "shard_seconds_sum": round(sum(t.get("shard_seconds", 0) for t, _ in res), 1),
        "samples": tally.get("samples", [])[:6],
        "exhaustive": True,
        "bounds": {"tier": tier, "backends": backends, "cap_per_form": CAP_QUICK if ctx.quick else CAP_THOROUGH,
                   "start_level": 1 if ctx.quick else 3,
                   "gcc_backend_forms": "none" if ctx.quick else "every %d-th form and all floating point forms" % GCC_STRIDE,
                   "gcc_backend_lattice": "none" if ctx.quick else "quick lattice (start level 1, cap %d); floating point groups: thorough lattice" % CAP_QUICK,
                   "value_levels": "3: refsem.boundary(w); 2: 8 values; 1: {0,1,2^(w-1)-1,2^(w-1),2^w-1}; 0: {1,2^w-1}",
                   "unread_flags": "alternating all-clear/all-set from case to case",
                   "start_level_32bit_mode": 1 if ctx.quick else 2,
                   "rep_counts": [0, 1, 2, 3], "window_bytes": WIN_LEN, "templates_64": len(f64), "templates_32": len(f32),
                   "stride_32bit_forms": QUICK_32_STRIDE if ctx.quick else 1},
    }
    return cov


def replay(case):
    _load()
    from mc import native
    mode = case["mode"]
    backend = case["backend"]
    code = bytes.fromhex(case["code"])
    if case.get("lift_only"):
        try:
            prepare(mode, case["group"], case["asm"], code)
        except NotImplementedError:
            return []
        except Exception as e:
            sig = "x86_%d|lift|%s|raise:%s" % (mode, case["asm"].split(" ")[0] if not case["asm"].startswith("REP") else case["asm"],
                                              type(e).__name__)
            return [violation(sig, "lifting %s raised %s: %s" % (case["asm"], type(e).__name__, str(e)[:200]), case)]
        return []
    form = prepare(mode, case["group"], case["asm"], code)
    st = {"gpr": [int(x, 16) for x in case["gpr"]], "xmm": [int(x, 16) for x in case["xmm"]], "flags": case["flags"],
          "mm": [int(x, 16) for x in case["mm"]] if case.get("mm") else mm_bg(), "win": bytes.fromhex(case["win"])}
    outdir = tempfile.mkdtemp(prefix="c18_", dir=native.tmpdir())
    try:
        _CFG["exe"] = build_helper(outdir)
        h = Helper(_CFG["exe"])
        try:
            nat = h.run(code, [st])[0]
        finally:
            h.close()
    finally:
        shutil.rmtree(outdir, ignore_errors=True)
    if backend == "gcc":
        e_ = emu_isolated(mode, backend, code, [st])[0]
    else:
        emu = Emu(mode, backend)
        emu.load(code)
        e_ = emu.run(st)
    r = judge(form, backend, st, nat, e_, {})
    return [] if r == "float" else r


if __name__ == "__main__":
    if "--regen-table" in sys.argv:
        regen_table()
