"""C20 - all jitter backends produce the same execution.

Engine `dev` + differential.  Programs are ALL sequences (up to a length bound) over an ordered per-architecture
instruction alphabet, each followed by the architecture's return sequence; every program is run under the Python
backend and under the GCC backend from the same initial state on the same memory map, and the two runs must end
with identical registers (every register the cpu object exposes, flags and pc included), identical contents and
permissions of every memory page, identical cpu and vm exception flags and identical breakpoint-hit sequences.

    initial states   a small lattice of values for the accumulator / counter / second operand registers
    memory maps      rw (data page readable+writable), ro (read-only), missing (no data page),
                     straddle (rw page, data pointer half an access width before its end: word accesses cross into
                               unmapped memory)
                     straddle_ro / straddle_wo (same pointer, the next page is mapped read-only / write-only: a word
                               store resp. load runs into a mapped page lacking the right; enumerated for the programs
                               that contain a memory instruction)
    deviation        the default run has no breakpoint; one logging breakpoint (callback returns True) is placed at
                     each instruction boundary in turn (start, every interior boundary, the return sequence)

Besides the sequence lattice, x86_32 gets two fixed counted loops (`LOOP $`, a single instruction that branches to its
own address, and `DEC ECX; JNZ start`) from every state with a non-zero counter, with a breakpoint on every boundary in
turn: the breakpoint on the loop instruction must be hit once per iteration on both backends.

A disagreement is attributed to the instruction that completes the shortest disagreeing prefix of the program
(the program lattice is prefix-closed), and, for breakpoint runs that disagree although the breakpoint-free run
agrees, to the instruction the breakpoint sits on.
"""
import sys

PROP = "C20"
LEVEL = "exploration"
ENGINE = "dev"
RULE = ("all instruction sequences up to the tier's length bound over the ordered alphabet of each architecture x register "
        "lattice x {rw, ro, missing, straddle, and for programs with a memory instruction straddle_ro, straddle_wo} memory maps, plus one breakpoint at each instruction boundary in turn; both "
        "backends run every case; a case is non-trivial when the program contains a memory-accessing instruction, the run "
        "ends in a fault, or a breakpoint fires")
LEVEL_TEXT = ("Complete enumeration of a finite lattice of programs, initial states, memory maps and breakpoint positions; the "
              "Python and GCC backends (C runtime rebuilt from the working tree, blocks compiled by the tree's code generator) "
              "are compared on every observable the property names.")
LEVEL_NOTE = ("Differential only: agreement of two backends, not correctness of either (the C memory manager's fault semantics "
              "are covered by C24). The LLVM backend is NOT covered: it needs llvmlite, which is not installed in this "
              "environment. x86 16-bit mode and the alphabets beyond the listed instructions are outside the bound; the "
              "non-x86 architectures are covered in the thorough tier only, with reduced alphabets and programs of at most two "
              "instructions. How a run is reported to the host (JitterException vs another Python exception) is not compared: "
              "the property speaks about registers, memory, exception flags and breakpoint hits.")
TECHNIQUE = "exhaustive enumeration of short programs x states x memory maps, Python backend vs GCC backend"
ASSUMPTIONS = ["the process-global simplifier pass table is put back to its import-time value before each jitter is created "
               "(a Python-backend Jitter appends passes to it)",
               "blocks compiled by the GCC backend are shared between cases through miasm's own on-disk block cache, private to "
               "one check run and keyed by block address and bytes"]

BACKENDS = ("python", "gcc")
KINDS = ("rw", "ro", "missing", "straddle")
# straddle into a MAPPED neighbour page with weaker rights (rw data page, pointer as in `straddle`): next page read-only
# (a word store must fault, a word load must not) / next page write-only, i.e. without PAGE_READ (a word load must fault).
# Only meaningful for programs that access data memory: enumerated for the programs containing a memory instruction.
EXTRA_KINDS = ("straddle_ro", "straddle_wo")
NEXT_PAGE_PERM = {"straddle_ro": 1, "straddle_wo": 2}
R, W = 1, 2
DATA, DATA_SIZE = 0x2000, 0x40
MAX_DISPATCH = 400


def JCC_SKIP_NEXT(arch, prog, i, lens):
    """x86: JZ over the next instruction (over nothing when it is the last one)."""
    skip = lens[i + 1] if i + 1 < len(prog) else 0
    return bytes([0x74, skip])


def X86_LOOP_SELF(arch, prog, i, lens):
    """x86: LOOP $ - decrement the counter and branch to the instruction's OWN address while it is not zero."""
    return bytes([0xE2, 0xFE])


def X86_JNZ_START(arch, prog, i, lens):
    """x86: JNZ back to the first instruction of the program."""
    return bytes([0x75, (-(sum(lens[:i]) + 2)) & 0xFF])


def MIPS_BEQ(arch, prog, i, lens):
    """mips32: BEQ A1, ZERO to the JR RA of the return sequence; the next instruction sits in its delay slot and the
    ADDIU that opens the return sequence is skipped when the branch is taken from an earlier position."""
    return _asm(arch, "BEQ A1, ZERO, 0x%X" % ((len(prog) - i) * 4))


# Per architecture: ordered alphabet (simplest first) of (name, assembly text or generator, touches memory),
# return sequence, registers: ptr (data pointer), ptr2 (second pointer, one byte further / source), link or stack return,
# states: values for (acc, cnt, op2); sub = indexes of the reduced alphabet used for the longest programs.
SPECS = {
    "x86_32": {
        "ext": "JitCore_x86",
        "alphabet": [
            ("ADD-rr", "ADD EAX, EDX", False),
            ("SUB-ri", "SUB ECX, 0x1", False),
            ("ADD-ptr", "ADD EBX, 0x3E", False),
            ("SHL-cl", "SHL EAX, CL", False),
            ("MOV-load", "MOV EAX, DWORD PTR [EBX]", True),
            ("MOV-store", "MOV DWORD PTR [EBX], EAX", True),
            ("MOVSX-load8", "MOVSX EDX, BYTE PTR [EBX+0x1]", True),
            ("PUSH", "PUSH EAX", True),
            ("POP", "POP EDX", True),
            ("JZ-skip", JCC_SKIP_NEXT, False),
            ("DIV", "DIV ECX", False),
            ("REP-MOVSB", "REP MOVSB", True),
            ("XCHG-mem", "XCHG DWORD PTR [EBX], EAX", True),
            ("POP-mem", "POP DWORD PTR [EBX]", True),
            # loop instructions: only used in the fixed `loops` programs below, never in the sequence lattice (with a
            # zero counter they iterate 2^32 times, and the chained execution of compiled blocks cannot be interrupted)
            ("LOOP-self", X86_LOOP_SELF, False),
            ("DEC-cnt", "DEC ECX", False),
            ("JNZ-start", X86_JNZ_START, False),
        ],
        "seq": 14,                          # the sequence lattice uses the first 14 entries
        "loops": [(14,), (15, 16)],         # LOOP $ (a single instruction branching to itself) / DEC ECX; JNZ start
        "end": ["RET"],
        "acc": "EAX", "cnt": "ECX", "op2": "EDX", "ptr": "EBX", "src": "ESI", "dst": "EDI",
        "ret": "stack",
        "states": [(0x1, 0x0, 0x0), (0x80000001, 0x1, 0x0), (0x7FFFFFFF, 0x3, 0x2), (0xFFFFFFFF, 0x2, 0x1)],
        "wide": 4,
    },
    "x86_64": {
        "ext": "JitCore_x86",
        "alphabet": [
            ("ADD-rr", "ADD RAX, RDX", False),
            ("SUB-ri", "SUB RCX, 0x1", False),
            ("MOV-load", "MOV RAX, QWORD PTR [RBX]", True),
            ("MOV-store", "MOV QWORD PTR [RBX], RAX", True),
            ("PUSH", "PUSH RAX", True),
        ],
        "end": ["RET"],
        "acc": "RAX", "cnt": "RCX", "op2": "RDX", "ptr": "RBX", "src": "RSI", "dst": "RDI",
        "ret": "stack",
        "states": [(0x1, 0x0, 0x0), (0x8000000000000001, 0x1, 0x7)],
        "wide": 8,
    },
    "arml": {
        "ext": "JitCore_arm",
        "alphabet": [
            ("ADD-rr", "ADD R0, R0, R1", False),
            ("SUBS-ri", "SUBS R2, R2, 0x1", False),
            ("LDR", "LDR R0, [R3]", True),
            ("STR", "STR R0, [R3]", True),
            ("STRH-off", "STRH R0, [R3, 0x2]", True),
        ],
        "end": ["BX LR"],
        "acc": "R0", "cnt": "R2", "op2": "R1", "ptr": "R3", "src": "R4", "dst": "R5",
        "ret": "LR",
        "states": [(0x1, 0x0, 0x0), (0x80000001, 0x1, 0x7FFFFFFF)],
        "wide": 4,
    },
    "aarch64l": {
        "ext": "JitCore_aarch64",
        "alphabet": [
            ("ADD-rr", "ADD X0, X0, X1", False),
            ("SUBS-ri", "SUBS X2, X2, 0x1", False),
            ("LDR", "LDR X0, [X3]", True),
            ("STR", "STR X0, [X3]", True),
            ("STP", "STP X0, X1, [X3]", True),
        ],
        "end": ["RET LR"],
        "acc": "X0", "cnt": "X2", "op2": "X1", "ptr": "X3", "src": "X4", "dst": "X5",
        "ret": "LR",
        "states": [(0x1, 0x0, 0x0), (0x8000000000000001, 0x1, 0x7FFFFFFFFFFFFFFF)],
        "wide": 8,
    },
    "mips32l": {
        "ext": "JitCore_mips32",
        "alphabet": [
            ("ADDU-rr", "ADDU V0, V0, V1", False),
            ("ADDIU-ri", "ADDIU A1, A1, -1", False),
            ("LW", "LW V0, 0x0(A0)", True),
            ("SW", "SW V0, 0x0(A0)", True),
            ("BEQ-delay-slot", MIPS_BEQ, False),
        ],
        "end": ["ADDIU V1, V1, 0x1", "JR RA", "NOP"],
        "acc": "V0", "cnt": "A1", "op2": "V1", "ptr": "A0", "src": "A2", "dst": "A3",
        "ret": "RA",
        "states": [(0x1, 0x0, 0x0), (0x80000001, 0x1, 0x7FFFFFFF)],
        "wide": 4,
    },
    "ppc32b": {
        "ext": "JitCore_ppc32",
        "alphabet": [
            ("ADD-rr", "ADD R3, R3, R4", False),
            ("ADDI-ri", "ADDI R5, R5, -1", False),
            ("LWZ", "LWZ R3, 0x0(R6)", True),
            ("STW", "STW R3, 0x0(R6)", True),
            ("STH-off", "STH R3, 0x2(R6)", True),
        ],
        "end": ["hex:4e800020"],       # BLR
        "acc": "R3", "cnt": "R5", "op2": "R4", "ptr": "R6", "src": "R7", "dst": "R8",
        "ret": "LR",
        "states": [(0x1, 0x0, 0x0), (0x80000001, 0x1, 0x7FFFFFFF)],
        "wide": 4,
    },
    "msp430": {
        "ext": "JitCore_msp430",
        "alphabet": [
            ("add-rr", "add.w R4, R5", False),
            ("sub-ri", "sub.w 0x1, R6", False),
            ("mov-load", "mov.w @R7, R4", True),
            ("mov-store", "mov.w R4, 0x0(R7)", True),
            ("push", "push.w R4", True),
        ],
        "end": ["mov.w R8, PC"],
        "acc": "R4", "cnt": "R6", "op2": "R5", "ptr": "R7", "src": "R9", "dst": "R10",
        "ret": "R8", "end_addr": 0xBEE0, "stack": (0x3000, 0x100),
        "states": [(0x1, 0x0, 0x0), (0x8001, 0x1, 0x7FFF)],
        "wide": 2,
    },
    "mepb": {
        "ext": "JitCore_mep",
        "alphabet": [
            ("ADD3-rr", "ADD3 R0, R0, R1", False),
            ("ADD-ri", "ADD R2, -1", False),
            ("LW", "LW R0, (R3)", True),
            ("SW", "SW R0, (R3)", True),
            ("SH", "SH R0, (R3)", True),
        ],
        "end": ["RET"],
        "acc": "R0", "cnt": "R2", "op2": "R1", "ptr": "R3", "src": "R4", "dst": "R5",
        "ret": "LP",
        "states": [(0x1, 0x0, 0x0), (0x80000001, 0x1, 0x7FFFFFFF)],
        "wide": 4,
    },
}

# Tier bounds, per architecture:
#   full_bp   max program length over the full alphabet, with the breakpoint deviations
#   full      max program length over the full alphabet, without breakpoints
#   sub_bp    max program length over the reduced alphabet `sub`, with the breakpoint deviations
#   sub       max program length over the reduced alphabet `sub`, without breakpoints
#   states    number of register states (prefix of the architecture's lattice)
# The GCC backend runs the C compiler once per distinct block (a breakpoint splits the program's block in two), which
# costs 0.3 s of CPU on an idle machine and more than 2 s on a heavily loaded one: this bounds what a tier can afford.
#   extra_bp  single-instruction programs that also get the breakpoint deviations (an instruction that re-enters
#             its own block - REP - is where a breakpoint must stop the chained execution of compiled blocks)
def _b(full_bp, full, sub_bp, sub, states, sub_idx, extra_bp=()):
    return {"full_bp": full_bp, "full": full, "sub_bp": sub_bp, "sub": sub, "states": states, "sub_idx": sub_idx,
            "extra_bp": list(extra_bp)}


BOUNDS = {
    "quick": {"x86_32": _b(0, 1, 1, 2, 3, [1, 4, 5, 9], extra_bp=[11])},
    "thorough": {"x86_32": _b(1, 2, 2, 3, 3, [1, 2, 4, 5, 9]),
                 "x86_64": _b(0, 1, 1, 2, 2, [1, 2, 3]), "arml": _b(0, 1, 1, 2, 2, [1, 2, 3]),
                 "aarch64l": _b(0, 1, 1, 2, 2, [1, 2, 3]), "mips32l": _b(0, 1, 1, 2, 2, [2, 3, 4]),
                 "ppc32b": _b(0, 1, 1, 2, 2, [1, 2, 3]), "msp430": _b(0, 1, 1, 2, 2, [1, 2, 3]),
                 "mepb": _b(0, 1, 1, 2, 2, [1, 2, 3])},
}
SUB3_X86_32 = [1, 5, 9]          # thorough: the length-3 programs use this 3-instruction alphabet
BP_STATE = {"x86_32": 2}      # register state used for the breakpoint deviations (default: the last one)

_mods = {}
_asm_cache = {}
_memo = {}


def _load(archs=None):
    if _mods:
        return _mods
    from mc import jitcmp
    exts = sorted(set(SPECS[a]["ext"] for a in (archs or SPECS)))
    jitcmp.load(exts)
    from mc import jitprog
    _mods.update(J=jitprog, C=jitcmp)
    return _mods


def _asm(arch, text):
    """Bytes of one instruction (miasm's assembler, first candidate; `hex:` gives the encoding directly)."""
    key = (arch, text)
    if key in _asm_cache:
        return _asm_cache[key]
    from miasm.analysis.machine import Machine
    from miasm.core.locationdb import LocationDB
    m = Machine(arch)
    loc_db = LocationDB()
    if text.startswith("hex:"):
        out = bytes.fromhex(text[4:])
    elif arch.startswith("mep"):
        ins = m.mn.fromstring(text, arch[-1])
        ins.mode = arch[-1]
        out = m.mn.asm(ins)[0]
    else:
        attrib = m.dis_engine(b"", loc_db=loc_db).attrib
        ins = m.mn.fromstring(text, loc_db, attrib)
        out = m.mn.asm(ins)[0]
    _asm_cache[key] = bytes(out)
    return _asm_cache[key]


def build(arch, prog):
    """(code bytes, [address of every instruction boundary: program instructions, then the return sequence])."""
    m = _load()
    spec = SPECS[arch]
    lens = []
    for idx in prog:
        t = spec["alphabet"][idx][1]
        lens.append(len(_asm(arch, t)) if isinstance(t, str) else (2 if arch.startswith("x86") else 4))
    code = b""
    offs = []
    for i, idx in enumerate(prog):
        t = spec["alphabet"][idx][1]
        b = _asm(arch, t) if isinstance(t, str) else t(arch, prog, i, lens)
        assert len(b) == lens[i]
        offs.append(m["J"].CODE + len(code))
        code += b
    offs.append(m["J"].CODE + len(code))
    for t in spec["end"]:
        code += _asm(arch, t)
    return code, offs


def programs(arch, tier):
    """[(program, with breakpoint deviations?)] in order: shorter first, alphabet order."""
    import itertools
    spec = SPECS[arch]
    b = BOUNDS[tier][arch]
    n = spec.get("seq", len(spec["alphabet"]))
    out = []
    for length in range(0, max(b["full_bp"], b["full"], b["sub_bp"], b["sub"]) + 1):
        for prog in itertools.product(range(n), repeat=length):
            sub_idx = b["sub_idx"]
            if arch == "x86_32" and tier == "thorough" and length == 3:
                sub_idx = SUB3_X86_32
            in_sub = all(i in sub_idx for i in prog)
            if not (length <= b["full"] or length <= b["full_bp"] or (in_sub and (length <= b["sub"] or length <= b["sub_bp"]))):
                continue
            with_bp = (length <= b["full_bp"] or (in_sub and length <= b["sub_bp"]) or
                       (length == 1 and prog[0] in b["extra_bp"]))
            out.append((prog, with_bp))
    # counted loops, with a breakpoint on every boundary in turn (the loop instruction itself included): a backward
    # branch must return to the run loop on every iteration on both backends
    out += [(tuple(p), True) for p in spec.get("loops", ())]
    return out


def initial(arch, state_i, kind):
    """Registers, data page permission / presence for one (state, memory map kind)."""
    spec = SPECS[arch]
    acc, cnt, op2 = spec["states"][state_i]
    if kind.startswith("straddle"):
        ptr = DATA + DATA_SIZE - spec["wide"] // 2
        dst = DATA + DATA_SIZE - 1
    else:
        ptr = DATA + 0x10
        dst = DATA + 0x14
    regs = {spec["acc"]: acc, spec["cnt"]: cnt, spec["op2"]: op2, spec["ptr"]: ptr, spec["src"]: DATA + 0x20, spec["dst"]: dst}
    perm = R if kind == "ro" else R | W
    return regs, perm, kind != "missing"


def run_case(arch, backend, prog, state_i, kind, bp):
    """One run; returns the summary of the observables."""
    m = _load()
    J, C = m["J"], m["C"]
    spec = SPECS[arch]
    code, offs = build(arch, prog)
    regs, perm, mapped = initial(arch, state_i, kind)
    end = spec.get("end_addr", J.END)
    jit = C.fresh_jitter(arch, backend)
    if spec["ret"] != "stack":
        regs[spec["ret"]] = end
    extra = ()
    if kind in NEXT_PAGE_PERM:
        extra = ((DATA + DATA_SIZE, NEXT_PAGE_PERM[kind], bytes((i * 5 + 1) & 0xFF for i in range(DATA_SIZE))),)
    if "stack" in spec:
        base, size = spec["stack"]
        J.setup(jit, code, regs=regs, data_perm=perm, map_data=mapped, stack=False, extra_pages=extra)
        jit.vm.add_memory_page(base, R | W, b"\x00" * size, "stack")
        setattr(jit.cpu, "SP", base + size)
    else:
        J.setup(jit, code, regs=regs, data_perm=perm, map_data=mapped, extra_pages=extra)
    bps = [(offs[bp], bp, True)] if bp is not None else []
    obs = C.execute(jit, J.CODE, breakpoints=bps, max_dispatch=MAX_DISPATCH, end=end)
    return C.summary(obs)


def compare(arch, prog, state_i, kind, bp):
    """Run both backends; returns (tuple of differing components, python summary, gcc summary). Memoised per process."""
    key = (arch, prog, state_i, kind, bp)
    if key not in _memo:
        C = _load()["C"]
        a = run_case(arch, "python", prog, state_i, kind, bp)
        b = run_case(arch, "gcc", prog, state_i, kind, bp)
        _memo[key] = (tuple(C.diff(a, b)), a, b)
    return _memo[key]


def _name(arch, idx):
    return SPECS[arch]["alphabet"][idx][0]


def _text(arch, prog):
    spec = SPECS[arch]
    parts = []
    for i in prog:
        t = spec["alphabet"][i][1]
        parts.append(t if isinstance(t, str) else spec["alphabet"][i][0])
    return "; ".join(parts + [t if not t.startswith("hex:") else "BLR" for t in spec["end"]])


def judge(arch, prog, state_i, kind, bp):
    """[(sig, what)] for one case, [] when the backends agree. See the module docstring for the attribution."""
    C = _load()["C"]
    comps, a, b = compare(arch, prog, state_i, kind, bp)
    if not comps:
        return []
    spec = SPECS[arch]
    if bp is not None:
        base = compare(arch, prog, state_i, kind, None)[0]
        if base == comps or (base and set(comps) - {"bp_log"} == set(base)):
            return []          # same disagreement as without the breakpoint: reported there
        at = _name(arch, prog[bp]) if bp < len(prog) else "return"
        before = _name(arch, prog[bp - 1]) if bp > 0 else "start"
        sig = "%s:python-vs-gcc:breakpoint-on-%s-after-%s:%s:%s" % (arch, at, before, kind, "+".join(comps))
    else:
        k = len(prog)
        for j in range(1, len(prog)):
            if compare(arch, prog[:j], state_i, kind, None)[0]:
                k = j
                break
        culprit = _name(arch, prog[k - 1]) if k else "return"
        sig = "%s:python-vs-gcc:%s:%s:%s" % (arch, culprit, kind, "+".join(comps))
    regs, perm, mapped = initial(arch, state_i, kind)
    what = ("%s program [%s]%s, registers %s, data page %s: %s; python ended %s (pc=%s), gcc ended %s (pc=%s)" % (
        arch, _text(arch, prog), "" if bp is None else " with a breakpoint on boundary %d" % bp,
        {k: hex(v) for k, v in sorted(regs.items())},
        "not mapped" if not mapped else "%#x..%#x %s%s" % (
            DATA, DATA + DATA_SIZE, "read-only" if perm == R else "read-write",
            "" if kind not in NEXT_PAGE_PERM else ", followed by a %s page" % ("read-only" if NEXT_PAGE_PERM[kind] == R else "write-only")),
        C.describe_diff(a, b, ("python", "gcc")), a["error"] or a["term"], hex(a["pc"]), b["error"] or b["term"], hex(b["pc"])))
    return [(sig, what)]


def cases(arch, tier, prog, with_bp):
    """Every (state, kind, breakpoint) of one program."""
    spec = SPECS[arch]
    nstates = BOUNDS[tier][arch]["states"]
    has_mem = any(spec["alphabet"][i][2] for i in prog)
    kinds = KINDS + (EXTRA_KINDS if has_mem else ())
    states = list(range(nstates))
    if tuple(prog) in [tuple(p) for p in spec.get("loops", ())]:
        # loops: only states with a non-zero counter (termination), one memory map (they do not touch data memory),
        # the breakpoint deviations for every such state (the number of iterations is what matters)
        states = [s for s in states if spec["states"][s][1] != 0]
        kinds = ("rw",)
        out = [(s, kind, None) for s in states for kind in kinds]
        out += [(s, kind, bp) for s in states for kind in kinds for bp in range(len(prog) + 1)]
        return out
    out = [(s, kind, None) for s in states for kind in kinds]
    if with_bp:
        s = min(BP_STATE.get(arch, nstates - 1), nstates - 1)
        out += [(s, kind, bp) for kind in kinds for bp in range(len(prog) + 1)]
    return out


def work(shard):
    """shard = (arch, tier, [(program, with_bp)])."""
    import hashlib
    from mc.runner import violation
    import resource
    import time
    _load()
    arch, tier, progs = shard
    spec = SPECS[arch]
    t0 = (time.time(), time.process_time(), resource.getrusage(resource.RUSAGE_CHILDREN))
    res = {"evaluations": 0, "nontrivial": 0, "faulting": 0, "bp_hits": 0, "disagreeing": 0, "term_kind_differs": 0,
           "viol": [], "outcomes": set(), "samples": [], "programs": len(progs), "arch": arch}
    for prog, with_bp in progs:
        has_mem = any(spec["alphabet"][i][2] for i in prog)
        for (s, kind, bp) in cases(arch, tier, prog, with_bp):
            comps, a, b = compare(arch, prog, s, kind, bp)
            res["evaluations"] += 1
            fault = a["term"] != "end" or b["term"] != "end"
            res["faulting"] += 1 if fault else 0
            res["bp_hits"] += 1 if (a["bp_log"] or b["bp_log"]) else 0
            res["nontrivial"] += 1 if (has_mem or fault or a["bp_log"]) else 0
            res["disagreeing"] += 1 if comps else 0
            res["term_kind_differs"] += 1 if a["term"] != b["term"] else 0
            res["outcomes"].add(hashlib.sha1(repr((sorted(b["regs"].items()), b["cpu_exc"], b["vm_exc"], b["bp_log"],
                                                   sorted(b["mem"].items()))).encode()).hexdigest()[:12])
            for sig, what in judge(arch, prog, s, kind, bp):
                res["viol"].append(violation(sig, what, {"arch": arch, "prog": list(prog), "state": s, "kind": kind, "bp": bp}))
            if not res["samples"] and len(prog) == max(len(p) for p, _ in progs) and kind == "straddle":
                res["samples"].append({"arch": arch, "program": _text(arch, prog), "state": s, "map": kind, "breakpoint": bp,
                                       "python_ended": a["term"], "gcc_ended": b["term"], "differs": list(comps)})
    _memo.clear()
    r1 = resource.getrusage(resource.RUSAGE_CHILDREN)
    res["cost"] = (time.time() - t0[0], time.process_time() - t0[1], r1.ru_utime + r1.ru_stime - t0[2].ru_utime - t0[2].ru_stime)
    return res


def run(ctx):
    tier = "quick" if ctx.quick else "thorough"
    archs = list(BOUNDS[tier])
    _load(archs)
    shards = []
    per_arch_programs = {}
    for arch in archs:
        progs = programs(arch, tier)
        per_arch_programs[arch] = len(progs)
        for p, _ in progs:
            build(arch, p)          # assemble everything before forking: fail fast, workers inherit the cache
        # prefix-closed groups: programs sharing their first two instructions go to one shard (their blocks share prefixes)
        groups = {}
        for p, wb in progs:
            groups.setdefault(p[:2], []).append((p, wb))
        for key in sorted(groups):
            shards.append((arch, tier, groups[key]))
    results = ctx.pmap(work, shards)
    cov = {"evaluations": 0, "distinct_nontrivial": 0, "cases_ending_in_a_fault": 0, "cases_with_breakpoint_hits": 0,
           "cases_disagreeing": 0, "cases_reported_differently_to_the_host": 0}
    outcomes = set()
    per_arch = {}
    samples = []
    cost = [0.0, 0.0, 0.0]
    for r in results:
        for k in range(3):
            cost[k] += r["cost"][k]
        cov["evaluations"] += r["evaluations"]
        cov["distinct_nontrivial"] += r["nontrivial"]
        cov["cases_ending_in_a_fault"] += r["faulting"]
        cov["cases_with_breakpoint_hits"] += r["bp_hits"]
        cov["cases_disagreeing"] += r["disagreeing"]
        cov["cases_reported_differently_to_the_host"] += r["term_kind_differs"]
        outcomes |= r["outcomes"]
        pa = per_arch.setdefault(r["arch"], {"cases": 0, "disagreeing": 0})
        pa["cases"] += r["evaluations"]
        pa["disagreeing"] += r["disagreeing"]
        ctx.add_violations(r["viol"])
        if r["samples"] and len(samples) < 4:
            samples += r["samples"]
    cov["programs"] = sum(per_arch_programs.values())
    cov["programs_per_arch"] = per_arch_programs
    cov["per_arch"] = per_arch
    cov["distinct_outcomes"] = len(outcomes)
    cov["backend_runs"] = 2 * cov["evaluations"]
    cov["cost_s_wall_cpu_compiler"] = [round(x, 1) for x in cost]
    cov["shards"] = len(shards)
    cov["samples"] = samples[:4]
    cov["exhaustive"] = True
    cov["bounds"] = {"tier": tier, "backends": list(BACKENDS), "memory_maps": list(KINDS),
                     "memory_maps_for_programs_with_a_memory_instruction": list(EXTRA_KINDS),
                     "per_arch": {a: {k: v for k, v in BOUNDS[tier][a].items() if k not in ("sub_idx", "extra_bp")} for a in archs},
                     "extra_breakpoint_programs": {a: [SPECS[a]["alphabet"][i][0] for i in BOUNDS[tier][a]["extra_bp"]] for a in archs},
                     "alphabets": {a: [e[0] for e in SPECS[a]["alphabet"][:SPECS[a].get("seq")]] for a in archs},
                     "loop_programs": {a: [[SPECS[a]["alphabet"][i][0] for i in p] for p in SPECS[a].get("loops", ())] for a in archs},
                     "reduced_alphabets": {a: [SPECS[a]["alphabet"][i][0] for i in BOUNDS[tier][a]["sub_idx"]] for a in archs},
                     "x86_32_length3_alphabet": [SPECS["x86_32"]["alphabet"][i][0] for i in SUB3_X86_32]}
    return cov


def replay(case):
    from mc.runner import violation
    _load([case["arch"]])
    prog = tuple(case["prog"])
    return [violation(sig, what, case) for sig, what in judge(case["arch"], prog, case["state"], case["kind"], case["bp"])]
