"""C21 - emulation results do not depend on block partitioning or caching.

Engine `dev` (deviation-bounded exploration of configurations) + differential.  For every program of a fixed
list of small x86_32 programs and every jitter backend, the *default schedule* (jit_maxline=50,
max_exec_per_call=0, unbounded block cache, cold start) is deviated in at most DEV_BOUND = 2 dimensions:

    jit_maxline        in 1..N                 (block length limit: disasmEngine lines_wd)
    max_exec_per_call  in 1..N                 (0 is the default; per-call execution limit of the C loop)
    cache size         in {2, 3, 4}            (BoundedDict eviction; for gcc the deleteCB / dlclose path)
    warm start         in {twice, prefix, mid} (same jitter: a full run / the first two dispatches / a run entered
                                                at the middle instruction happened before; registers, memory and
                                                exception flags are put back, translated blocks stay)

Oracle: the single-step run of the same backend (jit_maxline=1, max_exec_per_call=1, cold, unbounded) gives the
sequence of executed instruction addresses (one dispatch per instruction) and the final state.  Every
configuration must end in the identical final state (all registers incl. flags and pc, all memory pages, cpu and
vm exception flags, how the run ended) and its dispatch trace must be an order-preserving subsequence of the
reference sequence with the same first and last element.  Programs fold the path taken into registers and
memory (non-commutative accumulators), so a skipped, repeated or reordered instruction changes the final state.
"""
import sys

PROP = "C21"
LEVEL = "exploration"
ENGINE = "dev"
RULE = ("every configuration that deviates from the default schedule (jit_maxline=50, max_exec_per_call=0, unbounded cache, "
        "cold) in at most two of the dimensions block length 1..N, per-call limit 1..N, cache size {2,3,4}, warm start "
        "{twice, prefix, mid}, for each program of a fixed x86_32 list and each backend (python, gcc); a case is non-trivial "
        "when its dispatch trace differs from the default schedule's trace of that program/backend or a block was evicted "
        "or re-used from an earlier run")
LEVEL_TEXT = ("Complete enumeration of all schedules within deviation bound 2 on the real jitter (C runtime rebuilt from the "
              "working tree), each compared with the instruction-granular single-step run of the same backend: identical final "
              "registers, memory, exception flags and termination, dispatch trace an order-preserving subsequence of the "
              "reference instruction sequence.")
LEVEL_NOTE = ("Trusted: the single-step schedule of each backend as reference for itself (agreement between backends is C20), "
              "miasm's assembler for building the programs. Instruction-granular traces are only observable at dispatch "
              "granularity (exec_cb); inside a translated block the executed sequence is checked through the path-dependent "
              "final state. x86_32 only; no LLVM backend (llvmlite is not installed); deviations in three or more dimensions "
              "and self-modifying programs (C22) are outside the bound.")
TECHNIQUE = "deviation-bounded enumeration of jitter schedules against the single-step reference run"
ASSUMPTIONS = ["the process-global simplifier pass table is put back to its import-time value before each jitter is created "
               "(a Python-backend Jitter appends passes to it)",
               "host-side restoration between the warm-up run and the measured run rewrites every non-code page and all registers"]

ARCH = "x86_32"
BACKENDS = ("python", "gcc")
DEV_BOUND = 2
CACHE_SIZES = (2, 3, 4)
WARM = ("twice", "prefix", "mid")
PREFIX_DISPATCHES = 2
N_QUICK, N_THOROUGH = 4, 8
MAX_DISPATCH = 3000

DATA = 0x2000

# (name, source, initial registers (a string value names a label), tier: True = also in quick)
PROGRAMS = [
    ("straight", """
main:
    MOV EAX, 1
    ADD EAX, EBX
    SHL EAX, 3
    XOR EAX, ECX
    MOV DWORD PTR [EDI], EAX
    SUB EAX, 7
    ROL EAX, 5
    MOV DWORD PTR [EDI+4], EAX
    RET
""", {"EBX": 0x1234, "ECX": 0x55, "EDI": DATA}, True),
    ("count_loop", """
main:
    MOV ECX, 5
    XOR EAX, EAX
loop:
    IMUL EAX, EAX, 3
    ADD EAX, ECX
    DEC ECX
    JNZ loop
    RET
""", {}, True),
    ("self_loop", """
main:
    LEA EAX, DWORD PTR [EAX+EAX*2+1]
    XOR EAX, ECX
    DEC ECX
    JNZ main
    RET
""", {"ECX": 4, "EAX": 2}, True),
    ("mid_jump_back", """
main:
    MOV ECX, 3
    XOR EAX, EAX
mid:
    ADD EAX, ECX
    ROL EAX, 1
    DEC ECX
    JNZ mid
    RET
""", {}, True),
    ("nested_calls", """
main:
    MOV EAX, 1
    CALL f
    ADD EAX, 0x10
    CALL f
    RET
f:
    ADD EAX, EAX
    CALL g
    INC EAX
    RET
g:
    XOR EAX, 0x5A
    RET
""", {}, True),
    ("cond_both_ways", """
main:
    MOV ECX, 6
    XOR EAX, EAX
loop:
    TEST ECX, 1
    JZ even
    ADD EAX, ECX
    JMP next
even:
    IMUL EAX, EAX, 5
    SUB EAX, 3
next:
    DEC ECX
    JNZ loop
    RET
""", {}, True),
    ("nested_loops", """
main:
    XOR EAX, EAX
    MOV EDX, 3
outer:
    MOV ECX, 2
inner:
    LEA EAX, DWORD PTR [EAX+EAX*4]
    ADD EAX, EDX
    XOR EAX, ECX
    DEC ECX
    JNZ inner
    DEC EDX
    JNZ outer
    RET
""", {}, True),
    ("mem_loop", """
main:
    MOV ECX, 4
    MOV EAX, 0x11
fill:
    MOV DWORD PTR [EDI+ECX*4], EAX
    ADD EAX, DWORD PTR [EDI+ECX*4+4]
    ROL EAX, 3
    DEC ECX
    JNZ fill
    MOV DWORD PTR [EDI], EAX
    RET
""", {"EDI": DATA}, True),
    ("rep_movs", """
main:
    MOV ECX, 5
    REP MOVSB
    MOV EAX, DWORD PTR [EBX+0x20]
    ADD EAX, ECX
    ADD EAX, ESI
    RET
""", {"ESI": DATA + 2, "EDI": DATA + 0x20, "EBX": DATA}, True),
    ("push_pop_loop", """
main:
    MOV ECX, 3
up:
    PUSH ECX
    PUSH EAX
    ADD EAX, ECX
    DEC ECX
    JNZ up
    MOV ECX, 6
down:
    POP EDX
    LEA EAX, DWORD PTR [EAX*2+EDX]
    DEC ECX
    JNZ down
    RET
""", {"EAX": 7}, True),
    ("fallthrough_chain", """
main:
    XOR EAX, EAX
    CMP EAX, 1
    JZ bad
    INC EAX
    CMP EAX, 1
    JNZ bad
    SHL EAX, 4
    JS bad
    ADD EAX, 3
    JMP out
bad:
    MOV EAX, 0xDEAD
out:
    RET
""", {}, True),
    ("forward_into_middle", """
main:
    XOR EAX, EAX
    MOV ECX, 2
    INC EAX
    JMP tail_mid
tail:
    ADD EAX, 0x100
    ROL EAX, 2
tail_mid:
    ADD EAX, 0x10
    DEC ECX
    JZ out
    JMP tail
out:
    RET
""", {}, True),
    ("call_in_loop", """
main:
    MOV ECX, 3
    MOV EAX, 1
loop:
    CALL f
    ADD EAX, ECX
    DEC ECX
    JNZ loop
    RET
f:
    IMUL EAX, EAX, 7
    RET
""", {}, True),
    ("indirect", """
main:
    MOV ECX, 2
    XOR EAX, EAX
again:
    CALL EDX
    MOV EDX, EBX
    DEC ECX
    JNZ again
    JMP ESI
    MOV EAX, 0xBAD
fin:
    ADD EAX, 0x1000
    RET
f1:
    ADD EAX, 0x11
    RET
f2:
    SHL EAX, 4
    RET
""", {"EDX": "f1", "EBX": "f2", "ESI": "fin"}, True),
    ("fault_store_runs_off_page", """
main:
    MOV ECX, 6
    MOV EAX, 0x01020304
loop:
    MOV DWORD PTR [EDI], EAX
    ADD EDI, 4
    ROL EAX, 8
    INC EDX
    DEC ECX
    JNZ loop
    RET
""", {"EDI": DATA + 0x30}, True),
    ("fault_load_unmapped", """
main:
    MOV EDX, 0x21
    ADD EDX, EDX
    MOV EAX, DWORD PTR [EBX]
    ADD EDX, 1
    RET
""", {"EBX": 0x5000}, True),
    ("div_until_zero", """
main:
    MOV ECX, 3
loop:
    MOV EAX, 0x1000
    XOR EDX, EDX
    DEC ECX
    DIV ECX
    ADD EBX, EAX
    JMP loop
""", {}, True),
    ("loop_instr", """
main:
    MOV ECX, 4
    XOR EAX, EAX
l:
    ADD EAX, ECX
    ROL EAX, 3
    LOOP l
    RET
""", {}, True),
    ("long_straight", """
main:
    MOV EAX, 1
    ADD EAX, 2
    SHL EAX, 1
    ADD EAX, 3
    IMUL EAX, EAX, 3
    XOR EAX, 0x40
    MOV EDX, EAX
    ROL EDX, 4
    ADD EAX, EDX
    NOT EAX
    PUSH EAX
    NEG EAX
    POP EBX
    XOR EAX, EBX
    ADD EAX, 0x7
    SUB EBX, EAX
    RET
""", {}, True),
    ("head_after_middle", """
main:
    MOV ECX, 2
    JMP body_mid
body:
    ADD EAX, 0x1000
    ROL EAX, 1
body_mid:
    ADD EAX, 0x21
    DEC ECX
    JNZ body
    RET
""", {"EAX": 5}, True),
    ("cmov_setcc", """
main:
    MOV ECX, 3
    XOR EAX, EAX
l:
    CMP ECX, 2
    SETZ AL
    CMOVB EDX, ECX
    SHL EAX, 4
    ADD EAX, EDX
    DEC ECX
    JNZ l
    RET
""", {"EDX": 9}, True),
    ("string_loop", """
main:
    MOV ECX, 4
l:
    LODSB
    ADD AL, CL
    STOSB
    LOOP l
    MOV EAX, DWORD PTR [EBX+0x10]
    RET
""", {"ESI": DATA + 4, "EDI": DATA + 0x10, "EBX": DATA}, True),
    ("recursion", """
main:
    MOV ECX, 4
    MOV EAX, 1
    CALL fact
    RET
fact:
    CMP ECX, 1
    JBE done
    IMUL EAX, ECX
    ADD EAX, 1
    DEC ECX
    CALL fact
done:
    RET
""", {}, True),
    ("restart_once", """
main:
    ADD EAX, 0x31
    ROL EAX, 7
    TEST EDX, EDX
    JNZ out
    INC EDX
    JMP main
out:
    RET
""", {"EAX": 3}, True),
    ("jecxz_skip", """
main:
    MOV EAX, 2
l:
    JECXZ out
    ADD EAX, EAX
    DEC ECX
    JMP l
out:
    ADD EAX, 1
    RET
""", {"ECX": 3}, False),
    ("two_callers", """
main:
    CALL a
    CALL b
    RET
a:
    MOV EAX, 3
    CALL c
    RET
b:
    ADD EAX, 0x100
    CALL c
    RET
c:
    LEA EAX, DWORD PTR [EAX+EAX*8+2]
    RET
""", {}, False),
    ("xchg_mem_loop", """
main:
    MOV ECX, 3
l:
    XCHG DWORD PTR [EDI], EAX
    ADD EAX, ECX
    XCHG DWORD PTR [EDI+4], EAX
    ROL EAX, 5
    DEC ECX
    JNZ l
    RET
""", {"EDI": DATA + 8, "EAX": 0x77}, False),
    ("switch", """
main:
    MOV ECX, 3
l:
    CMP ECX, 2
    JZ two
    JA three
    ADD EAX, 1
    JMP next
two:
    ADD EAX, 0x20
    JMP next
three:
    ADD EAX, 0x300
next:
    ROL EAX, 3
    DEC ECX
    JNZ l
    RET
""", {}, False),
    ("fault_ret_to_unmapped", """
main:
    MOV EAX, 5
    PUSH 0x7000
    ADD EAX, 1
    RET
""", {}, False),
    ("byte_regs", """
main:
    MOV ECX, 3
l:
    ADD AL, 0xF0
    ADC AH, CL
    SAR EAX, 1
    RCL EDX, 1
    DEC ECX
    JNZ l
    RET
""", {"EAX": 0x1234}, False),
]

_mods = {}


def _load():
    if _mods:
        return _mods
    from mc import jitcmp
    jitcmp.load(["JitCore_x86"])
    from mc import jitprog
    _mods.update(J=jitprog, C=jitcmp)
    return _mods


def programs(quick):
    return [p for p in PROGRAMS if p[3] or not quick]


def deviations(n):
    return ([("ml", v) for v in range(1, n + 1)] + [("me", v) for v in range(1, n + 1)] +
            [("cache", v) for v in CACHE_SIZES] + [("warm", v) for v in WARM])


def configs(n):
    """Default schedule, every single deviation, every pair of deviations in two different dimensions."""
    devs = deviations(n)
    out = [()]
    out += [(d,) for d in devs]
    for i, a in enumerate(devs):
        for b in devs[i + 1:]:
            if a[0] != b[0]:
                out.append((a, b))
    return out


def _prepare(prog):
    m = _load()
    name, src, regs, _ = prog
    code, labels, offs = m["C"].assemble(ARCH, src)
    regs = {k: (labels[v] if isinstance(v, str) else v) for k, v in regs.items()}
    return code, labels, offs, regs


def run_config(prog, backend, cfg):
    """One run of @prog under the schedule @cfg (tuple of deviations). Returns (Obs, info)."""
    m = _load()
    J, C = m["J"], m["C"]
    code, labels, offs, regs = _prepare(prog)
    opt = {"ml": 50, "me": 0, "cache": None, "warm": None}
    for k, v in cfg:
        opt[k] = v
    jit = C.fresh_jitter(ARCH, backend, opt["ml"], opt["me"], opt["cache"])
    evicted = [0]
    if opt["cache"] is not None:
        inner = jit.jit.offset_to_jitted_func._delete_cb

        def counting_cb(key, inner=inner):
            evicted[0] += 1
            if inner is not None:
                inner(key)
        jit.jit.offset_to_jitted_func._delete_cb = counting_cb
    J.setup(jit, code, regs=regs)
    start = labels["main"]
    warm_obs = None
    if opt["warm"]:
        snap = C.snapshot(jit)
        if opt["warm"] == "twice":
            warm_obs = C.execute(jit, start, max_dispatch=MAX_DISPATCH)
        elif opt["warm"] == "prefix":
            warm_obs = C.execute(jit, start, max_dispatch=PREFIX_DISPATCHES)
        else:
            warm_obs = C.execute(jit, offs[len(offs) // 2], max_dispatch=200)
        C.restore(jit, snap, skip_pages=(J.CODE,))
    obs = C.execute(jit, start, max_dispatch=MAX_DISPATCH)
    info = {"evicted": evicted[0], "warm_dispatches": len(warm_obs.dispatch) if warm_obs else 0}
    return obs, info


def _term(obs):
    """How the run ended, without configuration-dependent text."""
    if obs.stopped:
        return obs.stopped
    return (obs.error or "none").split(":")[0]


def _cfg_sig(cfg):
    return "+".join("%s=%s" % (k, (("1" if v == 1 else "n") if k in ("ml", "me") else v)) for k, v in cfg) or "default"


def judge(prog, backend, cfg, ref, obs):
    """Compare one configuration's run with the single-step reference of the same backend."""
    m = _load()
    C = m["C"]
    name = prog[0]
    out = []
    what_cfg = ", ".join("%s=%s" % kv for kv in cfg) or "default schedule"
    comps = C.diff(ref, obs)
    if ref.pc != obs.pc:
        comps.append("pc")
    if _term(ref) != _term(obs):
        comps.append("termination")
    if comps:
        out.append(("final-state:%s:%s:%s:%s" % (backend, name, _cfg_sig(cfg), "+".join(comps)),
                    "program %s on %s with %s: final state differs from the single-step run (%s); ended %s at pc=%s vs "
                    "single-step %s at pc=%s" % (name, backend, what_cfg, C.describe_diff(ref, obs, ("single-step", "config")),
                                                 _term(obs), hex(obs.pc), _term(ref), hex(ref.pc))))
    t, r = obs.dispatch, ref.dispatch
    bad = None
    if not t or t[0] != r[0]:
        bad = "first-address"
    elif not C.is_subsequence(t, r):
        bad = "not-a-subsequence"
    elif t[-1] != r[-1]:
        bad = "last-address"
    if bad:
        out.append(("trace:%s:%s:%s:%s" % (backend, name, _cfg_sig(cfg), bad),
                    "program %s on %s with %s: dispatch trace %s is not an order-preserving subsequence (same first/last "
                    "address) of the executed instruction sequence %s" % (name, backend, what_cfg, [hex(x) for x in t[:40]],
                                                                          [hex(x) for x in r[:60]])))
    return out


def ref_work(shard):
    """Phase 0: single-step reference and default-schedule run of one (program, backend)."""
    _load()
    pi, backend = shard
    prog = PROGRAMS[pi]
    ref, _ = run_config(prog, backend, (("ml", 1), ("me", 1)))
    default, _ = run_config(prog, backend, ())
    if ref.stopped == "budget":
        raise RuntimeError("reference run of %s hit the dispatch budget" % prog[0])
    return ref, default


def work(shard):
    """shard = (program index, backend, n, [config indexes], reference Obs, default-schedule Obs)."""
    from mc.runner import violation
    _load()
    pi, backend, n, idxs, ref, default = shard
    prog = PROGRAMS[pi]
    cfgs = configs(n)
    res = {"evaluations": 0, "nontrivial": 0, "evictions": 0, "warm_reuse": 0, "viol": [], "outcomes": set(),
           "trace_shapes": set(), "samples": []}
    for ci in idxs:
        cfg = cfgs[ci]
        obs, info = run_config(prog, backend, cfg)
        res["evaluations"] += 1
        nontriv = obs.dispatch != default.dispatch or info["evicted"] > 0 or info["warm_dispatches"] > 0
        res["nontrivial"] += 1 if nontriv else 0
        res["evictions"] += 1 if info["evicted"] else 0
        res["warm_reuse"] += 1 if info["warm_dispatches"] else 0
        res["trace_shapes"].add((pi, backend, tuple(obs.dispatch)))
        res["outcomes"].add((pi, _term(obs), obs.pc, obs.cpu_exc, obs.vm_exc))
        for sig, what in judge(prog, backend, cfg, ref, obs):
            res["viol"].append(violation(sig, what, {"program": prog[0], "backend": backend, "n": n, "config": [list(d) for d in cfg]}))
        if ci == idxs[0]:
            res["samples"].append({"program": prog[0], "backend": backend, "config": [list(d) for d in cfg],
                                   "dispatches": len(obs.dispatch), "single_step_instructions": len(ref.dispatch) - 1,
                                   "ended": _term(obs)})
    return res


def run(ctx):
    _load()
    n = N_QUICK if ctx.quick else N_THOROUGH
    progs = programs(ctx.quick)
    cfgs = configs(n)
    pairs = [(PROGRAMS.index(prog), backend) for prog in progs for backend in BACKENDS]
    refs = dict(zip(pairs, ctx.pmap(ref_work, pairs)))
    # shard by (program, backend, jit_maxline value): the configurations sharing a block length share the
    # blocks the gcc backend has to compile
    shards = []
    for (pi, backend) in pairs:
        groups = {}
        for ci, cfg in enumerate(cfgs):
            groups.setdefault(dict(cfg).get("ml", 50), []).append(ci)
        for ml in sorted(groups):
            shards.append((pi, backend, n, groups[ml]) + refs[(pi, backend)])
    results = ctx.pmap(work, shards)
    cov = {"evaluations": 0, "distinct_nontrivial": 0, "configs_with_eviction": 0, "configs_with_warm_start": 0}
    outcomes, shapes, samples = set(), set(), []
    per_backend = {b: 0 for b in BACKENDS}
    ref_terms = {}
    for sh, r in zip(shards, results):
        cov["evaluations"] += r["evaluations"]
        cov["distinct_nontrivial"] += r["nontrivial"]
        cov["configs_with_eviction"] += r["evictions"]
        cov["configs_with_warm_start"] += r["warm_reuse"]
        per_backend[sh[1]] += r["evaluations"]
        outcomes |= r["outcomes"]
        shapes |= r["trace_shapes"]
        ref_terms[PROGRAMS[sh[0]][0]] = "%s after %d instructions" % (_term(sh[4]), len(sh[4].dispatch) - 1)
        ctx.add_violations(r["viol"])
        if len(samples) < 4 and r["samples"]:
            samples += r["samples"]
    cov["programs"] = len(progs)
    cov["configs_per_program_and_backend"] = len(cfgs)
    cov["distinct_dispatch_traces"] = len(shapes)
    cov["distinct_outcomes"] = len(outcomes)
    cov["programs_ending_in_a_fault"] = sum(1 for v in ref_terms.values() if not v.startswith("end"))
    cov["per_backend"] = per_backend
    cov["reference_runs"] = ref_terms
    cov["samples"] = samples[:4]
    cov["exhaustive"] = True
    cov["bounds"] = {"deviation_bound": DEV_BOUND, "jit_maxline": [1, n], "max_exec_per_call": [0, n],
                     "cache_sizes": list(CACHE_SIZES), "warm": list(WARM), "backends": list(BACKENDS),
                     "programs": [p[0] for p in progs], "arch": ARCH}
    return cov


def replay(case):
    _load()
    prog = [p for p in PROGRAMS if p[0] == case["program"]][0]
    cfg = tuple((d[0], d[1]) for d in case["config"])
    backend = case["backend"]
    ref, _ = run_config(prog, backend, (("ml", 1), ("me", 1)))
    obs, _ = run_config(prog, backend, cfg)
    from mc.runner import violation
    return [violation(sig, what, case) for sig, what in judge(prog, backend, cfg, ref, obs)]
