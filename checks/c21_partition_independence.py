"""C21 - emulation results do not depend on block partitioning or caching.

Engine `dev` (deviation-bounded exploration of configurations) + differential.  For every program of a fixed
list of small x86_32 programs and every jitter backend, the *default schedule* (jit_maxline=50,
max_exec_per_call=0, unbounded block cache, cold start) is deviated in at most DEV_BOUND = 2 dimensions:

    jit_maxline        in 1..N                 (block length limit: disasmEngine lines_wd)
    max_exec_per_call  in 1..N                 (0 is the default; per-call execution limit of the C loop)
    cache size         in {2, 3, 4}            (BoundedDict eviction; for gcc the deleteCB / dlclose path)
    warm start         in {twice, prefix, mid, observed} (same jitter: a full run / the first two dispatches / at most 60 blocks
                                                of a run entered at the middle instruction happened before;
                                                registers, memory and exception flags are put back, translated
                                                blocks stay; `observed` = `twice` plus a logging breakpoint put on
                                                the middle instruction between the two runs, which must fire as
                                                often as the single-step sequence contains that address)

Oracle: the single-step run of the same backend (jit_maxline=1, max_exec_per_call=1, cold, unbounded) gives the
sequence of executed instruction addresses (one dispatch per instruction) and the final state.  Every
configuration must end in the identical final state (all registers incl. flags and pc, all memory pages, cpu and
vm exception flags, how the run ended) and its dispatch trace must be an order-preserving subsequence of the
reference sequence with the same first and last element.  Programs fold the path taken into registers and
memory (non-commutative accumulators), so a skipped, repeated or reordered instruction changes the final state.
"""
import sys

PROP = "C21"
LEVEL = "exploration"
ENGINE = "dev"
RULE = ("every configuration that deviates from the default schedule (jit_maxline=50, max_exec_per_call=0, unbounded cache, "
        "cold) in at most two of the dimensions block length 1..N, per-call limit 1..N, cache size {2,3,4}, warm start "
        "{twice, prefix, mid, observed}, for each program of a fixed x86_32 list and each backend (python, gcc); a case is non-trivial "
        "when its dispatch trace differs from the default schedule's trace of that program/backend or a block was evicted "
        "or re-used from an earlier run")
LEVEL_TEXT = ("Complete enumeration of all schedules within deviation bound 2 on the real jitter (C runtime rebuilt from the "
              "working tree), each compared with the instruction-granular single-step run of the same backend: identical final "
              "registers, memory, exception flags and termination, dispatch trace an order-preserving subsequence of the "
              "reference instruction sequence.")
LEVEL_NOTE = ("Trusted: the single-step schedule of each backend as reference for itself (agreement between backends is C20), "
              "miasm's assembler for building the programs. Instruction-granular traces are only observable at dispatch "
              "granularity (exec_cb); inside a translated block the executed sequence is checked through the path-dependent "
              "final state. x86_32 only; no LLVM backend (llvmlite is not installed); deviations in three or more dimensions "
              "and self-modifying programs (C22) are outside the bound.")
TECHNIQUE = "deviation-bounded enumeration of jitter schedules against the single-step reference run"
ASSUMPTIONS = ["the process-global simplifier pass table is put back to its import-time value before each jitter is created "
               "(a Python-backend Jitter appends passes to it)",
               "host-side restoration between the warm-up run and the measured run rewrites every non-code page and all registers"]

ARCH = "x86_32"
BACKENDS = ("python", "gcc")
DEV_BOUND = 2
CACHE_SIZES = (2, 3, 4)
WARM = ("twice", "prefix", "mid", "observed")
PREFIX_DISPATCHES = 2
MID_DISPATCHES = 60
N_QUICK, N_THOROUGH = 2, 5
MAX_DISPATCH = 500

DATA = 0x2000

# (name, source, initial registers (a string value names a label), (backends in quick, backends in thorough)) with
# p = python, g = gcc. The gcc backend runs the C compiler for every new block (about 2 s of CPU per block when the
# machine is loaded), which bounds the number of program/block-length combinations a tier can afford.
PROGRAMS = [
    ("straight", """
main:
    MOV EAX, 1
    ADD EAX, EBX
    SHL EAX, 3
    XOR EAX, ECX
    MOV DWORD PTR [EDI], EAX
    SUB EAX, 7
    ROL EAX, 5
    MOV DWORD PTR [EDI+4], EAX
    RET
""", {"EBX": 0x1234, "ECX": 0x55, "EDI": DATA}, ("p", "pg")),
    ("count_loop", """
main:
    MOV ECX, 3
    XOR EAX, EAX
loop:
    IMUL EAX, EAX, 3
    ADD EAX, ECX
    DEC ECX
    JNZ loop
    RET
""", {}, ("", "pg")),
    ("self_loop", """
main:
    LEA EAX, DWORD PTR [EAX+EAX*2+1]
    XOR EAX, ECX
    DEC ECX
    JNZ main
    RET
""", {"ECX": 3, "EAX": 2}, ("p", "pg")),
    ("mid_jump_back", """
main:
    MOV ECX, 3
    XOR EAX, EAX
mid:
    ADD EAX, ECX
    ROL EAX, 1
    DEC ECX
    JNZ mid
    RET
""", {}, ("pg", "pg")),
    ("nested_calls", """
main:
    MOV EAX, 1
    CALL f
    CALL f
    RET
f:
    ADD EAX, EAX
    CALL g
    INC EAX
    RET
g:
    XOR EAX, 0x5A
    RET
""", {}, ("pg", "pg")),
    ("cond_both_ways", """
main:
    MOV ECX, 4
    XOR EAX, EAX
loop:
    TEST ECX, 1
    JZ even
    ADD EAX, ECX
    JMP next
even:
    IMUL EAX, EAX, 5
    SUB EAX, 3
next:
    DEC ECX
    JNZ loop
    RET
""", {}, ("p", "pg")),
    ("nested_loops", """
main:
    XOR EAX, EAX
    MOV EDX, 3
outer:
    MOV ECX, 2
inner:
    LEA EAX, DWORD PTR [EAX+EAX*4]
    ADD EAX, EDX
    XOR EAX, ECX
    DEC ECX
    JNZ inner
    DEC EDX
    JNZ outer
    RET
""", {}, ("", "p")),
    ("mem_loop", """
main:
    MOV ECX, 4
    MOV EAX, 0x11
fill:
    MOV DWORD PTR [EDI+ECX*4], EAX
    ADD EAX, DWORD PTR [EDI+ECX*4+4]
    ROL EAX, 3
    DEC ECX
    JNZ fill
    MOV DWORD PTR [EDI], EAX
    RET
""", {"EDI": DATA}, ("", "p")),
    ("rep_movs", """
main:
    MOV ECX, 5
    REP MOVSB
    MOV EAX, DWORD PTR [EBX+0x20]
    ADD EAX, ECX
    ADD EAX, ESI
    RET
""", {"ESI": DATA + 2, "EDI": DATA + 0x20, "EBX": DATA}, ("", "pg")),
    ("push_pop_loop", """
main:
    MOV ECX, 3
up:
    PUSH ECX
    PUSH EAX
    ADD EAX, ECX
    DEC ECX
    JNZ up
    MOV ECX, 6
down:
    POP EDX
    LEA EAX, DWORD PTR [EAX*2+EDX]
    DEC ECX
    JNZ down
    RET
""", {"EAX": 7}, ("", "p")),
    ("fallthrough_chain", """
main:
    XOR EAX, EAX
    CMP EAX, 1
    JZ bad
    INC EAX
    CMP EAX, 1
    JNZ bad
    SHL EAX, 4
    JS bad
    ADD EAX, 3
    JMP out
bad:
    MOV EAX, 0xDEAD
out:
    RET
""", {}, ("", "pg")),
    ("forward_into_middle", """
main:
    XOR EAX, EAX
    MOV ECX, 2
    INC EAX
    JMP tail_mid
tail:
    ADD EAX, 0x100
    ROL EAX, 2
tail_mid:
    ADD EAX, 0x10
    DEC ECX
    JZ out
    JMP tail
out:
    RET
""", {}, ("", "p")),
    ("call_in_loop", """
main:
    MOV ECX, 3
    MOV EAX, 1
loop:
    CALL f
    ADD EAX, ECX
    DEC ECX
    JNZ loop
    RET
f:
    IMUL EAX, EAX, 7
    RET
""", {}, ("", "p")),
    ("indirect", """
main:
    MOV ECX, 2
    XOR EAX, EAX
again:
    CALL EDX
    MOV EDX, EBX
    DEC ECX
    JNZ again
    JMP ESI
    MOV EAX, 0xBAD
fin:
    ADD EAX, 0x1000
    RET
f1:
    ADD EAX, 0x11
    RET
f2:
    SHL EAX, 4
    RET
""", {"EDX": "f1", "EBX": "f2", "ESI": "fin"}, ("", "p")),
    ("fault_store_runs_off_page", """
main:
    MOV ECX, 6
    MOV EAX, 0x01020304
loop:
    MOV DWORD PTR [EDI], EAX
    ADD EDI, 4
    ROL EAX, 8
    DEC ECX
    JNZ loop
    RET
""", {"EDI": DATA + 0x38}, ("pg", "pg")),
    ("fault_load_unmapped", """
main:
    MOV EDX, 0x21
    ADD EDX, EDX
    MOV EAX, DWORD PTR [EBX]
    ADD EDX, 1
    RET
""", {"EBX": 0x5000}, ("p", "pg")),
    ("div_until_zero", """
main:
    MOV ECX, 3
loop:
    MOV EAX, 0x1000
    XOR EDX, EDX
    DEC ECX
    DIV ECX
    ADD EBX, EAX
    JMP loop
""", {}, ("", "pg")),
    ("loop_instr", """
main:
    MOV ECX, 4
    XOR EAX, EAX
l:
    ADD EAX, ECX
    ROL EAX, 3
    LOOP l
    RET
""", {}, ("", "p")),
    ("long_straight", """
main:
    MOV EAX, 1
    ADD EAX, 2
    SHL EAX, 1
    ADD EAX, 3
    IMUL EAX, EAX, 3
    XOR EAX, 0x40
    MOV EDX, EAX
    ROL EDX, 4
    ADD EAX, EDX
    NOT EAX
    PUSH EAX
    NEG EAX
    POP EBX
    XOR EAX, EBX
    ADD EAX, 0x7
    SUB EBX, EAX
    RET
""", {}, ("", "p")),
    ("head_after_middle", """
main:
    MOV ECX, 2
    JMP body_mid
body:
    ADD EAX, 0x1000
    ROL EAX, 1
body_mid:
    ADD EAX, 0x21
    DEC ECX
    JNZ body
    RET
""", {"EAX": 5}, ("", "pg")),
    ("cmov_setcc", """
main:
    MOV ECX, 3
    XOR EAX, EAX
l:
    CMP ECX, 2
    SETZ AL
    CMOVB EDX, ECX
    SHL EAX, 4
    ADD EAX, EDX
    DEC ECX
    JNZ l
    RET
""", {"EDX": 9}, ("", "p")),
    ("string_loop", """
main:
    MOV ECX, 4
l:
    LODSB
    ADD AL, CL
    STOSB
    LOOP l
    MOV EAX, DWORD PTR [EBX+0x10]
    RET
""", {"ESI": DATA + 4, "EDI": DATA + 0x10, "EBX": DATA}, ("", "p")),
    ("recursion", """
main:
    MOV ECX, 4
    MOV EAX, 1
    CALL fact
    RET
fact:
    CMP ECX, 1
    JBE done
    IMUL EAX, ECX
    ADD EAX, 1
    DEC ECX
    CALL fact
done:
    RET
""", {}, ("", "p")),
    ("restart_once", """
main:
    ADD EAX, 0x31
    ROL EAX, 7
    TEST EDX, EDX
    JNZ out
    INC EDX
    JMP main
out:
    RET
""", {"EAX": 3}, ("", "p")),
    ("jecxz_skip", """
main:
    MOV EAX, 2
l:
    JECXZ out
    ADD EAX, EAX
    DEC ECX
    JMP l
out:
    ADD EAX, 1
    RET
""", {"ECX": 3}, ("", "p")),
    ("two_callers", """
main:
    CALL a
    CALL b
    RET
a:
    MOV EAX, 3
    CALL c
    RET
b:
    ADD EAX, 0x100
    CALL c
    RET
c:
    LEA EAX, DWORD PTR [EAX+EAX*8+2]
    RET
""", {}, ("", "p")),
    ("xchg_mem_loop", """
main:
    MOV ECX, 3
l:
    XCHG DWORD PTR [EDI], EAX
    ADD EAX, ECX
    XCHG DWORD PTR [EDI+4], EAX
    ROL EAX, 5
    DEC ECX
    JNZ l
    RET
""", {"EDI": DATA + 8, "EAX": 0x77}, ("", "p")),
    ("switch", """
main:
    MOV ECX, 3
l:
    CMP ECX, 2
    JZ two
    JA three
    ADD EAX, 1
    JMP next
two:
    ADD EAX, 0x20
    JMP next
three:
    ADD EAX, 0x300
next:
    ROL EAX, 3
    DEC ECX
    JNZ l
    RET
""", {}, ("", "p")),
    ("fault_ret_to_unmapped", """
main:
    MOV EAX, 5
    PUSH 0x7000
    ADD EAX, 1
    RET
""", {}, ("", "p")),
    ("byte_regs", """
main:
    MOV ECX, 3
l:
    ADD AL, 0xF0
    ADC AH, CL
    SAR EAX, 1
    RCL EDX, 1
    DEC ECX
    JNZ l
    RET
""", {"EAX": 0x1234}, ("", "p")),
]

_mods = {}
REF_CFG = (("ml", 1), ("me", 1))


def _load():
    if _mods:
        return _mods
    from mc import jitcmp
    jitcmp.load(["JitCore_x86"])
    from mc import jitprog
    _mods.update(J=jitprog, C=jitcmp)
    return _mods


def program_backends(quick):
    """[(program index, backend)] of the tier."""
    out = []
    for pi, p in enumerate(PROGRAMS):
        for backend in BACKENDS:
            if backend[0] in p[3][0 if quick else 1]:
                out.append((pi, backend))
    return out


def deviations(n):
    return ([("ml", v) for v in range(1, n + 1)] + [("me", v) for v in range(1, n + 1)] +
            [("cache", v) for v in CACHE_SIZES] + [("warm", v) for v in WARM])


def configs(n):
    """Default schedule, every single deviation, every pair of deviations in two different dimensions."""
    devs = deviations(n)
    out = [()]
    out += [(d,) for d in devs]
    for i, a in enumerate(devs):
        for b in devs[i + 1:]:
            if a[0] != b[0]:
                out.append((a, b))
    return out


def _prepare(prog):
    m = _load()
    name, src, regs, _ = prog
    code, labels, offs = m["C"].assemble(ARCH, src)
    regs = {k: (labels[v] if isinstance(v, str) else v) for k, v in regs.items()}
    return code, labels, offs, regs


def run_config(prog, backend, cfg):
    """One run of @prog under the schedule @cfg (tuple of deviations). Returns the run summary (mc.jitcmp.summary)
    extended with the number of evicted blocks and the length of the warm-up run."""
    m = _load()
    J, C = m["J"], m["C"]
    code, labels, offs, regs = _prepare(prog)
    opt = {"ml": 50, "me": 0, "cache": None, "warm": None}
    for k, v in cfg:
        opt[k] = v
    jit = C.fresh_jitter(ARCH, backend, opt["ml"], opt["me"], opt["cache"])
    evicted = [0]
    if opt["cache"] is not None:
        inner = jit.jit.offset_to_jitted_func._delete_cb

        def counting_cb(key, inner=inner):
            evicted[0] += 1
            if inner is not None:
                inner(key)
        jit.jit.offset_to_jitted_func._delete_cb = counting_cb
    J.setup(jit, code, regs=regs)
    start = labels["main"]
    warm_obs = None
    if opt["warm"]:
        snap = C.snapshot(jit)
        if opt["warm"] in ("twice", "observed"):
            warm_obs = C.execute(jit, start, max_dispatch=MAX_DISPATCH)
        elif opt["warm"] == "prefix":
            warm_obs = C.execute(jit, start, max_dispatch=PREFIX_DISPATCHES)
        else:
            # entered in the middle, the program may loop on garbage counters: the dispatch budget only works when
            # every block returns to the dispatcher, so the warm-up run uses max_exec_per_call=1
            jit.jit.set_options(max_exec_per_call=1)
            warm_obs = C.execute(jit, offs[len(offs) // 2], max_dispatch=MID_DISPATCHES)
            jit.jit.set_options(max_exec_per_call=opt["me"])
        C.restore(jit, snap, skip_pages=(J.CODE,))
    bps = ()
    if opt["warm"] == "observed":
        # the blocks were translated (and possibly evicted) without this observer: a logging breakpoint on the
        # middle instruction, added between the two runs, must see every execution of that address
        bps = ((offs[len(offs) // 2], "observer", True),)
    obs = C.execute(jit, start, breakpoints=bps, max_dispatch=MAX_DISPATCH)
    out = C.summary(obs)
    out["observer"] = (bps[0][0], len(obs.bp_log)) if bps else None
    out["evicted"] = evicted[0]
    out["warm_dispatches"] = len(warm_obs.dispatch) if warm_obs else 0
    return out


def failures(ref, s):
    """How the run summary @s contradicts the single-step reference @ref: list of (kind, detail)."""
    C = _load()["C"]
    out = []
    comps = [c for c in C.diff(ref, s) if c != "bp_log"]
    if ref["pc"] != s["pc"]:
        comps.append("pc")
    if ref["term"] != s["term"]:
        comps.append("termination")
    if comps:
        out.append(("final-state", "+".join(comps)))
    t, r = s["dispatch"], ref["dispatch"]
    if not t or t[0] != r[0]:
        out.append(("trace", "first-address"))
    elif not C.is_subsequence(t, r):
        out.append(("trace", "not-a-subsequence"))
    elif t[-1] != r[-1]:
        out.append(("trace", "last-address"))
    if s.get("observer"):
        addr, hits = s["observer"]
        if hits != r.count(addr):
            out.append(("trace", "observer-missed" if hits < r.count(addr) else "observer-spurious"))
    return out


def sub_configs(cfg):
    """Sub-schedules of @cfg, simplest first, ending with @cfg itself."""
    if len(cfg) == 2:
        return [(), (cfg[0],), (cfg[1],), cfg]
    if len(cfg) == 1:
        return [(), cfg]
    return [()]


def _cfg_sig(cfg):
    return "+".join("%s=%s" % (k, (("1" if v == 1 else "n") if k in ("ml", "me") else v)) for k, v in cfg) or "default-schedule"


def _cfg_text(cfg):
    return ", ".join("%s=%s" % kv for kv in cfg) or "default schedule"


def judge(prog, backend, cfg, get):
    """Violations of one configuration. @get(cfg) -> run summary (from the collected results, or computed on demand).
    A failure is attributed to the simplest sub-schedule that already fails in the same way, so that one defect
    does not produce one signature per schedule it survives in."""
    C = _load()["C"]
    ref = get(REF_CFG)
    s = get(cfg)
    out = []
    for kind, detail in failures(ref, s):
        culprit = cfg
        for sub in sub_configs(cfg):
            if (kind, detail) in failures(ref, get(sub)):
                culprit = sub
                break
        sig = "%s:%s:%s:%s:%s" % (kind, backend, prog[0], _cfg_sig(culprit), detail)
        if kind == "final-state":
            what = ("program %s on %s with %s: final state differs from the single-step run (%s); ended %s at pc=%s, "
                    "single-step run ended %s at pc=%s [already so with: %s]" % (
                        prog[0], backend, _cfg_text(cfg), C.describe_diff(ref, s, ("single-step", "this")) or "jitter pc / termination only",
                        s["term"], hex(s["pc"]), ref["term"], hex(ref["pc"]), _cfg_text(culprit)))
        elif detail.startswith("observer"):
            what = ("program %s on %s with %s: the logging breakpoint added on %s after the warm-up run fired %d time(s), "
                    "the single-step run executes that address %d time(s) [already so with: %s]" % (
                        prog[0], backend, _cfg_text(cfg), hex(s["observer"][0]), s["observer"][1],
                        ref["dispatch"].count(s["observer"][0]), _cfg_text(culprit)))
        else:
            what = ("program %s on %s with %s: dispatch trace %s is not an order-preserving subsequence with the same "
                    "first and last address of the executed instruction sequence %s [%s; already so with: %s]" % (
                        prog[0], backend, _cfg_text(cfg), [hex(x) for x in s["dispatch"][:40]],
                        [hex(x) for x in ref["dispatch"][:60]], detail, _cfg_text(culprit)))
        out.append((sig, what))
    return out


def work(shard):
    """shard = (program index, backend, n, [config indexes]) -> ([(config index, run summary)], cost), or
    ("precompile", program index, jit_maxline, block address): translate one block with the gcc backend so that the
    compiler runs of a program are spread over the workers (the block lands in the on-disk cache miasm keeps in
    $TMPDIR/miasm_cache, private to this check run, where the measured runs find it)."""
    import resource
    import time
    m = _load()
    t0 = time.time()
    c0 = time.process_time()
    r0 = resource.getrusage(resource.RUSAGE_CHILDREN)
    if shard[0] == "precompile":
        _, pi, ml, addr = shard
        code, labels, offs, regs = _prepare(PROGRAMS[pi])
        jit = m["C"].fresh_jitter(ARCH, "gcc", ml, 0)
        m["J"].setup(jit, code, regs=regs)
        jit.jit.disasm_and_jit_block(addr, jit.vm)
        out = []
        backend = "gcc"
    else:
        pi, backend, n, idxs = shard
        cfgs = configs(n)
        out = [(ci, run_config(PROGRAMS[pi], backend, cfgs[ci])) for ci in idxs]
    r1 = resource.getrusage(resource.RUSAGE_CHILDREN)
    cost = (time.time() - t0, time.process_time() - c0, r1.ru_utime + r1.ru_stime - r0.ru_utime - r0.ru_stime)
    return out, cost, backend


def run(ctx):
    from mc.runner import violation
    _load()
    n = N_QUICK if ctx.quick else N_THOROUGH
    pairs = program_backends(ctx.quick)
    cfgs = configs(n)
    index = {cfg: ci for ci, cfg in enumerate(cfgs)}
    gcc_progs = [pi for pi, b in pairs if b == "gcc"]
    # phase A: which blocks does each (program, block length) need?  Both backends share the disassembly logic
    # (jitcore.py), and the python backend returns to the dispatcher after every block, so the dispatch trace of its
    # cold run with that block length lists every block start.  These runs are ordinary python configurations.
    ml_cfgs = [()] + [(("ml", v),) for v in range(1, n + 1)]
    shards_a = [(pi, "python", n, [index[c]]) for pi in gcc_progs for c in ml_cfgs]
    res_a = ctx.pmap(work, shards_a)
    done = set()
    shards_b = []
    for sh, (res, _, _) in zip(shards_a, res_a):
        for ci, summ in res:
            done.add((sh[0], "python", ci))
            ml = dict(cfgs[ci]).get("ml", 50)
            for addr in sorted(set(summ["dispatch"])):
                if addr != _load()["J"].END:
                    shards_b.append(("precompile", sh[0], ml, addr))
    # phase B: one compiler run per shard, together with the remaining python configurations
    for (pi, backend) in pairs:
        if backend != "python":
            continue
        todo = [ci for ci in range(len(cfgs)) if (pi, "python", ci) not in done]
        for k in range(0, len(todo), 12):
            shards_b.append((pi, "python", n, todo[k:k + 12]))
    res_b = ctx.pmap(work, shards_b)
    # phase C: the gcc configurations, grouped by block length
    shards_c = []
    for pi in gcc_progs:
        groups = {}
        for ci, cfg in enumerate(cfgs):
            groups.setdefault(dict(cfg).get("ml", 50), []).append(ci)
        for ml in sorted(groups):
            g = groups[ml]
            for k in range(0, len(g), 10):
                shards_c.append((pi, "gcc", n, g[k:k + 10]))
    res_c = ctx.pmap(work, shards_c)
    shards = shards_a + shards_b + shards_c
    results = res_a + res_b + res_c
    table = {}
    cost = {b: [0.0, 0.0, 0.0] for b in BACKENDS}
    for sh, (res, c, backend) in zip(shards, results):
        for k in range(3):
            cost[backend][k] += c[k]
        for ci, summ in res:
            table.setdefault((sh[0], sh[1]), {})[cfgs[ci]] = summ
    cov = {"evaluations": 0, "distinct_nontrivial": 0, "configs_with_eviction": 0, "configs_with_warm_start": 0,
           "configs_with_coarser_trace_than_single_step": 0, "reference_runs_hitting_the_dispatch_budget": 0}
    outcomes, shapes, samples = set(), set(), []
    per_backend = {b: 0 for b in BACKENDS}
    ref_terms = {}
    for (pi, backend) in pairs:
        prog = PROGRAMS[pi]
        tab = table[(pi, backend)]
        ref = tab[REF_CFG]
        if ref["term"] == "budget":
            # the programs end within 60 instructions on a sound tree: a reference that does not terminate is
            # compared like any other run (the schedules then differ in where the budget cuts them) and counted
            cov["reference_runs_hitting_the_dispatch_budget"] += 1
        default = tab[()]
        ref_terms["%s/%s" % (prog[0], backend)] = "%s after %d instructions" % (ref["term"], len(ref["dispatch"]) - 1)
        for cfg in cfgs:
            s = tab[cfg]
            cov["evaluations"] += 1
            per_backend[backend] += 1
            nontriv = s["dispatch"] != default["dispatch"] or s["evicted"] > 0 or s["warm_dispatches"] > 0
            cov["distinct_nontrivial"] += 1 if nontriv else 0
            cov["configs_with_eviction"] += 1 if s["evicted"] else 0
            cov["configs_with_warm_start"] += 1 if s["warm_dispatches"] else 0
            cov["configs_with_coarser_trace_than_single_step"] += 1 if len(s["dispatch"]) < len(ref["dispatch"]) else 0
            shapes.add((pi, backend, s["dispatch"]))
            outcomes.add((pi, s["term"], s["pc"], s["cpu_exc"], s["vm_exc"]))
            for sig, what in judge(prog, backend, cfg, tab.__getitem__):
                ctx.violation(sig, what, {"program": prog[0], "backend": backend, "config": [list(d) for d in cfg]})
        if len(samples) < 4:
            cfg = cfgs[len(cfgs) // 2 + len(samples)]
            samples.append({"program": prog[0], "backend": backend, "config": [list(d) for d in cfg],
                            "dispatch_trace": [hex(x) for x in tab[cfg]["dispatch"]],
                            "single_step_instructions": len(ref["dispatch"]) - 1, "ended": tab[cfg]["term"],
                            "blocks_evicted": tab[cfg]["evicted"]})
    cov["programs"] = len(set(pi for pi, _ in pairs))
    cov["program_backend_pairs"] = len(pairs)
    cov["configs_per_program_and_backend"] = len(cfgs)
    cov["distinct_dispatch_traces"] = len(shapes)
    cov["distinct_outcomes"] = len(outcomes)
    cov["reference_runs_ending_in_a_fault"] = sum(1 for v in ref_terms.values() if not v.startswith("end"))
    cov["per_backend"] = per_backend
    cov["cost_s_wall_cpu_compiler"] = {b: [round(x, 1) for x in v] for b, v in cost.items()}
    cov["shards"] = len(shards)
    cov["gcc_blocks_precompiled"] = sum(1 for sh in shards_b if sh[0] == "precompile")
    cov["reference_runs"] = ref_terms
    cov["samples"] = samples
    cov["exhaustive"] = True
    cov["bounds"] = {"deviation_bound": DEV_BOUND, "jit_maxline": [1, n], "max_exec_per_call": [0, n],
                     "cache_sizes": list(CACHE_SIZES), "warm": list(WARM), "backends": list(BACKENDS),
                     "programs": {b: [PROGRAMS[pi][0] for pi, bb in pairs if bb == b] for b in BACKENDS}, "arch": ARCH}
    return cov


def replay(case):
    from mc.runner import violation
    _load()
    prog = [p for p in PROGRAMS if p[0] == case["program"]][0]
    cfg = tuple((d[0], d[1]) for d in case["config"])
    backend = case["backend"]
    memo = {}

    def get(c):
        if c not in memo:
            memo[c] = run_config(prog, backend, c)
        return memo[c]
    return [violation(sig, what, case) for sig, what in judge(prog, backend, cfg, get)]
