"""C22 - modified code is re-translated before it runs again.

Engine E1: explicit-state BFS over histories on the real jitter (backends python and gcc, jit_maxline 1 and 50, shadow
tree). One fixed x86-32 program, two loop iterations over two translated blocks:

    main:  MOV EBP, 2 ; JMP top
    top:   MOV BYTE PTR [EDI], DL        S1  the guest store (EDI/DL are set by the host: "arm")
           ADD EAX, 0x01020304           T1  same block as the store, executed after it
           INC EBX                       T2
           JMP nxt
    nxt:   ADD ECX, 0x55667788           U1  next block               <- marker breakpoint (stops the run) on nxt
           INC ESI                       U2
           DEC EBP ; JNZ top ; RET

Events:  go (start, or continue, until the marker or the END sentinel) / run (to END, marker passes through) /
         cbw(t) (run to END; the marker callback itself patches byte t with vm.set_mem on its first arrival and returns True) /
         enter (run to END from the mid-chain instruction T2: a second entry point into the already translated chain
                top..JMP, so that two OVERLAPPING translated blocks exist) /
         arm(t) (the next executions of S1 store the toggled value of target byte t: a GUEST write) /
         hw(t) (vm.set_mem of the toggled value of target byte t: the documented HOST write path) /
         hw2(tu, tt) (one burst of two overlapping host writes: a wide vm.set_mem over T1 .. end of U1 - two blocks - toggling
                      byte tu of U1, then a narrow vm.set_mem toggling byte tt of T1 inside the range just written).
Targets: first / middle / last byte of T1 and of U1, the last byte of the block `top` (the displacement of JMP nxt, which is
the last byte of the whole translated range while `nxt` is not translated yet), and the one-byte T2, U2 in the thorough tier; every alternative byte
keeps the instruction length (ADD<->SUB EAX, other immediates, ADD ECX -> IMUL EAX,ECX / ADD EBX, INC<->DEC).
Phase `overlap` (own seed: full run, then enter): single writes into the chain top..JMP - the part only the larger
block owns (T1) or the bytes both blocks share (T2, JMP) - alternate with enter / run, two writes at most, depth 4.
Seeds (phase `main`): cold, stopped at nxt in iteration 1 (block `top` translated, `nxt` not), stopped at nxt in iteration 2 (everything
translated), warm (a complete run done) - so writes hit translated instructions of the running block, of the block about
to run, and of blocks that run again later.

Reference model: a 40-line interpreter of exactly these instruction encodings that fetches every instruction from the
*current* bytes (self-modifying semantics by construction); it is cross-checked against a fresh jitter started on each
patched image (harness sanity, the oracle named by the design). Compared after every go/run: where the run stopped,
general purpose registers, the bytes of the code window and of the scratch byte.
"""
import sys

from mc import bfs

PROP = "C22"
LEVEL = "model_checking"
ENGINE = "bfs"
RULE = ("BFS over histories of go / run / enter(second entry point => overlapping blocks) / cbw / arm(target) / hw(target) on a two-block, two-iteration self-modifying program x {python, gcc} x "
        "jit_maxline {1, 50} from cold / half-translated / fully-translated / warm seeds; targets = first, middle, last byte of an instruction in "
        "the block that contains the store and in the next block; a state is distinct by (code bytes, armed store, position, registers at a stop, "
        "translated block starts)")
LEVEL_TEXT = ("Every history up to the depth bound of guest and host writes into translated instructions, interleaved with partial and complete "
              "runs, is executed on the real jitter and compared with an interpreter that decodes each instruction from the current bytes.")
LEVEL_NOTE = ("The LLVM backend is not exercised: llvmlite is absent from this image. Trusted: the small reference interpreter (cross-checked against "
              "a fresh jitter on every patched image), miasm's assembler. Host writes go through vm.set_mem only (from outside a run and from inside a "
              "breakpoint callback); an explicit jit.updt_automod_code call by the host is not modelled. Writes that change instruction lengths, "
              "multi-byte stores spanning two instructions and a store into an *earlier* instruction of its own block are outside the alphabet; at "
              "most 1 (quick) / 2 (thorough) bytes differ from the original image at any time; a history is seed ; writes ; runs.")
TECHNIQUE = "explicit-state BFS over write/run histories on the real jitter against a fetch-from-current-bytes reference interpreter"
ASSUMPTIONS = ["general purpose registers (not flags) are the observable named by the property",
               "the Python backend's module-global simplifier passes are reset before each new jitter (one jitter per process in real use)"]

CODE = 0x1000
DATA = 0x2000
SCRATCH = DATA + 8
END = 0x1337BEE0
SRC = """
main:
    MOV EBP, 2
    JMP top
top:
    MOV BYTE PTR [EDI], DL
    ADD EAX, 0x01020304
    INC EBX
    JMP nxt
nxt:
    ADD ECX, 0x55667788
    INC ESI
    DEC EBP
    JNZ top
    RET
"""
REGS0 = {"EAX": 0x1000, "EBX": 0x20, "ECX": 0x300, "EDX": 0, "ESI": 0x4000, "EDI": SCRATCH, "EBP": 0x77}
GPR = ["EAX", "EBX", "ECX", "EDX", "ESI", "EDI", "EBP", "ESP"]
# target name -> (instruction label, byte index in the instruction, alternative value, skeleton)
TARGETS = {
    "t1f": ("T1", 0, 0x2D, "same-block:first-byte"),     # ADD EAX, imm32 -> SUB EAX, imm32
    "t1m": ("T1", 2, 0x7F, "same-block:middle-byte"),
    "t1l": ("T1", 4, 0x40, "same-block:last-byte"),
    "u1f": ("U1", 0, 0x69, "next-block:first-byte"),     # ADD ECX, imm32 -> IMUL EAX, ECX, imm32
    "u1m": ("U1", 1, 0xC3, "next-block:middle-byte"),    # ... ECX -> EBX
    "u1l": ("U1", 5, 0x15, "next-block:last-byte"),
    "jl": ("JN", 1, 0x06, "same-block:last-byte-of-the-block"),  # JMP nxt -> JMP U2 (skips U1 and the marker)
    "t2": ("T2", 0, 0x4B, "same-block:one-byte-instruction"),   # INC EBX -> DEC EBX
    "u2": ("U2", 0, 0x4E, "next-block:one-byte-instruction"),   # INC ESI -> DEC ESI
}
QUICK_TARGETS = ["t1f", "t1m", "t1l", "u1f", "u1m", "u1l", "jl"]
GCC_QUICK_TARGETS = ["t1l", "u1f", "jl"]      # every distinct block content costs a C compilation
CBW_QUICK = ["t1l", "u1f"]
CBW_THOROUGH = ["t1f", "t1l", "u1f", "u1m", "u2"]
ALL_TARGETS = QUICK_TARGETS + ["t2", "u2"]
_cfg = {"quick": True, "phase": "main"}
OVERLAP_TARGETS_QUICK = ["t1f", "t1l", "jl"]             # non-shared part of block `top` (T1) / bytes shared with the block entered at T2
OVERLAP_TARGETS_THOROUGH = ["t1f", "t1m", "t1l", "jl", "t2"]
STRSRC = DATA + 0x10          # source buffer of REP MOVSB
GS_QUICK = [("nxt", "u1f")]                                                    # gcc only in the quick tier
GS_THOROUGH = [("nxt", "u1f"), ("nxt", "u1l"), ("t2", "jl")]     # (12 events per idle state made thorough 3x larger: 6 keep it in budget)
GS_KINDS = ["stosb", "movsb"]
# hw2(tu, tt): ONE burst of two overlapping host writes - vm.set_mem of the current bytes T1 .. end of U1 (it spans the rest of
# block `top` and the start of block `nxt`) with byte tu of U1 toggled, then a narrow vm.set_mem toggling byte tt of T1, which
# lies inside the first write and ends before its end (the access log must keep the tail of the first write)
HW2_QUICK = {"python": [("u1f", "t1l"), ("u1l", "t1f")], "gcc": [("u1f", "t1l")]}
HW2_THOROUGH = [("u1f", "t1l"), ("u1l", "t1f"), ("u1m", "t1m"), ("u1f", "t1f")]
_P = {}


def P():
    if not _P:
        from mc import jitx
        code, labels, offs = jitx.assemble_chained("x86_32", SRC, CODE)
        top, nxt = labels["top"], labels["nxt"]
        i_top, i_nxt = offs.index(top), offs.index(nxt)
        ins = {"S1": offs[i_top], "T1": offs[i_top + 1], "T2": offs[i_top + 2], "JN": offs[i_top + 3], "U1": offs[i_nxt], "U2": offs[i_nxt + 1]}
        expected = bytes.fromhex("bd02000000eb00" "8817" "0504030201" "43" "eb00" "81c188776655" "46" "4d" "75ec" "c3")
        if code != expected:
            raise RuntimeError("C22: unexpected encoding of the fixed program: %s" % code.hex())
        # guest string-store stubs, appended after the RET as raw bytes: <STOSB | REP MOVSB> ; JMP <nxt | T2>
        # (a multi-IR-block instruction writes into translated code and the patched code is re-entered right away,
        # with no other memory-accessing instruction in between)
        stubs = {}
        blob = bytearray(code)
        for dest in ("nxt", "t2"):
            for kind, enc in (("stosb", b"\xAA"), ("movsb", b"\xF3\xA4")):
                entry = CODE + len(blob)
                jmp = entry + len(enc)
                target = nxt if dest == "nxt" else ins["T2"]
                blob += enc + bytes([0xEB, (target - (jmp + 2)) & 0xFF])
                stubs[(kind, dest)] = (entry, jmp)
        _P.update(code=bytes(blob), labels=labels, offs=offs, ins=ins, top=top, nxt=nxt, stubs=stubs, prog_len=len(code),
                  addr={t: ins[v[0]] + v[1] for t, v in TARGETS.items()})
    return _P


# ---------------------------------------------------------------------------------------------- reference interpreter

class Ref(object):
    """Fetches every instruction from the current bytes. Only the encodings reachable with the target alphabet."""

    def __init__(self, code):
        self.mem = bytearray(code)
        self.data = bytearray(0x40)
        self.regs = dict(REGS0)
        self.regs["ESP"] = 0
        self.pc = CODE
        self.phase = "idle"          # idle | stopped
        self.stops = 0

    @property
    def scratch(self):
        return self.data[SCRATCH - DATA]

    def store8(self, a, v):
        if DATA <= a < DATA + len(self.data):
            self.data[a - DATA] = v
        elif CODE <= a < CODE + len(self.mem):
            self.mem[a - CODE] = v
        else:
            raise RuntimeError("reference interpreter: store outside the model")

    def load8(self, a):
        if DATA <= a < DATA + len(self.data):
            return self.data[a - DATA]
        if CODE <= a < CODE + len(self.mem):
            return self.mem[a - CODE]
        raise RuntimeError("reference interpreter: load outside the model")

    def rd32(self, a):
        return int.from_bytes(self.mem[a - CODE:a - CODE + 4], "little")

    def start(self, esp, pc=CODE, ebp=None):
        edi, edx = self.regs["EDI"], self.regs["EDX"]
        self.regs = dict(REGS0)
        self.regs["EDI"], self.regs["EDX"] = edi, edx
        self.regs["ESP"] = esp
        if ebp is not None:
            self.regs["EBP"] = ebp
        self.pc = pc
        self.stops = 0

    def go(self, nxt, stop_on_marker, resumed):
        """Execute until the marker (arrival at @nxt) or END. Returns 'stopped' / 'ended'."""
        r = self.regs
        M = 0xFFFFFFFF
        fuel = 200
        first = True
        while True:
            fuel -= 1
            if fuel < 0:
                raise RuntimeError("reference interpreter: runaway program")
            if self.pc == END:
                self.phase = "idle"
                return "ended"
            if self.pc == nxt and stop_on_marker and not (first and resumed):
                self.phase = "stopped"
                self.stops += 1
                return "stopped"
            first = False
            o = self.pc - CODE
            b = self.mem[o]
            b1 = self.mem[o + 1] if o + 1 < len(self.mem) else None
            if b == 0xBD:
                r["EBP"] = self.rd32(self.pc + 1)
                self.pc += 5
            elif b == 0xEB:
                rel = b1 - 256 if b1 >= 128 else b1
                self.pc += 2 + rel
            elif b == 0x88 and b1 == 0x17:
                self.store8(r["EDI"], r["EDX"] & 0xFF)
                self.pc += 2
            elif b == 0xAA:                               # STOSB (DF = 0)
                self.store8(r["EDI"], r["EAX"] & 0xFF)
                r["EDI"] = (r["EDI"] + 1) & M
                self.pc += 1
            elif b == 0xF3 and b1 == 0xA4:                # REP MOVSB (DF = 0)
                while r["ECX"]:
                    self.store8(r["EDI"], self.load8(r["ESI"]))
                    r["ESI"] = (r["ESI"] + 1) & M
                    r["EDI"] = (r["EDI"] + 1) & M
                    r["ECX"] = (r["ECX"] - 1) & M
                self.pc += 2
            elif b == 0x05:
                r["EAX"] = (r["EAX"] + self.rd32(self.pc + 1)) & M
                self.pc += 5
            elif b == 0x2D:
                r["EAX"] = (r["EAX"] - self.rd32(self.pc + 1)) & M
                self.pc += 5
            elif b in (0x43, 0x4B):
                r["EBX"] = (r["EBX"] + (1 if b == 0x43 else -1)) & M
                self.pc += 1
            elif b in (0x46, 0x4E):
                r["ESI"] = (r["ESI"] + (1 if b == 0x46 else -1)) & M
                self.pc += 1
            elif b == 0x4D:
                r["EBP"] = (r["EBP"] - 1) & M
                self.pc += 1
            elif b in (0x81, 0x69) and b1 in (0xC1, 0xC3):
                src = "ECX" if b1 == 0xC1 else "EBX"
                imm = self.rd32(self.pc + 2)
                if b == 0x81:
                    r[src] = (r[src] + imm) & M
                else:
                    r["EAX"] = (r[src] * imm) & M       # low 32 bits: same for signed and unsigned
                self.pc += 6
            elif b == 0x75:
                rel = b1 - 256 if b1 >= 128 else b1
                self.pc += 2 + (rel if r["EBP"] != 0 else 0)
            elif b == 0xC3:
                r["ESP"] = (r["ESP"] + 4) & M
                self.pc = END
            else:
                raise RuntimeError("reference interpreter: unknown encoding %02x at %#x" % (b, self.pc))


# ---------------------------------------------------------------------------------------------- state

class State(object):
    pass


def make(seed):
    from mc import jitx, jitprog as jp
    backend, maxline, pre = seed
    p = P()
    st = State()
    st.backend, st.maxline = backend, maxline
    jit = jitx.fresh("x86_32", backend, jit_maxline=maxline)
    jp.setup(jit, p["code"], regs=None, data=bytes(0x40))
    st.sp0 = jit.cpu.ESP + 4
    st.jit = jit
    st.ref = Ref(p["code"])
    st.ended = False
    st.passthrough = False
    st.marks = 0
    st.cb_write = None
    st.broken = False
    st.writes = []          # skeletons of the writes since the last go/run
    st.armed = None
    st.nev = 0
    st.gos = 0
    st.trailing_writes = 0
    st.ran = False          # a go/run/cbw/enter event happened after the seed prefix
    st.nwrites = 0          # arm/hw events after the seed prefix
    st.in_seed = True

    def marker(j):
        st.marks += 1
        if st.cb_write is not None and st.marks == 1:
            a, v = st.cb_write
            j.vm.set_mem(a, bytes([v]))          # a breakpoint callback patching code, then letting the run go on
        return True if st.passthrough else False

    def end_cb(j):
        st.ended = True
        return False
    jit.add_breakpoint(p["nxt"], marker)
    jit.add_breakpoint(END, end_cb)
    for r, v in REGS0.items():
        setattr(jit.cpu, r, v)
    for ev in pre:
        apply(st, tuple(ev))
    st.in_seed = False
    return st


def _targets(quick, backend):
    if not quick:
        return ALL_TARGETS
    return GCC_QUICK_TARGETS if backend == "gcc" else QUICK_TARGETS


def _toggled(st):
    p = P()
    return [t for t in ALL_TARGETS if st.ref.mem[p["addr"][t] - CODE] != p["code"][p["addr"][t] - CODE]]


def events(st):
    if st.broken:
        return []
    quick = _cfg["quick"]
    if _cfg["phase"] == "overlap":
        return _events_overlap(st, quick)
    targets = _targets(quick, st.backend)
    maxtog = 1 if quick else 2
    tog = _toggled(st)
    evs = []
    if st.gos < 4:
        evs.append(("go",))
        if st.ref.phase == "idle":
            evs.append(("run",))
            evs.append(("enter",))
            if st.trailing_writes == 0:
                for t in (CBW_QUICK if quick else CBW_THOROUGH):
                    evs.append(("cbw", t))
                if not quick or st.backend == "gcc":
                    for dest, t in (GS_QUICK if quick else GS_THOROUGH):
                        for kind in GS_KINDS:
                            evs.append(("gs", kind, dest, t))
    if st.trailing_writes >= (1 if quick else 2) or st.ran:
        # writes are only interesting when a run follows: histories are  seed ; <= 1 (quick) / 2 (thorough) writes ; runs
        # (a write after a partial run is what the half-translated / fully-translated seeds are for)
        return evs
    if st.trailing_writes == 0 and not tog:
        for tu, tt in (HW2_QUICK[st.backend] if quick else HW2_THOROUGH):
            evs.append(("hw2", tu, tt))
    # a guest store still to come in this run? (iteration 2 has passed S1 already)
    store_ahead = st.ref.phase == "idle" or st.ref.stops < 2
    for t in targets:
        would = len(tog) + (0 if t in tog else 1) - (1 if t in tog else 0)
        if would > maxtog:
            continue
        if store_ahead and st.armed != t:
            evs.append(("arm", t))
        evs.append(("hw", t))
    return evs


def _events_overlap(st, quick):
    """Phase `overlap`: the seed has translated the chain top..JMP twice (entered at `top` and at T2: two overlapping
    blocks). Histories alternate single writes into that chain (host or guest) with `enter` (re-runs the block entered at
    T2 only) or `run` (whole program); at most two writes, so that a write into the part owned by the larger block alone
    can be followed, after a run, by a write into the bytes both blocks share."""
    targets = OVERLAP_TARGETS_QUICK if quick else OVERLAP_TARGETS_THOROUGH
    evs = []
    if st.gos < 4:
        evs.append(("enter",))
        evs.append(("run",))
    if st.trailing_writes >= 1 or st.nwrites >= 2:
        return evs
    tog = _toggled(st)
    for t in targets:
        if len(tog) + (0 if t in tog else 1) - (1 if t in tog else 0) > 2:
            continue
        if st.armed != t:
            evs.append(("arm", t))
        evs.append(("hw", t))
    return evs


def _toggle_value(st, t):
    p = P()
    a = p["addr"][t]
    orig = p["code"][a - CODE]
    cur = st.ref.mem[a - CODE]
    return a, (TARGETS[t][2] if cur == orig else orig)


def _block_state(st, t):
    """Is the instruction holding target @t inside a translated block right now?"""
    p = P()
    a = p["addr"][t]
    for lk, blk in st.jit.jit.loc_key_to_block.items():
        if getattr(blk, "ad_min", None) is not None and blk.ad_min <= a < blk.ad_max:
            return "translated"
    return "not-translated"


def apply(st, ev):
    p = P()
    jit = st.jit
    ref = st.ref
    st.nev += 1
    k = ev[0]
    if k == "arm":
        t = ev[1]
        a, v = _toggle_value(st, t)
        jit.cpu.EDI = a
        jit.cpu.EDX = v
        ref.regs["EDI"], ref.regs["EDX"] = a, v
        st.armed = t
        st.trailing_writes += 1
        st.nwrites += 0 if st.in_seed else 1
        st.writes.append("guest:%s:%s" % (TARGETS[t][3], _block_state(st, t)))
        return []
    if k == "hw":
        t = ev[1]
        a, v = _toggle_value(st, t)
        st.writes.append("host:%s:%s" % (TARGETS[t][3], _block_state(st, t)))
        jit.vm.set_mem(a, bytes([v]))
        ref.mem[a - CODE] = v
        st.trailing_writes += 1
        st.nwrites += 0 if st.in_seed else 1
        return []
    if k == "hw2":
        _, tu, tt = ev
        au, vu = _toggle_value(st, tu)
        at, vt = _toggle_value(st, tt)
        lo, hi = p["ins"]["T1"], p["ins"]["U2"]
        template = bytearray(ref.mem[lo - CODE:hi - CODE])
        template[au - lo] = vu
        st.writes.append("host-wide-write:%s:%s" % (TARGETS[tu][3], _block_state(st, tu)))
        st.writes.append("host-narrow-write-inside-it:%s:%s" % (TARGETS[tt][3], _block_state(st, tt)))
        jit.vm.set_mem(lo, bytes(template))
        jit.vm.set_mem(at, bytes([vt]))
        ref.mem[au - CODE] = vu
        ref.mem[at - CODE] = vt
        st.trailing_writes += 2
        st.nwrites += 0 if st.in_seed else 2
        return []
    # go / run / cbw (run to END; the marker callback patches byte t at its first arrival and lets the run go on) /
    # enter (run to END from the mid-chain instruction T2 with EBP = 1: a second entry point into the translated chain
    # top..JMP, which makes the translator keep two overlapping blocks)
    st.trailing_writes = 0
    if not st.in_seed:
        st.ran = True
        st.gos += 1
    cont = ref.phase == "stopped"
    st.passthrough = k in ("run", "cbw", "enter", "gs")
    st.ended = False
    st.cb_write = None
    if k == "cbw":
        st.cb_write = _toggle_value(st, ev[1])
        st.writes.append("host-in-callback:%s:%s" % (TARGETS[ev[1]][3], _block_state(st, ev[1])))
    if not cont:
        st.marks = 0
    try:
        if cont:
            jit.continue_run()
        else:
            entry = p["ins"]["T2"] if k == "enter" else CODE
            saved = (ref.regs["EDI"], ref.regs["EDX"])
            if k == "gs":
                # guest write by a string instruction: <STOSB | REP MOVSB> ; JMP <nxt | T2>, one pass (EBP = 1) to END
                _, kind, dest, t = ev
                entry = p["stubs"][(kind, dest)][0]
                a, v = _toggle_value(st, t)
                st.writes.append("guest-%s:%s:%s" % (kind, TARGETS[t][3], _block_state(st, t)))
            ref.start(st.sp0 - 4, entry, 1 if k in ("enter", "gs") else None)
            if k == "gs":
                ref.regs["EDI"] = a
                if kind == "stosb":
                    ref.regs["EAX"] = (REGS0["EAX"] & ~0xFF) | v
                else:
                    src = bytes([v, ref.load8(a + 1)])
                    jit.vm.set_mem(STRSRC, src)
                    ref.data[STRSRC - DATA:STRSRC - DATA + 2] = src
                    ref.regs["ESI"], ref.regs["ECX"] = STRSRC, 2
            for r in GPR:
                if r != "ESP":
                    setattr(jit.cpu, r, ref.regs[r])
            jit.cpu.ESP = st.sp0
            jit.push_uint32_t(END)
            jit.run(entry)
        raised = None
    except Exception as e:
        raised = e
    skel = "%s:ml%d:%s" % (st.backend, st.maxline, "+".join(sorted(set(st.writes))) or "no-write")
    if raised is not None:
        st.broken = True
        return [("run-raises:%s:%s" % (type(raised).__name__, skel), "%s raised %r; %s" % (k, raised, _ctx(st)))]
    if k == "cbw":
        want = ref.go(p["nxt"], True, cont)
        if want == "stopped":
            ref.mem[st.cb_write[0] - CODE] = st.cb_write[1]
            ref.stops -= 1
            want = ref.go(p["nxt"], False, True)
    else:
        want = ref.go(p["nxt"], not st.passthrough, cont)
    st.cb_write = None
    got = "ended" if st.ended else "stopped"
    probs = []
    if got != want or (got == "stopped" and jit.pc != p["nxt"]):
        st.broken = True
        return [("control-flow-differs:%s" % skel, "the run %s at pc=%#x, the reference %s at %#x; %s" % (got, jit.pc, want, ref.pc, _ctx(st)))]
    regs = {r: getattr(jit.cpu, r) for r in GPR}
    bad = [r for r in GPR if regs[r] != ref.regs[r]]
    mem = jit.vm.get_mem(CODE, len(p["code"]))
    data = jit.vm.get_mem(DATA, len(ref.data))
    scratch = data[SCRATCH - DATA]
    if bad:
        st.broken = True
        probs.append(("stale-code:%s:%s" % (skel, ",".join(bad)),
                      "after %s: %s; the reference (instructions fetched from the current bytes) has %s; %s" % (
                          k, ", ".join("%s=%#x" % (r, regs[r]) for r in bad), ", ".join("%s=%#x" % (r, ref.regs[r]) for r in bad), _ctx(st))))
    if bytes(mem) != bytes(ref.mem) or bytes(data) != bytes(ref.data):
        st.broken = True
        probs.append(("memory-differs:%s" % skel, "code window %s / scratch %#x, reference %s / %#x; %s" % (
            bytes(mem).hex(), scratch, bytes(ref.mem).hex(), ref.scratch, _ctx(st))))
    st.writes = []
    if k == "gs" and not cont:
        # the string stub has used EDI (and EAX / ESI / ECX): the host puts the armed plain store back for later runs
        ref.regs["EDI"], ref.regs["EDX"] = saved
        jit.cpu.EDI, jit.cpu.EDX = saved
    return probs


def _ctx(st):
    p = P()
    return "backend %s, jit_maxline %d, toggled bytes %s, armed guest store %s, writes since the last run %s, translated block starts %s" % (
        st.backend, st.maxline, _toggled(st), st.armed, st.writes, [hex(x) for x in sorted(st.jit.jit.offset_to_jitted_func.keys())])


def invariant(st):
    return []


def canon(st):
    ref = st.ref
    return (st.backend, st.maxline, bytes(ref.mem), ref.scratch, ref.phase, ref.stops if ref.phase == "stopped" else 0,
            tuple(ref.regs[r] for r in GPR) if ref.phase == "stopped" else (ref.regs["EDI"], ref.regs["EDX"]),
            tuple(sorted(st.jit.jit.offset_to_jitted_func.keys())), min(st.gos, 4), st.trailing_writes, st.ran, min(st.nwrites, 2), st.broken and st.nev)


def outcome(st, ev):
    return (ev[0], st.ref.phase, tuple(st.ref.regs[r] for r in ("EAX", "EBX", "ECX", "ESI")), st.broken)


# ---------------------------------------------------------------------------------------------- driver

CONFIGS_QUICK = [("python", 50), ("python", 1), ("gcc", 50)]
CONFIGS_THOROUGH = [("python", 50), ("python", 1), ("gcc", 50), ("gcc", 1)]
PRES = [[], [("go",)], [("go",), ("go",)], [("go",), ("go",), ("go",)]]


OVERLAP_PRE = [("run",), ("enter",)]      # everything translated, then the chain top..JMP entered a second time at T2
OVERLAP_CONFIGS_QUICK = [("python", 50)]
PHASE_DEPTH = {"main": {True: 2, False: 3}, "overlap": {True: 4, False: 4}}


def seeds(quick, phase="main"):
    if phase == "overlap":
        return [(be, ml, OVERLAP_PRE) for (be, ml) in (OVERLAP_CONFIGS_QUICK if quick else CONFIGS_THOROUGH)]
    return [(be, ml, pre) for (be, ml) in (CONFIGS_QUICK if quick else CONFIGS_THOROUGH) for pre in PRES]


def _load():
    from mc import jitx
    jitx.activate(["JitCore_x86"])


def _images(quick, backend="python"):
    """Code images with at most MAXTOG toggled target bytes."""
    import itertools
    p = P()
    targets = _targets(quick, backend)
    out = []
    for n in range(0, (1 if quick else 2) + 1):
        for combo in itertools.combinations(targets, n):
            img = bytearray(p["code"])
            for t in combo:
                img[p["addr"][t] - CODE] = TARGETS[t][2]
            out.append((combo, bytes(img)))
    return out


def check_reference(quick):
    """The interpreter against a fresh jitter (python, default options) started on each patched image."""
    from mc import jitx, jitprog as jp
    p = P()
    out = []
    for combo, img in _images(True) + ([] if quick else _images(False)[len(_images(True)):][::7]):
        jit = jitx.fresh("x86_32", "python")
        jp.setup(jit, img, regs=REGS0, data=bytes(0x40))
        sp = jit.cpu.ESP
        obs = jp.run(jit, CODE)
        ref = Ref(img)
        ref.start(sp)
        ref.go(p["nxt"], False, False)
        got = {r: getattr(jit.cpu, r) for r in GPR}
        if obs.stopped != "end" or any(got[r] != ref.regs[r] for r in GPR):
            out.append(("harness:reference-interpreter-differs-from-fresh-jitter:%s" % "+".join(combo),
                        "image %s: fresh jitter %s (stopped=%s), interpreter %s" % (img.hex(), got, obs.stopped, ref.regs)))
    return out


def _gcc_jobs(quick):
    p = P()
    offs = p["offs"]
    jobs = {}
    configs = CONFIGS_QUICK if quick else CONFIGS_THOROUGH
    mls = sorted({ml for be, ml in configs if be == "gcc"})
    for combo, img in _images(quick, "gcc"):
        if 50 in mls:
            for start, end in ((CODE, p["top"]), (p["top"], p["nxt"]), (p["ins"]["T1"], p["nxt"]), (p["ins"]["T2"], p["nxt"]), (p["nxt"], offs[-1]),
                               (p["ins"]["U2"], offs[-1]), (offs[-1], None)):
                key = (start, img[start - CODE:(end - CODE) if end else None])
                jobs.setdefault(key, ("x86_32", img, CODE, start, (end,) if end else (), 50))
        for (kind, dest), (entry, jmp) in sorted(p["stubs"].items()):
            if quick and dest not in {d for d, _ in GS_QUICK}:
                continue
            for ml in mls:
                jobs.setdefault((entry, b"stub%d" % ml), ("x86_32", img, CODE, entry, (), ml))   # the stub (ml=1: the store alone)
                jobs.setdefault((jmp, b"stub%d" % ml), ("x86_32", img, CODE, jmp, (), ml))       # resumed after the write was noticed
        if 1 in mls:
            for k, o in enumerate(offs):
                end = offs[k + 1] if k + 1 < len(offs) else None
                key = (o, img[o - CODE:(end - CODE) if end else None])
                jobs.setdefault(key, ("x86_32", img, CODE, o, (end,) if end else (), 1))
    return [jobs[k] for k in sorted(jobs)]


def run(ctx):
    try:
        return _run_check(ctx)
    except Exception:
        import traceback
        traceback.print_exc(file=sys.stdout)     # fd 2 is silenced (C runtime chatter)
        raise


def _run_check(ctx):
    import time
    from mc import jitx
    _load()
    _cfg["quick"] = ctx.quick
    bfs._SYS = sys.modules[__name__]        # the pool is forked by precompile(), before bfs.explore() sets it
    for sig, what in check_reference(ctx.quick):
        ctx.violation(sig, what, {"seed": 0, "hist": [], "tier": ctx.tier, "reference": True})
    t0 = time.time()
    compiled = jitx.precompile(ctx, _gcc_jobs(ctx.quick))
    t1 = time.time()
    total = None
    per_phase = {}
    for phase in ("main", "overlap"):
        _cfg["phase"] = phase
        ctx.close()                         # workers read the phase from the forked module state: fork again per phase
        sd = seeds(ctx.quick, phase)
        depth = PHASE_DEPTH[phase][ctx.quick]
        before = len(ctx.violations)
        cov = bfs.explore(ctx, sys.modules[__name__], max_depth=depth, seeds=sd, chunk=2)
        for v in ctx.violations[before:]:
            v["case"]["tier"] = ctx.tier
            v["case"]["phase"] = phase
        per_phase[phase] = {k: cov[k] for k in ("states", "transitions", "new_states_per_depth", "distinct_outcomes")}
        per_phase[phase].update(depth=depth, seeds=len(sd))
        if total is None:
            total = cov
        else:
            for k in ("states", "transitions", "traces_validated_against_impl", "evaluations", "distinct_nontrivial"):
                total[k] += cov[k]
            total["distinct_outcomes"] = max(total["distinct_outcomes"], cov["distinct_outcomes"])
            total["exhaustive"] = total["exhaustive"] and cov["exhaustive"]
            total["samples"] = (total["samples"] + cov["samples"])[:4]
            total["max_depth"] = max(total["max_depth"], cov["max_depth"])
    total.pop("new_states_per_depth", None)
    total["phases"] = per_phase
    total["seconds_precompile"] = round(t1 - t0, 1)
    total["seconds_explore"] = round(time.time() - t1, 1)
    total["gcc_blocks_precompiled"] = compiled
    q = ctx.quick
    total["bounds"] = {
        "main": {"depth": PHASE_DEPTH["main"][q], "configs": CONFIGS_QUICK if q else CONFIGS_THOROUGH, "seed_histories": PRES,
                 "targets": {"python": _targets(q, "python"), "gcc": _targets(q, "gcc")},
                 "callback_write_targets": CBW_QUICK if q else CBW_THOROUGH, "max_bytes_differing_from_original": 1 if q else 2,
                 "overlapping_host_write_pairs": HW2_QUICK if q else HW2_THOROUGH,
                 "string_store_events": GS_QUICK if q else GS_THOROUGH,
                 "shape": "seed ; <= %d writes ; runs (go / run / enter / cbw)" % (1 if q else 2)},
        "overlap": {"depth": PHASE_DEPTH["overlap"][q], "configs": OVERLAP_CONFIGS_QUICK if q else CONFIGS_THOROUGH, "seed_history": OVERLAP_PRE,
                    "targets": OVERLAP_TARGETS_QUICK if q else OVERLAP_TARGETS_THOROUGH, "max_writes": 2,
                    "shape": "seed ; single host/guest writes alternating with enter / run"},
        "max_run_events_after_seed": 4}
    return total


def replay(case):
    _load()
    quick = case.get("tier", "quick") == "quick"
    _cfg["quick"] = quick
    _cfg["phase"] = case.get("phase", "main")
    if case.get("reference") or (not case.get("hist") and case.get("seed") == 0 and "phase" not in case):
        from mc.runner import violation
        return [violation(sig, what, case) for sig, what in check_reference(quick)]
    return bfs.replay(sys.modules[__name__], seeds(quick, _cfg["phase"]), case)
