"""C23 - breakpoints fire exactly when execution reaches their address.

Engine E1: explicit-state BFS over histories of breakpoint-registry operations and run/continue events on the real
jitter (backends python and gcc, shadow tree), four fixed x86-32 programs (straight line, loop x3, call/ret, jump
into the middle of an already translated block).

Reference model (independent of the jitter): the instruction-address trace of each program is written down by hand as a
sequence of instruction indexes (and validated against a single-step run, jit_maxline=1 / max_exec_per_call=1);
a registry  address -> callbacks  follows the documented semantics of add_breakpoint (append unless present),
set_breakpoint (replace), remove_breakpoints_by_address, remove_breakpoints_by_callback.

What is compared after every run / continue_run (only what the property states):
  * each time the trace reaches an address, every callback registered for it at that moment is invoked exactly once with
    jitter.pc == that address (the order among callbacks of one address is NOT part of the property: any order is accepted),
    nothing is invoked for mid-instruction or never-reached addresses, nothing is invoked anywhere else;
  * a callback removed before its turn (by address, by callback, by a callback removing itself) is not invoked any more,
    the other callbacks of that address still are;
  * a callback returning False stops the run with jitter.pc == its address; continuing invokes the callbacks of that
    occurrence that had not run yet (if still registered) and goes on;
  * without a stopping callback the run reaches the END sentinel;
  * get_breakpoint(a) agrees with the model registry; removing an unknown address may raise or not, but changes nothing.
Adding a callback on the very address the run is stopped at (is it part of the current occurrence?) is left out of the
alphabet: the property does not say.
"""
import sys

from mc import bfs

PROP = "C23"
LEVEL = "model_checking"
ENGINE = "bfs"
RULE = ("BFS over histories of add_breakpoint / set_breakpoint / remove_breakpoints_by_address / remove_breakpoints_by_callback / run-or-continue "
        "on four fixed x86-32 programs and one mips32 branch/delay-slot program x {python, gcc}; addresses: block starts, mid-block instructions (reached several times, inside two overlapping "
        "translated blocks), a mid-instruction address, a never-reached address; callbacks: plain (two of them), self-removing, returning False; "
        "from cold, warm (fully translated), stopped-in-the-middle and one-breakpoint-already-removed seeds; a state is distinct by (registry, position in the trace, pending "
        "callbacks, translated block starts, forced splits)")
LEVEL_TEXT = ("Every history of registry operations and runs up to the depth bound is executed on the real jitter and compared with a hand-written "
              "instruction trace and a dictionary model of the registry, so breakpoints are added and removed both before and after the code was "
              "first translated (forced block splits + de-jit are on the path).")
LEVEL_NOTE = ("The LLVM backend is not exercised: llvmlite is absent from this image. Trusted: miasm's x86 assembler/disassembler and the emulation of "
              "a dozen register-only x86 instructions; the hand-written traces are cross-checked against a single-step run. Callbacks that register "
              "new breakpoints while running, generator callbacks and breakpoints added on the address the run is currently stopped at are outside "
              "the alphabet.")
TECHNIQUE = "explicit-state BFS over operation histories on the real jitter against a trace + registry reference model"
ASSUMPTIONS = ["the order in which several callbacks of one address are invoked is unspecified",
               "the Python backend's module-global simplifier passes are reset before each new jitter (one jitter per process in real use)"]

CODE = 0x1000
END = 0x1337BEE0

# ---------------------------------------------------------------------------------------------- programs
# (source, trace as instruction indexes, flow-breaking instruction indexes, address roles: name -> (instruction index, byte delta))
PROGRAMS = {
    "straight": ("""
main:
    MOV EAX, 1
    INC EBX
    ADD EAX, 3
    INC ECX
    INC EDX
    RET
dead:
    INC ESI
    RET
""", [0, 1, 2, 3, 4, 5], [5, 7],
                 {"first": (0, 0), "mid": (2, 0), "mid2": (4, 0), "midinstr": (0, 1), "never": (6, 0)}),
    "loop": ("""
main:
    MOV ECX, 3
loop:
    INC EAX
    ADD EBX, EAX
    DEC ECX
    JNZ loop
    INC EDX
    RET
dead:
    INC ESI
    RET
""", [0, 1, 2, 3, 4, 1, 2, 3, 4, 1, 2, 3, 4, 5, 6], [4, 6, 8],
             {"blk": (1, 0), "mid": (2, 0), "mid2": (3, 0), "after": (5, 0), "midinstr": (0, 2), "never": (7, 0)}),
    "call": ("""
main:
    MOV EAX, 1
    CALL f
    INC EAX
    CALL f
    RET
f:
    ADD EAX, 2
    INC EBX
    RET
dead:
    INC ESI
    RET
""", [0, 1, 5, 6, 7, 2, 3, 5, 6, 7, 4], [1, 3, 4, 7, 9],
             {"blk": (5, 0), "mid": (6, 0), "retaddr": (2, 0), "midinstr": (1, 1), "never": (8, 0)}),
    "jmpmid": ("""
main:
    XOR ECX, ECX
    INC EAX
mid:
    INC EBX
    INC EDX
    CMP ECX, 0
    JNZ end
    INC ECX
    JMP mid
end:
    RET
dead:
    INC ESI
    RET
""", [0, 1, 2, 3, 4, 5, 6, 7, 2, 3, 4, 5, 8], [5, 7, 8, 10],
               {"blk": (2, 0), "mid": (3, 0), "first": (0, 0), "midinstr": (4, 1), "never": (9, 0)}),
}
# a delay-slot architecture: branch + delay slot, a skipped instruction, the branch target, a mid-block instruction after it
MIPS_PROGRAM = (["ADDIU T0, T0, 0x1", "BEQ ZERO, ZERO, 0xC", "ADDIU T1, T1, 0x2", "ADDIU T2, T2, 0x4", "ADDIU T3, T3, 0x8",
                 "ADDIU T4, T4, 0x10", "JR RA", "NOP"],
                [0, 1, 2, 4, 5, 6, 7], [1, 6],
                {"first": (0, 0), "branch": (1, 0), "delayslot": (2, 0), "never": (3, 0), "blk": (4, 0), "mid": (5, 0)},
                {"T0": 1, "T1": 2, "T2": 0, "T3": 8, "T4": 0x10})
PROG_ORDER = ["loop", "jmpmid", "call", "straight"]
MIPS = "mipsbranch"
BACKENDS = ["python", "gcc"]
KINDS = ["A", "B", "S", "F"]      # plain, second plain, self-removing, returning False

ROLE_CLASS = {"mid": "mid-block", "mid2": "mid-block", "blk": "block-start", "first": "block-start", "after": "block-start",
              "retaddr": "block-start", "midinstr": "mid-instruction", "never": "never-reached", "branch": "branch", "delayslot": "delay-slot"}
_prog = {}
_cfg = {"menu": "small"}


def prog(name):
    if name == MIPS and name not in _prog:
        from miasm.analysis.machine import Machine
        from miasm.core.locationdb import LocationDB
        lines, idx, breakers, roles, final = MIPS_PROGRAM
        m, loc_db = Machine("mips32l"), LocationDB()
        code, offs = b"", []
        for line in lines:
            ins = m.mn.fromstring(line, loc_db, "l")
            ins.offset = CODE + len(code)
            offs.append(CODE + len(code))
            code += m.mn.asm(ins)[0]
        addrs = {r: offs[i] + d for r, (i, d) in roles.items()}
        _prog[name] = {"arch": "mips32l", "code": code, "offs": offs, "trace": [offs[i] for i in idx], "addrs": addrs,
                       "breakers": [offs[i] for i in breakers], "role_of": {v: k for k, v in addrs.items()}, "final": final}
    if name not in _prog:
        from mc import jitprog as jp
        src, idx, breakers, roles = PROGRAMS[name]
        from mc import jitx
        code, labels, offs = jitx.assemble_chained("x86_32", src, CODE)
        trace = [offs[i] for i in idx]
        addrs = {r: offs[i] + d for r, (i, d) in roles.items()}
        _prog[name] = {"arch": "x86_32", "code": code, "offs": offs, "trace": trace, "addrs": addrs, "breakers": [offs[i] for i in breakers],
                       "role_of": {v: k for k, v in addrs.items()}}
    return _prog[name]


def roles_for(name, quick):
    """Ordered address roles of the alphabet (quick: three of them)."""
    order = {"loop": ["mid", "blk", "never", "after", "midinstr", "mid2"],
             "jmpmid": ["mid", "blk", "midinstr", "first", "never"],
             "call": ["mid", "blk", "never", "retaddr", "midinstr"],
             "straight": ["mid", "first", "midinstr", "mid2", "never"],
             MIPS: ["mid", "delayslot", "branch", "blk", "never"]}[name]
    return order[:3] if quick else order[:5]


# ---------------------------------------------------------------------------------------------- state

class State(object):
    pass


def make(seed):
    from mc import jitx, jitprog as jp
    pname, backend, maxline, pre = seed
    P = prog(pname)
    st = State()
    st.pname, st.backend, st.maxline = pname, backend, maxline
    st.P = P
    jit = jitx.fresh(P["arch"], backend, jit_maxline=maxline)
    if P["arch"] == "x86_32":
        jp.setup(jit, P["code"], map_data=False)
        st.sp0 = jit.cpu.ESP + 4
    else:
        jit.vm.add_memory_page(CODE, 7, P["code"], "code")
        jit.cpu.RA = END
    st.dispatches = 0
    st.runaway = False
    st.jit = jit
    st.reg = {}            # model registry: addr -> [kind]
    st.meta = {}           # (addr, kind) -> "add/set:cold/warm"
    st.log = []
    st.ended = False
    st.phase = "idle"      # idle | stopped
    st.pos = 0
    st.pending = []
    st.runs = 0
    st.nev = 0
    st.broken = False
    st.removed = False     # some breakpoint address has lost its last callback (its forced split was withdrawn)
    st.last = None
    st.cbs = {}
    for k in KINDS:
        st.cbs[k] = _mk_cb(st, k)

    def end_cb(j):
        st.ended = True
        return False
    jit.add_breakpoint(END, end_cb)

    def exec_cb(j):
        st.log.append(("D", j.pc))
        st.dispatches += 1
        if st.dispatches > 300:          # no program of the alphabet needs more than ~20 dispatches per run
            st.runaway = True
            return False
        return True
    jit.exec_cb = exec_cb
    for ev in pre:
        apply(st, tuple(ev))
    return st


def _mk_cb(st, kind):
    def cb(j):
        st.log.append((kind, j.pc))
        if kind == "S":
            j.remove_breakpoints_by_callback(cb)
        return kind != "F"
    cb.__name__ = "cb_" + kind
    return cb


def _nreg(st):
    return sum(len(v) for v in st.reg.values())


def events(st):
    if st.broken:
        return []
    quick = _cfg["menu"] == "small"
    max_reg = 2 if quick else 3
    max_runs = 3
    P = st.P
    roles = roles_for(st.pname, quick)
    cur = P["trace"][st.pos] if st.phase == "stopped" else None
    evs = []
    if _nreg(st) < max_reg:
        for r in roles:
            a = P["addrs"][r]
            if a == cur:
                continue
            firing = r not in ("midinstr", "never")
            for k in KINDS:
                if k in st.reg.get(a, []):
                    continue
                if quick and r != "mid" and k == "S":
                    continue            # small menu: the self-removing callback only on the mid-block address
                if not firing and k != "A":
                    continue            # a breakpoint that never fires: its kind cannot matter
                if k == "B" and "A" not in st.reg.get(a, []) and "S" not in st.reg.get(a, []):
                    continue            # B only exists as a second callback on an address (A and B are interchangeable)
                evs.append(("add", a, k))
    for r in (roles[:1] if quick else roles[:2]):
        a = P["addrs"][r]
        if a != cur and (a in st.reg or _nreg(st) < max_reg):
            evs.append(("set", a, "A"))
            if not quick:
                evs.append(("set", a, "F"))
    for a in sorted(st.reg):
        evs.append(("rm_addr", a))
    unknown = P["addrs"][roles[2]]
    if unknown not in st.reg:
        evs.append(("rm_addr", unknown))
    for k in KINDS:
        if any(k in v for v in st.reg.values()):
            evs.append(("rm_cb", k))
    if not quick and not any("B" in v for v in st.reg.values()):
        evs.append(("rm_cb", "B"))      # a callback registered nowhere
    if st.runs < max_runs:
        evs.append(("run",))
    return evs


def _when(st, a):
    return "warm" if st.runs else "cold"


def apply(st, ev):
    probs = []
    jit = st.jit
    st.nev += 1
    st.last = ev
    k = ev[0]
    if k == "add":
        _, a, kind = ev
        jit.add_breakpoint(a, st.cbs[kind])
        if kind not in st.reg.get(a, []):
            st.reg.setdefault(a, []).append(kind)
            st.meta[(a, kind)] = "add:" + _when(st, a)
    elif k == "set":
        _, a, kind = ev
        jit.set_breakpoint(a, st.cbs[kind])
        for old in st.reg.get(a, []):
            st.meta.pop((a, old), None)
        st.reg[a] = [kind]
        st.meta[(a, kind)] = "set:" + _when(st, a)
    elif k == "rm_addr":
        a = ev[1]
        known = a in st.reg
        try:
            jit.remove_breakpoints_by_address(a)
            raised = None
        except Exception as e:
            raised = e
        if known and raised is not None:
            probs.append(("remove_breakpoints_by_address:registered:raises:%s" % type(raised).__name__,
                          "remove_breakpoints_by_address(%#x) raised %r although callbacks %r were registered" % (a, raised, st.reg[a])))
        if known:
            for old in st.reg.pop(a):
                st.meta.pop((a, old), None)
            st.removed = True
    elif k == "rm_cb":
        kind = ev[1]
        jit.remove_breakpoints_by_callback(st.cbs[kind])
        _model_remove_cb(st, kind)
    elif k == "run":
        probs += _run(st)
    if not st.broken:
        probs += _registry_check(st)
    return probs


def _model_remove_cb(st, kind):
    for a in list(st.reg):
        if kind in st.reg[a]:
            st.reg[a].remove(kind)
            st.meta.pop((a, kind), None)
            if not st.reg[a]:
                del st.reg[a]
                st.removed = True


def _skel(st, a):
    """Skeleton of an address for signatures: role, callbacks registered there, how/when they were registered."""
    role = ROLE_CLASS.get(st.P["role_of"].get(a, "other"), "other")
    kinds = "+".join(st.reg.get(a, [])) or "-"
    how = ",".join(sorted({st.meta.get((a, x), "?") for x in st.reg.get(a, [])})) or "-"
    return "%s:%s:%s" % (role, kinds, how)


def _run(st):
    """One run()/continue_run() on the implementation, then the model consumes the callback log.
    The log is cut into dispatches by exec_cb (called once at the start of every dispatch): the callbacks of one
    arrival at an address are exactly those logged between two marks."""
    jit = st.jit
    P = st.P
    T = P["trace"]
    st.log = []
    st.ended = False
    cont = st.phase == "stopped"
    st.runs += 1
    st.dispatches = 0
    try:
        if cont:
            jit.continue_run()
        else:
            if P["arch"] != "x86_32":
                jit.cpu.RA = END
            elif st.runs > 1:
                jit.cpu.ESP = st.sp0
                jit.push_uint32_t(END)
            jit.run(CODE)
        raised = None
    except Exception as e:
        raised = e
    if raised is not None:
        st.broken = True
        return [("run:raises:%s:%s" % (type(raised).__name__, "continue" if cont else "start"),
                 "%s raised %r; registry %s" % ("continue_run()" if cont else "run()", raised, _fmt_reg(st)))]
    if st.runaway:
        st.broken = True
        regd = "+".join(sorted({ROLE_CLASS.get(P["role_of"].get(a, "other"), "other") for a in st.reg})) or "-"
        tail = [hex(pc) for kk, pc in st.log if kk == "D"][-4:]
        return [("run-does-not-terminate:breakpoints-on:%s" % regd,
                 "%s dispatched more than 300 times without reaching the END sentinel (last dispatches %s); %s" % (
                     "continue_run()" if cont else "run()", tail, _ctx(st)))]
    log = list(st.log)
    # groups of callback invocations per dispatch
    groups = []
    cur = [T[st.pos], []] if cont else None
    for kind, pc in log:
        if kind == "D":
            if cur is not None and cur[1]:
                groups.append(cur)
            cur = [pc, []]
        else:
            if cur is None:
                cur = [pc, []]
            if pc != cur[0]:
                st.broken = True
                return [("callback-sees-wrong-pc:%s" % kind, "callback %s ran with jitter.pc=%#x inside the dispatch of %#x; log %s; %s" % (
                    kind, pc, cur[0], _fmt_log(log), _ctx(st)))]
            cur[1].append(kind)
    if cur is not None and cur[1]:
        groups.append(cur)
    # does the first group belong to the arrival the run was stopped on (callbacks invoked before any new dispatch)?
    resumed_group = cont and bool(log) and log[0][0] != "D"
    pos = st.pos if cont else 0
    arriving = not cont
    gi = 0
    stopped_at = None
    while pos < len(T):
        a = T[pos]
        if arriving:
            need = list(st.reg.get(a, []))
        else:
            need = [x for x in st.pending if x in st.reg.get(a, [])]
        skel = _skel(st, a) + ("" if arriving else ":resumed")
        if not arriving and not need and gi < len(groups) and groups[gi][0] == a and gi == 0 and resumed_group:
            st.broken = True
            return [("callback-invoked-after-removal:%s:%s" % (skel, "+".join(groups[0][1])),
                     "continue_run() at %#x invoked %r although they had been removed while the run was stopped; log %s; %s" % (
                         a, groups[0][1], _fmt_log(log), _ctx(st)))]
        if need:
            fired = groups[gi][1] if gi < len(groups) and groups[gi][0] == a else None
            if not arriving and not resumed_group:
                fired = None            # the first logged group belongs to a later dispatch, not to the arrival being resumed
            if fired is None:
                st.broken = True
                return [("callback-missed:%s:none-invoked" % skel,
                         "arrival %d of the trace at %#x: callbacks %r were not invoked (next logged dispatch with callbacks: %s); log %s; %s" % (
                             pos, a, need, "%#x" % groups[gi][0] if gi < len(groups) else "none", _fmt_log(log), _ctx(st)))]
            gi += 1
            stop_here = False
            for n, kind in enumerate(fired):
                if kind not in need:
                    st.broken = True
                    if kind in st.reg.get(a, []):
                        return [("callback-invoked-twice:%s:%s" % (skel, kind),
                                 "callback %s invoked twice for one arrival at %#x; log %s; %s" % (kind, a, _fmt_log(log), _ctx(st)))]
                    return [("callback-invoked-after-removal:%s:%s" % (skel, kind),
                             "callback %s invoked at %#x although it is not registered there (any more); log %s; %s" % (kind, a, _fmt_log(log), _ctx(st)))]
                need.remove(kind)
                if kind == "S":
                    _model_remove_cb(st, "S")
                if kind == "F":
                    stop_here = True
                    if n != len(fired) - 1:
                        st.broken = True
                        return [("false-return-does-not-stop-at-address:%s" % skel,
                                 "callback F returned False at %#x but %r were still invoked in the same run; log %s; %s" % (a, fired[n + 1:], _fmt_log(log), _ctx(st)))]
            if stop_here:
                stopped_at = pos
                st.pending = need
                break
            if need:
                st.broken = True
                return [("callback-missed:%s:skipped-%s" % (skel, "+".join(need)),
                         "arrival %d of the trace at %#x: callbacks %r ran but %r did not; log %s; %s" % (pos, a, fired, need, _fmt_log(log), _ctx(st)))]
        pos += 1
        arriving = True
    if stopped_at is None and gi < len(groups) or (stopped_at is not None and gi < len(groups)):
        st.broken = True
        pc, fired = groups[gi]
        role = ROLE_CLASS.get(P["role_of"].get(pc, "other"), "other")
        return [("callback-spurious:%s:%s" % (role, "+".join(fired)),
                 "callbacks %r invoked with pc=%#x where the reference trace has no arrival with registered callbacks; log %s; %s" % (
                     fired, pc, _fmt_log(log), _ctx(st)))]
    if stopped_at is not None:
        a = T[stopped_at]
        st.phase, st.pos = "stopped", stopped_at
        if st.ended or jit.pc != a:
            st.broken = True
            return [("false-return-does-not-stop-at-address:%s" % _skel(st, a),
                     "a callback returned False at %#x but the run %s (jitter.pc=%#x); %s" % (
                         a, "went on to the END sentinel" if st.ended else "stopped elsewhere", jit.pc, _ctx(st)))]
    else:
        st.phase, st.pos, st.pending = "idle", 0, []
        if st.ended and st.runs == 1 and "final" in P:
            got = {k: getattr(jit.cpu, k) for k in P["final"]}
            if got != P["final"]:
                st.broken = True
                regd = "+".join(sorted({ROLE_CLASS.get(P["role_of"].get(a, "other"), "other") for a in st.reg})) or "-"
                return [("breakpoint-changes-what-the-program-computes:breakpoints-on:%s" % regd,
                         "the first complete run ends with %r, the program computes %r: an instruction reached by control flow was not executed; %s" % (
                             got, P["final"], _ctx(st)))]
        if not st.ended:
            st.broken = True
            return [("run-stops-without-false-callback",
                     "no callback returned False but the run stopped at pc=%#x before the END sentinel; log %s; %s" % (jit.pc, _fmt_log(log), _ctx(st)))]
    return []


def _fmt_reg(st):
    return "{%s}" % ", ".join("%#x(%s): %s" % (a, st.P["role_of"].get(a, "?"), "+".join(v)) for a, v in sorted(st.reg.items()))


def _fmt_log(log):
    return "[%s]" % ", ".join("%s@%#x" % (k, pc) for k, pc in log if k != "D")


def _ctx(st):
    return "program %s, backend %s, jit_maxline %d, registry %s, translated block starts %s" % (
        st.pname, st.backend, st.maxline, _fmt_reg(st), [hex(x) for x in sorted(st.jit.jit.offset_to_jitted_func.keys())])


def invariant(st):
    return []          # everything is checked inside apply(), so that a rebuilt history is marked broken the same way


def _registry_check(st):
    probs = []
    name_of = {id(cb): k for k, cb in st.cbs.items()}
    for r, a in sorted(st.P["addrs"].items()):
        got = [name_of.get(id(c), "?") for c in st.jit.get_breakpoint(a)]
        want = st.reg.get(a, [])
        if sorted(got) != sorted(want):
            st.broken = True
            probs.append(("registry-mismatch:after-%s" % (st.last[0] if st.last else "init"),
                          "get_breakpoint(%#x) lists %r, the model %r after %r; %s" % (a, got, want, st.last, _ctx(st))))
    return probs


def canon(st):
    return (st.pname, st.backend, st.maxline, st.phase, st.pos, tuple(sorted(st.pending)),
            tuple(sorted((a, tuple(v)) for a, v in st.reg.items())),
            tuple(sorted(st.jit.jit.offset_to_jitted_func.keys())), tuple(sorted(st.jit.jit.split_dis)),
            min(st.runs, 3), st.removed, st.broken and st.nev)


def outcome(st, ev):
    return (ev[0], st.phase, st.pos, len([x for x in st.log if x[0] != "D"]), st.broken)


# ---------------------------------------------------------------------------------------------- driver

SEED_KINDS = {"cold": [], "self-removing registered": [("add", "MID", "S")], "warm": [("run",)],
              "stopped": [("add", "MID", "F"), ("run",)],
              "stopped with a callback pending": [("add", "MID", "F"), ("add", "MID", "A"), ("run",)],
              # the registry has already lost a breakpoint (the forced split of `mid` was withdrawn): what is added next, on
              # another mid-block instruction of code that is (re)translated afterwards, must still get its split
              "added then removed by address": [("add", "MID", "A"), ("rm_addr", "MID")],
              "added then removed by callback": [("add", "MID", "A"), ("rm_cb", "A")],
              "self-removed during a run": [("add", "MID", "S"), ("run",)]}
QUICK_COMBOS = [("loop", "gcc"), ("jmpmid", "python")]
ALL_COMBOS = [(p, b) for p in PROG_ORDER for b in BACKENDS]
# phase -> (menu, depth, [(program, backend, jit_maxline, seed kind)])
PHASES = {
    "quick": ("small", 2, [(p, b, 50, k) for (p, b) in QUICK_COMBOS
                           for k in ("cold", "self-removing registered", "warm", "stopped", "added then removed by address")] +
              [(MIPS, b, 50, "cold") for b in BACKENDS]),
    "deep": ("small", 3, [(p, b, 50, "cold") for (p, b) in ALL_COMBOS if p != "straight"]),
    "wide": ("wide", 2, [(p, b, 50, k) for (p, b) in ALL_COMBOS
                         for k in ("cold", "warm", "stopped with a callback pending", "added then removed by address",
                                   "added then removed by callback", "self-removed during a run")] +
             [(p, "python", 50, "self-removing registered") for p in PROG_ORDER] +
             [(p, "python", 2, k) for p in PROG_ORDER for k in ("cold", "warm")] +
             [(MIPS, b, ml, k) for b in BACKENDS for ml in (50, 2) for k in ("cold", "warm", "stopped")]),
}
TIER_PHASES = {"quick": ["quick"], "thorough": ["deep", "wide"]}


def seeds(phase):
    out = []
    for pname, be, ml, kind in PHASES[phase][2]:
        P = prog(pname)
        pre = [tuple(P["addrs"]["mid"] if x == "MID" else x for x in ev) for ev in SEED_KINDS[kind]]
        out.append((pname, be, ml, pre))
    return out


def _load():
    from mc import jitx
    jitx.activate(["JitCore_x86", "JitCore_mips32"])


def check_reference_traces():
    """The hand-written traces against a single-step run of the Python backend (harness sanity)."""
    from mc import jitx, jitprog as jp
    out = []
    P = prog(MIPS)
    jit = jitx.fresh("mips32l", "python")
    jit.vm.add_memory_page(CODE, 7, P["code"], "code")
    jit.cpu.RA = END
    jit.add_breakpoint(END, lambda j: False)
    jit.run(CODE)
    got = {k: getattr(jit.cpu, k) for k in P["final"]}
    if got != P["final"] or jit.pc != END:
        out.append(("harness:reference-trace-mismatch:%s" % MIPS, "default-configuration run ends at %#x with %r, the hand-written trace gives %r" % (
            jit.pc, got, P["final"])))
    for pname in PROG_ORDER:
        P = prog(pname)
        jit = jitx.fresh("x86_32", "python", jit_maxline=1, max_exec_per_call=1)
        jp.setup(jit, P["code"], map_data=False)
        obs = jp.run(jit, CODE)
        got = [x for x in obs.dispatch if x != END]
        if got != P["trace"] or obs.stopped != "end":
            out.append(("harness:reference-trace-mismatch:%s" % pname,
                        "single-step trace %s differs from the hand-written trace %s" % ([hex(x) for x in got], [hex(x) for x in P["trace"]])))
    return out


def _gcc_jobs(phases):
    """One precompile job per block the GCC seeds can meet: starts = dispatch targets and split addresses on the trace,
    ends = the natural end of the basic block or an alphabet address inside it."""
    jobs = []
    done = set()
    for ph in phases:
        small = PHASES[ph][0] == "small"
        for pname, be, ml, kind in PHASES[ph][2]:
            if be != "gcc" or (pname, small) in done or pname == MIPS:
                continue                    # (the few mips32 blocks are compiled on demand)
            done.add((pname, small))
            P = prog(pname)
            offs = P["offs"]
            on_trace = set(P["trace"])
            splits = sorted(P["addrs"][r] for r in roles_for(pname, small) if P["addrs"][r] in on_trace)
            starts = sorted((_targets(P) | set(splits)) & on_trace)
            for s in starts:
                brk = min(b for b in P["breakers"] if b >= s)
                nat = offs[offs.index(brk) + 1] if offs.index(brk) + 1 < len(offs) else None
                for e in [x for x in splits if s < x and (nat is None or x < nat)] + [None]:
                    jobs.append(("x86_32", P["code"], CODE, s, (e,) if e is not None else (), 50))
    return jobs


def _targets(P):
    """Addresses at which a dispatch can start: successors of flow-breaking instructions in the trace."""
    T = P["trace"]
    out = {T[0]}
    for i, a in enumerate(T[:-1]):
        if a in P["breakers"]:
            out.add(T[i + 1])
    return out


def run(ctx):
    try:
        return _run_check(ctx)
    except Exception:
        import traceback
        traceback.print_exc(file=sys.stdout)     # fd 2 is silenced (C runtime chatter)
        raise


def _run_check(ctx):
    from mc import jitx
    _load()
    bfs._SYS = sys.modules[__name__]        # the pool is forked by precompile(), before bfs.explore() sets it
    phases = TIER_PHASES[ctx.tier]
    for sig, what in check_reference_traces():
        ctx.violation(sig, what, {"seed": 0, "hist": [], "phase": phases[0], "reference": True})
    import time
    t0 = time.time()
    compiled = jitx.precompile(ctx, _gcc_jobs(phases))
    t1 = time.time()
    total = None
    per_phase = {}
    for ph in phases:
        menu, depth, _ = PHASES[ph]
        _cfg["menu"] = menu
        ctx.close()                         # workers read the menu from the forked module state: fork again per phase
        sd = seeds(ph)
        before = len(ctx.violations)
        cov = bfs.explore(ctx, sys.modules[__name__], max_depth=depth, seeds=sd, chunk=2)
        for v in ctx.violations[before:]:
            v["case"]["phase"] = ph
        per_phase[ph] = {k: cov[k] for k in ("states", "transitions", "new_states_per_depth", "distinct_outcomes")}
        per_phase[ph].update(depth=depth, seeds=len(sd), menu=menu)
        if total is None:
            total = cov
        else:
            for k in ("states", "transitions", "traces_validated_against_impl", "evaluations", "distinct_nontrivial"):
                total[k] += cov[k]
            total["distinct_outcomes"] = max(total["distinct_outcomes"], cov["distinct_outcomes"])
            total["exhaustive"] = total["exhaustive"] and cov["exhaustive"]
            total["samples"] = (total["samples"] + cov["samples"])[:4]
            total["max_depth"] = max(total["max_depth"], cov["max_depth"])
    total.pop("new_states_per_depth", None)
    total["phases"] = per_phase
    total["gcc_blocks_precompiled"] = compiled
    total["seconds_precompile"] = round(t1 - t0, 1)
    total["seconds_explore"] = round(time.time() - t1, 1)
    total["bounds"] = {"phases": {ph: {"menu": PHASES[ph][0], "depth": PHASES[ph][1], "seeds": [list(x) for x in PHASES[ph][2]]} for ph in phases},
                       "menus": {"small": {"address_roles": {p: roles_for(p, True) for p in PROG_ORDER + [MIPS]}, "max_registered_callbacks": 2},
                                 "wide": {"address_roles": {p: roles_for(p, False) for p in PROG_ORDER + [MIPS]}, "max_registered_callbacks": 3}},
                       "max_runs": 3, "callback_kinds": KINDS, "seed_kinds": {k: [list(e) for e in v] for k, v in SEED_KINDS.items()}}
    return total


def replay(case):
    _load()
    ph = case.get("phase", "quick")
    _cfg["menu"] = PHASES[ph][0]
    if case.get("reference"):
        from mc.runner import violation
        return [violation(sig, what, case) for sig, what in check_reference_traces()]
    return bfs.replay(sys.modules[__name__], seeds(ph), case)
