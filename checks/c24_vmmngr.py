"""C24 - the virtual memory manager behaves like a byte map with permissions.

Engine E1: explicit-state BFS over operation histories on the *real* VmMngr object built from the
working tree's C sources (mc/native.py shadow tree), typed emulated accesses through a small C shim
(native/vmshim.c) compiled against the tree's own headers and linked against the rebuilt extension.
Reference model: dict address -> byte, page list with permissions, read/write byte sets, breakpoints.

What is compared (only what the property states):
  * add_memory_page: refused (raises) iff the new page shares a byte with an existing page;
  * host get_mem/set_mem: succeed iff every byte is mapped; on success bytes read == model, bytes written land;
    a *failed* host write leaves the touched bytes unspecified (the model re-adopts them);
  * emulated typed read/write (8/16/32 bits, both byte orders): faults (EXCEPT_ACCESS_VIOL) iff some byte is
    unmapped or lacks the permission; a faulting write leaves memory unchanged; a non-faulting read returns the
    model value; a non-faulting write stores it;
  * memory breakpoints: after the access + check_memory_breakpoint(), EXCEPT_BREAKPOINT_MEMORY is set iff a
    recorded range overlaps a breakpoint of the matching kind;
  * recorded read/write ranges (as sets of bytes) == bytes accessed since the last reset (compared on fault-free
    histories only: what is recorded for a faulting access is unspecified).
"""
import os
import subprocess
import sys
import sysconfig

from mc import bfs

PROP = "C24"
LEVEL = "model_checking"
ENGINE = "bfs"
RULE = ("BFS over histories of page mappings/unmappings, permission changes, host reads/writes, emulated typed accesses, "
        "memory breakpoints and access-log resets on the real VmMngr over an 8-byte window with 2-byte and zero-sized pages; "
        "a state is distinct by (page table with contents, breakpoints, access logs)")
LEVEL_TEXT = ("Explicit-state search of every operation history up to the depth bound on the real C memory manager rebuilt from "
              "the working tree, against a byte-map reference model in lock step; every reached state is probed byte by byte. "
              "The manager's code is size-generic, so 2-byte pages expose every straddling/adjacency/zero-size case.")
LEVEL_NOTE = ("Trusted: the harness shim (native/vmshim.c, 40 lines calling vm_MEM_LOOKUP_*/vm_MEM_WRITE_*), gcc. 64-bit accesses and "
              "pages larger than 4 bytes are outside the alphabet; what a failed host write or a faulting access records is "
              "treated as unspecified.")
TECHNIQUE = "explicit-state BFS over operation histories on the real C object against a byte-map reference model"
ASSUMPTIONS = ["after every event the pending exception flags are cleared on both sides, so each event's fault report is independent"]

R, W = 1, 2
EXCEPT_ACCESS_VIOL = (1 << 14) | (1 << 25)
EXCEPT_BREAKPOINT_MEMORY = 1 << 10
BP_READ, BP_WRITE = 1, 2
LO, HI = 0x0FFF, 0x1007          # probe window [LO, HI)
PAGE_ADDRS = [0x1000, 0x1002, 0x1001, 0x1004]
PERMS = [R | W, R, W]
ENCLOSING_PAGES = [(0x1001, 1), (0x1002, 1), (0x1000, 4), (0x1001, 3), (0x1000, 3)]
# pages at the two ends of the address space: a zero-sized (and a 1-byte) page at address 0, whose end computations
# (ad + size - 1) underflow, and a page ending at 2^64
EDGE_PAGES = [(0x0, 0), (0x0, 1), (0xFFFFFFFFFFFFFFFE, 2)]

_mods = {}


def _load():
    """Import the rebuilt VmMngr and the shim (compiled once per process tree, before forking)."""
    if _mods:
        return _mods
    from mc import native
    shadow = native.activate(["VmMngr"])
    import importlib.util
    ext = sysconfig.get_config_var("EXT_SUFFIX")
    so = os.path.join(native.tmpdir(), "vmshim" + ext)
    if not os.path.exists(so):
        vmso = os.path.join(shadow, "miasm", "jitter", "VmMngr" + ext)
        cmd = ["gcc", "-O1", "-fPIC", "-shared", "-w"] + native.include_dirs() + [
            os.path.join(os.path.dirname(os.path.dirname(os.path.abspath(__file__))), "native", "vmshim.c"),
            vmso, "-Wl,-rpath," + os.path.dirname(vmso), "-o", so]
        p = subprocess.run(cmd, stdout=subprocess.PIPE, stderr=subprocess.STDOUT)
        if p.returncode:
            raise RuntimeError("vmshim build failed: " + p.stdout.decode()[-2000:])
    from miasm.jitter import VmMngr
    spec = importlib.util.spec_from_file_location("vmshim", so)
    shim = importlib.util.module_from_spec(spec)
    spec.loader.exec_module(shim)
    # the C code reports every fault on stderr: silence it (fd 2) in this process and its workers
    devnull = os.open(os.devnull, os.O_WRONLY)
    _mods["stderr_fd"] = os.dup(2)
    os.dup2(devnull, 2)
    _mods.update(VmMngr=VmMngr, shim=shim)
    return _mods


def pat(a, salt=0):
    return (a * 7 + 1 + salt * 0x40) & 0xFF


class State(object):
    pass


def make(seed):
    m = _load()
    st = State()
    st.vm = m["VmMngr"].Vm()
    st.big = bool(seed and seed.get("big"))
    if st.big:
        st.vm.set_big_endian()
    else:
        st.vm.set_little_endian()
    st.pages = []            # list of [ad, size, perm, bytearray]
    st.bps = []              # list of (ad, size, access)
    st.rd = set()
    st.wr = set()
    st.log_valid = True
    for ev in (seed or {}).get("pre", []):
        apply(st, tuple(ev))
    return st


def page_of(st, a):
    for p in st.pages:
        if p[0] <= a < p[0] + p[1]:
            return p
    return None


def mapped(st, a):
    return page_of(st, a) is not None


def mbyte(st, a):
    p = page_of(st, a)
    return p[3][a - p[0]]


def events(st):
    evs = []
    for a in PAGE_ADDRS:
        for size in (2, 0):
            for perm in PERMS:
                if len(st.pages) < 3:
                    evs.append(("add", a, size, perm))
    # 1-byte pages and 3/4-byte pages: a new page may strictly enclose an existing one (or be enclosed by it)
    if len(st.pages) < 3:
        for a, size in ENCLOSING_PAGES:
            evs.append(("add", a, size, R | W))
    if len(st.pages) < 4 and not any(p[0] in (0x0, 0xFFFFFFFFFFFFFFFE) for p in st.pages):
        for a, size in EDGE_PAGES:
            evs.append(("add", a, size, R | W))
    for p in st.pages:
        if p[1] > 0:
            evs.append(("remove", p[0]))
    evs.append(("remove", 0x1006))
    for a in (0x1000, 0x1003, 0x1006):
        for perm in PERMS:
            evs.append(("access", a, perm))
    for a in range(LO, HI - 1):
        for n in (1, 2, 3):
            evs.append(("hget", a, n))
        evs.append(("hset", a, 1))
        evs.append(("hset", a, 3))
        for bits in (8, 16, 32):
            evs.append(("rd", bits, a))
            evs.append(("wr", bits, a))
    evs.append(("hget", 0x1000, 0))
    evs.append(("hget", 0x1006, 0))
    for a in (0x1001, 0x1003):
        for n in (1, 2):
            for acc in (BP_READ, BP_WRITE):
                if len(st.bps) < 2:
                    evs.append(("bpadd", a, n, acc))
    for b in st.bps:
        evs.append(("bpdel", b[0], b[2]))
    evs.append(("reset",))
    return evs


def _clear_exc(st):
    st.vm.set_exception(0)


def _check_bp(st, probs, what):
    """After an emulated access: run check_memory_breakpoint and compare the flag with the model."""
    st.vm.check_memory_breakpoint()
    got = bool(st.vm.get_exception() & EXCEPT_BREAKPOINT_MEMORY)
    want = False
    for (ad, size, acc) in st.bps:
        rng = set(range(ad, ad + size))
        if acc & BP_READ and rng & st.rd:
            want = True
        if acc & BP_WRITE and rng & st.wr:
            want = True
    if st.log_valid and got != want:
        probs.append(("membp:%s:%s" % (what, "missed" if want else "spurious"),
                      "memory breakpoint flag %s after %s; breakpoints %r, reads %r, writes %r" %
                      (got, what, st.bps, sorted(st.rd), sorted(st.wr))))


def apply(st, ev):
    probs = []
    vm = st.vm
    shim = _mods["shim"]
    k = ev[0]
    if k == "add":
        _, a, size, perm = ev
        new = set(range(a, a + size))
        overlap = any(new & set(range(p[0], p[0] + p[1])) for p in st.pages)
        data = bytes(pat(x, len(st.pages)) for x in range(a, a + size))
        try:
            vm.add_memory_page(a, perm, data, "p")
            ok = True
        except Exception:
            ok = False
        if ok and overlap:
            probs.append(("add_memory_page:overlap-accepted:size%d" % size, "page (%#x,+%d) accepted although it overlaps %r" % (a, size, [(p[0], p[1]) for p in st.pages])))
        # a zero-sized page holds no byte: whether one lying inside another page (or vice versa) is accepted
        # is not fixed by the property, only pages that really hold bytes must be accepted when disjoint
        zero_involved = size == 0 or any(p[1] == 0 for p in st.pages)
        if not ok and not overlap and not zero_involved:
            probs.append(("add_memory_page:disjoint-refused:size%d" % size, "page (%#x,+%d) refused although disjoint from %r" % (a, size, [(p[0], p[1]) for p in st.pages])))
        if ok:
            st.pages.append([a, size, perm, bytearray(data)])
    elif k == "remove":
        a = ev[1]
        vm.remove_memory_page(a)
        st.pages = [p for p in st.pages if not (p[0] == a and p[1] > 0)]
    elif k == "access":
        _, a, perm = ev
        p = page_of(st, a)
        try:
            vm.set_mem_access(a, perm)
            ok = True
        except Exception:
            ok = False
        if ok != (p is not None):
            probs.append(("set_mem_access:%s" % ("unmapped-accepted" if ok else "mapped-refused"), "set_mem_access(%#x) ok=%s, pages %r" % (a, ok, [(q[0], q[1]) for q in st.pages])))
        if ok and p is not None:
            p[2] = perm
    elif k == "hget":
        _, a, n = ev
        allm = all(mapped(st, x) for x in range(a, a + n))
        try:
            got = vm.get_mem(a, n)
            ok = True
        except Exception:
            ok = False
        if ok != allm:
            probs.append(("host-get_mem:%s:n%d" % ("unmapped-succeeds" if ok else "mapped-fails", n), "get_mem(%#x,%d) ok=%s, pages %r" % (a, n, ok, [(q[0], q[1]) for q in st.pages])))
        elif ok:
            want = bytes(mbyte(st, x) for x in range(a, a + n))
            if got != want:
                probs.append(("host-get_mem:wrong-bytes", "get_mem(%#x,%d) = %r, model %r" % (a, n, got, want)))
    elif k == "hset":
        _, a, n = ev
        data = bytes((0xC0 + i + (a & 7) * 4) & 0xFF for i in range(n))
        allm = all(mapped(st, x) for x in range(a, a + n))
        try:
            vm.set_mem(a, data)
            ok = True
        except Exception:
            ok = False
        if ok != allm:
            probs.append(("host-set_mem:%s:n%d" % ("unmapped-succeeds" if ok else "mapped-fails", n), "set_mem(%#x,%d) ok=%s, pages %r" % (a, n, ok, [(q[0], q[1]) for q in st.pages])))
        if ok and allm:
            for i, x in enumerate(range(a, a + n)):
                p = page_of(st, x)
                p[3][x - p[0]] = data[i]
            st.wr |= set(range(a, a + n))
        else:
            _adopt(st, range(a, a + n))
            st.log_valid = False
    elif k in ("rd", "wr"):
        _, bits, a = ev
        n = bits // 8
        need = R if k == "rd" else W
        fault = not all(mapped(st, x) and (page_of(st, x)[2] & need) for x in range(a, a + n))
        before = _snapshot(st)
        if k == "rd":
            got = shim.read(vm, bits, a)
        else:
            val = int.from_bytes(bytes((0x11 * (i + 1) + (a & 3)) & 0xFF for i in range(n)), "little")
            shim.write(vm, bits, a, val)
        exc = vm.get_exception()
        gotfault = bool(exc & (1 << 14))
        shape = _shape(st, a, n, need)
        if gotfault != fault:
            probs.append(("emu-%s%d:%s:%s" % (k, bits, "fault-missed" if fault else "spurious-fault", shape),
                          "emulated %s of %d bits at %#x: fault=%s expected %s; pages %r" % (k, bits, a, gotfault, fault, [(q[0], q[1], q[2]) for q in st.pages])))
        if fault:
            after = _snapshot(st)
            if after != before:
                probs.append(("emu-%s%d:faulting-access-changed-memory:%s" % (k, bits, shape),
                              "faulting emulated %s of %d bits at %#x changed memory: %r -> %r" % (k, bits, a, before, after)))
                _adopt(st, range(LO, HI))
            st.log_valid = False
        else:
            order = "big" if st.big else "little"
            if k == "rd":
                want = int.from_bytes(bytes(mbyte(st, x) for x in range(a, a + n)), order)
                if got != want:
                    probs.append(("emu-rd%d:wrong-value:%s" % (bits, shape), "emulated read %d bits at %#x = %#x, model %#x (%s endian)" % (bits, a, got, want, order)))
                st.rd |= set(range(a, a + n))
            else:
                bs = val.to_bytes(n, order)
                for i, x in enumerate(range(a, a + n)):
                    p = page_of(st, x)
                    p[3][x - p[0]] = bs[i]
                st.wr |= set(range(a, a + n))
            _check_bp(st, probs, "%s%d" % (k, bits))
    elif k == "bpadd":
        _, a, n, acc = ev
        vm.add_memory_breakpoint(a, n, acc)
        st.bps.append((a, n, acc))
    elif k == "bpdel":
        _, a, acc = ev
        vm.remove_memory_breakpoint(a, acc)
        st.bps = [b for b in st.bps if not (b[0] == a and b[2] == acc)]
    elif k == "reset":
        vm.reset_memory_access()
        st.rd = set()
        st.wr = set()
        st.log_valid = True
    _clear_exc(st)
    return probs


def _shape(st, a, n, need):
    """Skeleton of an access: which bytes are ok / unmapped / no-permission, and whether it straddles pages."""
    out = []
    pages = set()
    for x in range(a, a + n):
        p = page_of(st, x)
        if p is None:
            out.append("u")
        else:
            pages.add(p[0])
            out.append("k" if p[2] & need else "p")
    s = "".join(out)
    # compress runs
    comp = []
    for c in s:
        if not comp or comp[-1] != c:
            comp.append(c)
    return "%s/%dpg" % ("".join(comp), len(pages))


def _snapshot(st):
    out = {}
    for x in range(LO, HI):
        try:
            out[x] = st.vm.get_mem(x, 1)[0]
        except Exception:
            pass
    st.vm.set_exception(0)
    return out


def _adopt(st, addrs):
    for x in addrs:
        p = page_of(st, x)
        if p is not None:
            try:
                p[3][x - p[0]] = st.vm.get_mem(x, 1)[0]
            except Exception:
                pass
    st.vm.set_exception(0)


def invariant(st):
    probs = []
    vm = st.vm
    for x in range(LO, HI):
        m = mapped(st, x)
        try:
            b = vm.get_mem(x, 1)[0]
            ok = True
        except Exception:
            ok = False
        zero_dup = any(p[1] == 0 and p[0] == q[0] for p in st.pages for q in st.pages if q[1] > 0)
        tag = "zero-size-page-at-same-address" if zero_dup else ("zero-size-page-present" if any(p[1] == 0 for p in st.pages) else "plain")
        if ok != m:
            probs.append(("probe:get_mem:%s:%s" % ("unmapped-readable" if ok else "mapped-unreadable", tag),
                          "byte %#x: host read ok=%s but model mapped=%s; pages %r" % (x, ok, m, [(q[0], q[1]) for q in st.pages])))
        elif ok and b != mbyte(st, x):
            probs.append(("probe:get_mem:wrong-byte:%s" % tag, "byte %#x = %#x, model %#x" % (x, b, mbyte(st, x))))
        im = bool(vm.is_mapped(x, 1))
        if im != m:
            probs.append(("probe:is_mapped:%s" % tag, "is_mapped(%#x,1) = %s, model %s; pages %r" % (x, im, m, [(q[0], q[1]) for q in st.pages])))
        if m:
            try:
                acc = vm.get_mem_access(x)
                if acc != page_of(st, x)[2]:
                    probs.append(("probe:get_mem_access:wrong:%s" % tag, "get_mem_access(%#x) = %d, model %d" % (x, acc, page_of(st, x)[2])))
            except Exception:
                probs.append(("probe:get_mem_access:raise:%s" % tag, "get_mem_access(%#x) raised for a mapped byte; pages %r" % (x, [(q[0], q[1]) for q in st.pages])))
    vm.set_exception(0)
    if st.log_valid:
        for name, getter, model in (("read", vm.get_memory_read, st.rd), ("write", vm.get_memory_write, st.wr)):
            got = set()
            for a, b in getter():
                got |= set(range(a, b))
            if got != model:
                probs.append(("access-log:%s:%s" % (name, "missing" if model - got else "extra"),
                              "recorded %s ranges %r = bytes %r, model %r" % (name, getter(), sorted(got), sorted(model))))
    return probs


def canon(st):
    return (tuple(sorted((p[0], p[1], p[2], bytes(p[3])) for p in st.pages)), tuple(sorted(st.bps)),
            tuple(sorted(st.rd)), tuple(sorted(st.wr)), st.log_valid, st.big)


def outcome(st, ev):
    return (ev[0], len(st.pages), len(st.bps), bool(st.rd), bool(st.wr))


def seeds(quick):
    lay = [
        [],
        [("add", 0x1000, 2, R | W), ("add", 0x1002, 2, R | W)],
        [("add", 0x1000, 2, R | W), ("add", 0x1002, 2, R)],
        [("add", 0x1000, 2, R | W), ("add", 0x1004, 2, R | W)],
        [("add", 0x1000, 0, R | W), ("add", 0x1000, 2, R | W)],
        [("add", 0x1000, 2, R | W), ("add", 0x1002, 0, R | W), ("add", 0x1002, 2, R | W)],
        [("add", 0x1000, 2, R | W), ("add", 0x1002, 2, R | W), ("bpadd", 0x1001, 2, BP_WRITE)],
        [("add", 0x1000, 2, W), ("add", 0x1002, 2, R | W), ("add", 0x1004, 2, R)],
        [("add", 0x1001, 1, R | W)],
        [("add", 0x1000, 1, R | W), ("add", 0x1002, 1, R)],
        [("add", 0x0, 0, R | W), ("add", 0x1000, 2, R | W)],
        [("add", 0x0, 0, R | W), ("add", 0x1000, 2, R | W), ("add", 0x1002, 2, R), ("add", 0x1004, 2, R | W)],
    ]
    out = [{"big": False, "pre": l} for l in lay]
    out += [{"big": True, "pre": l} for l in (lay[1], lay[2]) + (() if quick else tuple(lay[3:]))]
    return out


def run(ctx):
    _load()
    depth = 2 if ctx.quick else 3
    sd = seeds(ctx.quick)
    cov = bfs.explore(ctx, sys.modules[__name__], max_depth=depth, seeds=sd, chunk=4)
    cov["bounds"] = {"depth": depth, "seeds": len(sd), "window": [LO, HI], "page_sizes": [0, 1, 2, 3, 4], "max_pages": 3, "max_breakpoints": 2}
    return cov


def replay(case):
    _load()
    return bfs.replay(sys.modules[__name__], seeds(False), case)
