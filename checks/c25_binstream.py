"""C25 - binary streams return exactly the underlying bits.

Engine E2 (complete enumeration), oracle: Python big-integer slicing of the known content.

Sources (every one a real object):
  str   bin_stream_str, base_address 0 / 1 / 0x1000, cursor left at its default and (based ones) set to the base
  file  bin_stream_file over a real temporary file (created per shard with tempfile, removed in finally), base 0 / 0x1000
  vm    bin_stream_vm over a page of a real miasm.jitter.VmMngr.Vm (one page; one page reached through base_offset,
        big-endian vm; the content split over two adjacent pages)
  pe    bin_stream_pe over a miasm.loader PE built in memory with one section holding the content
  elf   bin_stream_elf over a hand-assembled ELF32 (one PT_LOAD covering exactly the content), little and big endian

Reads: getbits(offset, n) for every bit offset in [-8, 8*len+8] and n in [0, 8*len+8] (relative to the first content
bit); getbytes(start, l) for start in [-2, len+2], l in [0, len+2]; get_u8/16/32/64(addr[, LITTLE_ENDIAN | BIG_ENDIAN]) for
addr in [-1, len+1]; for sources whose base is not 0 also a few reads at absolute addresses around 0.
Each read is performed (a) outside atomic mode, (b) alone inside atomic mode, (c) inside atomic mode after each other
read of the same list (all ordered pairs, a fresh atomic session per pair).
Mutable sources (file, vm, pe, elf) additionally: (d) two atomic sections on one stream with the source changed in between
(every content byte replaced by its complement through os.pwrite / vm.set_mem / pe.virt.set / the ELF image): section 1
performs one read (each read of the list in turn) or every read, section 2 performs every read and must see the current
content - a cache filled while decoding one instruction must not answer for the next one.

Demanded (property text only): a read lying inside the source returns exactly the bits (most significant first, honouring
base address / byte order); a read with a part outside raises IOError; cached == uncached. Zero-length reads inside the
source return 0 / b""; outside they may return the empty value or raise IOError (nothing is read). Negative lengths and
the sequential cursor API (readbs/setoffset) are outside the alphabet.
"""
import glob
import os
import struct
import tempfile
from collections import Counter

from mc.runner import violation

PROP = "C25"
LEVEL = "exploration"
ENGINE = "enum"
RULE = ("every (source kind, content, read) with the reads listed in `bounds`, each in three modes (plain, atomic, atomic after "
        "every other read) and, on mutable sources, in a second atomic section after the source changed; a read is non-trivial when it is bit-unaligned, zero-length, or touches / crosses / lies past a bound "
        "of the source (distinct (source, content, read) triples are counted)")
LEVEL_TEXT = ("Bounded-exhaustive: every bit offset / bit length, byte range and integer read inside, across and past the bounds of "
              "short contents with distinct bit patterns, on every kind of byte source, compared with big-integer slicing of the "
              "content; every ordered pair of reads inside one atomic-mode session to expose cache aliasing.")
LEVEL_NOTE = ("Trusted: Python int slicing; the installed VmMngr extension, miasm.loader PE builder / ELF parser and the OS file are "
              "used as byte containers (their content is what the check put in). Not covered: contents longer than 4 bytes "
              "(one 8-byte content is read in single mode so that get_u64 has a readable range), "
              "negative lengths, bin_stream_str over a mutable buffer, the cursor API (readbs/setoffset/getlen after moving the cursor), more than two reads per atomic "
              "session, PE/ELF images with several sections.")
TECHNIQUE = "complete enumeration of bit/byte/integer reads over short contents against big-integer slicing"
ASSUMPTIONS = ["bit extraction does not depend on content length beyond 4 bytes (the byte loop is length-generic)",
               "the PE builder leaves zero bytes just below the first section (2 bytes are relied upon)"]

LE, BE = 1, 2            # miasm.core.utils.LITTLE_ENDIAN / BIG_ENDIAN (asserted at run time)
MASTERS = [bytes.fromhex("12345678"), bytes.fromhex("80017ffe"), bytes.fromhex("a55ac33c"), bytes.fromhex("ff00ff01")]
MAXLEN = 4
CONTENTS = [b""] + [m[:k] for k in range(1, MAXLEN + 1) for m in MASTERS]
LONG = bytes.fromhex("0123456789abcdef")     # single reads only: the one content on which get_u64 can succeed

# (name, class, kind, params)
SOURCES = [
    ("str@0", "str", "str", {"base": 0, "cursor": "default"}),
    ("str@1", "str", "str", {"base": 1, "cursor": "default"}),
    ("str@0x1000", "str", "str", {"base": 0x1000, "cursor": "default"}),
    ("str@1,cursor=base", "str", "str", {"base": 1, "cursor": "base"}),
    ("str@0x1000,cursor=base", "str", "str", {"base": 0x1000, "cursor": "base"}),
    ("file@0", "file", "file", {"base": 0}),
    ("file@0x1000", "file", "file", {"base": 0x1000}),
    ("vm@0x1000,le", "vm", "vm", {"page": 0x1000, "base_offset": 0, "be": False, "split": False}),
    ("vm@0(base_offset),be", "vm", "vm", {"page": 0x1000, "base_offset": 0x1000, "be": True, "split": False}),
    ("vm@0x1000,two-pages", "vm", "vm", {"page": 0x1000, "base_offset": 0, "be": False, "split": True}),
    ("pe", "pe", "pe", {}),
    ("elf,le", "elf", "elf", {"be": False}),
    ("elf,be", "elf", "elf", {"be": True}),
]
SRC_BY_NAME = dict((s[0], s) for s in SOURCES)

IO = ("IOError",)
OPS = ["getbits", "getbytes", "get_u8", "get_u16", "get_u32", "get_u64"]
USIZE = {2: 1, 3: 2, 4: 4, 5: 8}
MAX_PER_SIG = 3


# ----------------------------------------------------------------------------------------------
# sources
# ----------------------------------------------------------------------------------------------

def _vm_class():
    try:
        from miasm.jitter.VmMngr import Vm
        return Vm
    except ImportError:
        # a scratch checkout (VERIF_REPO) has no built extension: the installed one is a plain byte container here
        import importlib.util
        import sys
        hits = sorted(glob.glob("/repo/miasm/jitter/VmMngr*.so"))
        if not hits:
            raise
        spec = importlib.util.spec_from_file_location("miasm.jitter.VmMngr", hits[0])
        mod = importlib.util.module_from_spec(spec)
        spec.loader.exec_module(mod)
        sys.modules["miasm.jitter.VmMngr"] = mod
        return mod.Vm


def _mk_elf(content, vaddr, be):
    e = ">" if be else "<"
    ident = b"\x7fELF" + bytes([1, 2 if be else 1, 1, 0]) + b"\0" * 8
    ehdr = ident + struct.pack(e + "HHIIIIIHHHHHH", 2, 3, 1, vaddr, 52, 0, 0, 52, 32, 1, 40, 0, 0)
    phdr = struct.pack(e + "IIIIIIII", 1, 84, vaddr, vaddr, len(content), len(content), 5, 1)
    return ehdr + phdr + content


def source_base(name):
    """absolute address of the first content byte (asserted against the real object in Source)"""
    _, cls, kind, p = SRC_BY_NAME[name]
    if kind in ("str", "file"):
        return p["base"]
    if kind == "vm":
        return p["page"] - p["base_offset"]
    if kind == "pe":
        return 0x401000
    return 0x1000


class Source(object):
    """A real byte source holding `content` at absolute address `base`; `pre` = bytes known to sit just below."""

    def __init__(self, name, content):
        _, self.cls, self.kind, self.p = SRC_BY_NAME[name]
        self.name = name
        self.content = content
        self.pre = b""
        self.endian = LE
        self._tmpdir = None
        self._fd = None
        k, p = self.kind, self.p
        if k == "str":
            self.base = p["base"]
        elif k == "file":
            self.base = p["base"]
            self._tmpdir = tempfile.mkdtemp(prefix="c25_")
            self._path = os.path.join(self._tmpdir, "content.bin")
            with open(self._path, "wb") as fd:
                fd.write(content)
        elif k == "vm":
            from miasm.jitter.csts import PAGE_READ
            vm = _vm_class()()
            if p["be"]:
                vm.set_big_endian()
                self.endian = BE
            if p["split"] and len(content) >= 2:
                h = len(content) // 2
                vm.add_memory_page(p["page"], PAGE_READ, content[:h], "c25a")
                vm.add_memory_page(p["page"] + h, PAGE_READ, content[h:], "c25b")
            else:
                vm.add_memory_page(p["page"], PAGE_READ, content, "c25")
            self._vm = vm
            self.base = p["page"] - p["base_offset"]
        elif k == "pe":
            from miasm.loader import pe_init
            pe = pe_init.PE()
            pe.SHList.add_section(name="c25", addr=0x1000, data=content)
            self._bin = pe
            self.base = pe.NThdr.ImageBase + 0x1000
            self.pre = b"\x00\x00"
            self.endian = LE         # the PE format is little endian
        elif k == "elf":
            from miasm.loader import elf_init
            self._bin = elf_init.ELF(_mk_elf(content, 0x1000, p["be"]))
            self.base = 0x1000
            self.endian = BE if p["be"] else LE
        assert self.base == source_base(name), "unexpected base address of %s" % name
        self.lo = self.base - len(self.pre)
        self.mem = self.pre + content
        self.hi = self.lo + len(self.mem)

    MUTABLE_KINDS = ("file", "vm", "pe", "elf")

    def set_content(self, new):
        """replace the bytes held by the real source (same length) and the oracle's view of them"""
        assert len(new) == len(self.content)
        k, p = self.kind, self.p
        if k == "file":
            fd = os.open(self._path, os.O_WRONLY)
            try:
                os.pwrite(fd, new, 0)
            finally:
                os.close(fd)
        elif k == "vm":
            if new:
                self._vm.set_mem(p["page"], new)
        elif k == "pe":
            if new:
                self._bin.virt.set(self.base, new)
        elif k == "elf":
            self._bin._content = self._bin._content[:84] + new
        else:
            raise ValueError("source %s is not mutable" % self.name)
        self.content = new
        self.mem = self.pre + new

    def stream(self, unbuffered=False):
        """a fresh stream object (unbuffered: the file is opened without Python-level buffering, so that a change of
        the file is visible to the next OS read and any stale byte is miasm's)"""
        from miasm.core import bin_stream as B
        k, p = self.kind, self.p
        if k == "str":
            if p["cursor"] == "base":
                return B.bin_stream_str(self.content, offset=self.base, base_address=self.base)
            return B.bin_stream_str(self.content, base_address=self.base)
        if k == "file":
            if self._fd is not None:
                self._fd.close()
            self._fd = open(self._path, "rb", buffering=0) if unbuffered else open(self._path, "rb")
            return B.bin_stream_file(self._fd, offset=self.base, base_address=self.base)
        if k == "vm":
            return B.bin_stream_vm(self._vm, base_offset=p["base_offset"])
        if k == "pe":
            return B.bin_stream_pe(self._bin)
        return B.bin_stream_elf(self._bin)

    def close(self):
        if self._fd is not None:
            self._fd.close()
            self._fd = None
        if self._tmpdir is not None:
            try:
                os.unlink(self._path)
            except OSError:
                pass
            try:
                os.rmdir(self._tmpdir)
            except OSError:
                pass
            self._tmpdir = None


class Quiet(object):
    """silence the C-level 'not mapped' warnings the vm prints on stderr for every refused read"""

    def __init__(self, on):
        self.on = on

    def __enter__(self):
        if self.on:
            self.saved = os.dup(2)
            self.null = os.open(os.devnull, os.O_WRONLY)
            os.dup2(self.null, 2)

    def __exit__(self, *a):
        if self.on:
            os.dup2(self.saved, 2)
            os.close(self.saved)
            os.close(self.null)
        return False


# ----------------------------------------------------------------------------------------------
# reads and oracle
# ----------------------------------------------------------------------------------------------

def build_reads(base, L):
    """list of reads (op, a, b); simplest first. op 0 getbits(a=bit offset, b=n); 1 getbytes(a=start, b=l);
    2..5 get_u8/16/32/64(a=addr, b=endianness or None)"""
    out = []
    b8 = 8 * base
    for n in range(0, 8 * L + 9):
        for o in range(-8, 8 * L + 9):
            out.append((0, b8 + o, n))
    for l in range(0, L + 3):
        for s in range(-2, L + 3):
            out.append((1, base + s, l))
    for op in (2, 3, 4, 5):
        for s in range(-1, L + 2):
            for e in (None, LE, BE):
                out.append((op, base + s, e))
    if base:
        for n in (1, 8, 9):
            for o in (-8, -1, 0, 1, 7, 8, 8 * L):
                out.append((0, o, n))
        for l in (0, 1, 2):
            for s in (-1, 0, 1):
                out.append((1, s, l))
        for op in (2, 3, 4, 5):
            out.append((op, 0, None))
    seen = set()
    uniq = []
    for r in out:
        if r not in seen:
            seen.add(r)
            uniq.append(r)
    return uniq


def expect(src, r):
    """(expected, alternative, skeleton). expected/alternative: a value or IO. Oracle = big-integer slicing of src.mem."""
    op, a, b = r
    lo, hi, mem = src.lo, src.hi, src.mem
    total = 8 * len(mem)
    N = int.from_bytes(mem, "big")
    if op == 0:
        s, n = a - 8 * lo, b
        if n == 0:
            if 0 <= s <= total:
                return 0, 0, "empty-inside"
            return 0, IO, "empty-outside"
        if 0 <= s and s + n <= total:
            al = "aligned" if (s % 8 == 0 and n % 8 == 0) else "unaligned"
            return (N >> (total - s - n)) & ((1 << n) - 1), None, "inside:" + al
        if n > total:
            return IO, None, "longer-than-source"
        return IO, None, _where(s, s + n, total)
    if op == 1:
        s, l = a - lo, b
        if l == 0:
            if 0 <= s <= len(mem):
                return b"", b"", "empty-inside"
            return b"", IO, "empty-outside"
        if 0 <= s and s + l <= len(mem):
            v = (N >> (8 * (len(mem) - s - l))) & ((1 << (8 * l)) - 1)
            return v.to_bytes(l, "big"), None, "inside"
        return IO, None, _where(s, s + l, len(mem))
    size = USIZE[op]
    s = a - lo
    e = b if b is not None else src.endian
    ecls = "e=default" if b is None else ("e=LE" if b == LE else "e=BE")
    if 0 <= s and s + size <= len(mem):
        v = (N >> (8 * (len(mem) - s - size))) & ((1 << (8 * size)) - 1)
        if e == LE:
            v = int.from_bytes(v.to_bytes(size, "big"), "little")
        return v, None, "inside:" + ecls
    return IO, None, _where(s, s + size, len(mem))


def _where(start, stop, total):
    if stop <= 0:
        return "before-start"
    if start >= total:
        return "past-end"
    if start < 0 and stop > total:
        return "covers-source"
    if start < 0:
        return "cross-start"
    return "cross-end"


def coarse(skel):
    if skel.startswith("inside"):
        return "inside"
    if skel.startswith("empty"):
        return "empty"
    if skel == "longer-than-source":
        return skel
    return "outside"


def nontrivial(r, skel):
    return not (skel == "inside:aligned" or skel == "inside" or skel.startswith("inside:e="))


def do_read(bs, r):
    op = r[0]
    try:
        if op == 0:
            return bs.getbits(r[1], r[2])
        if op == 1:
            return bs.getbytes(r[1], r[2])
        f = getattr(bs, OPS[op])
        if r[2] is None:
            return f(r[1])
        return f(r[1], r[2])
    except IOError:
        return IO
    except Exception as e:           # noqa - any other exception is an observation
        return ("raise", type(e).__name__)


def good(got, exp, alt):
    if type(got) is type(exp) and got == exp:
        return True
    if alt is not None and type(got) is type(alt) and got == alt:
        return True
    return False


def classify(r, got, exp, skel):
    """discrepancy kind + the skeleton to use in the signature"""
    if isinstance(got, tuple) and got and got[0] == "raise":
        return "raise:" + got[1], coarse(skel)
    if got == IO and isinstance(got, tuple):
        return "IOError-on-readable-range", skel
    if exp == IO and isinstance(exp, tuple):
        if r[0] == 1 and isinstance(got, (bytes, bytearray)) and len(got) < r[2]:
            return "short-read-instead-of-IOError", skel
        return "value-instead-of-IOError", skel
    if not isinstance(got, type(exp)):
        return "wrong-type:" + type(got).__name__, coarse(skel)
    return "wrong-value", skel


def show(r):
    if r[0] == 0:
        return "getbits(%d, %d)" % (r[1], r[2])
    if r[0] == 1:
        return "getbytes(%#x, %d)" % (r[1], r[2])
    return "%s(%#x%s)" % (OPS[r[0]], r[1], "" if r[2] is None else (", LITTLE_ENDIAN" if r[2] == LE else ", BIG_ENDIAN"))


def showv(v):
    if isinstance(v, tuple):
        return v[-1] if v[0] == "raise" else "IOError"
    if isinstance(v, int):
        return "%#x" % v
    return repr(v)


def describe(src):
    return "%s content=%s at %#x" % (src.name, src.content.hex() or "(empty)", src.base)


def mk_violation(src, mode, r, got, exp, alt, skel, r1=None):
    kind, sk = classify(r, got, exp, skel)
    op = OPS[r[0]]
    if isinstance(got, tuple) and got[0] == "raise" and r[0] >= 2:
        op = "get_uN"
    pre = ""
    if mode == "atomic":
        pre = "atomic-only:"
    elif mode == "pair":
        pre = "atomic-after-%s:" % ("same-read" if r1 == r else OPS[r1[0]])
    sig = "%s:%s:%s:%s%s" % (src.cls, op, sk, pre, kind)
    what = "%s on %s returned %s, expected %s" % (show(r), describe(src), showv(got), showv(exp))
    if alt is not None and alt != exp:
        what += " or %s" % showv(alt)
    if mode == "atomic":
        what += " [inside atomic mode; the same read outside atomic mode is right]"
    elif mode == "pair":
        what += " [inside atomic mode after %s; right when performed alone]" % show(r1)
    case = {"src": src.name, "content": src.content.hex(), "mode": mode, "r": list(r)}
    if r1 is not None:
        case["r1"] = list(r1)
    return violation(sig, what, case)


def check_single(src, r, mode):
    """one read on a fresh stream; mode plain / atomic"""
    exp, alt, skel = expect(src, r)
    bs = src.stream()
    if mode == "atomic":
        bs.enter_atomic_mode()
    got = do_read(bs, r)
    if mode == "atomic":
        bs.leave_atomic_mode()
    if good(got, exp, alt):
        return []
    return [mk_violation(src, mode, r, got, exp, alt, skel)]


def check_pair(src, r1, r2):
    """fresh stream, one atomic session: r1 then r2; r2 is judged"""
    exp, alt, skel = expect(src, r2)
    bs = src.stream()
    bs.enter_atomic_mode()
    do_read(bs, r1)
    got = do_read(bs, r2)
    bs.leave_atomic_mode()
    if good(got, exp, alt):
        return []
    return [mk_violation(src, "pair", r2, got, exp, alt, skel, r1)]


def check_sessions(src, r1, r2s):
    """one stream, consecutive atomic sessions (r1, r2) for r2 in r2s - the shape of the fast pair loop"""
    bs = src.stream()
    vs = []
    for r2 in r2s:
        exp, alt, skel = expect(src, r2)
        bs.enter_atomic_mode()
        do_read(bs, r1)
        got = do_read(bs, r2)
        bs.leave_atomic_mode()
        if not good(got, exp, alt):
            kind, sk = classify(r2, got, exp, skel)
            sig = "%s:%s:%s:state-leaks-across-atomic-sessions:%s" % (src.cls, OPS[r2[0]], sk, kind)
            what = "%s on %s returned %s, expected %s, in atomic session number %d of one stream (each session: %s, then the read)" % (
                show(r2), describe(src), showv(got), showv(exp), len(vs) + 1, show(r1))
            vs.append(violation(sig, what, {"src": src.name, "content": src.content.hex(), "mode": "sessions",
                                            "r1": list(r1), "r2s": [list(x) for x in r2s]}))
            break
    return vs


def flip(content):
    return bytes(b ^ 0xFF for b in content)


def check_resection(src, reads, first, first_label, judge=None, stats=None):
    """Two atomic sections on one fresh stream with a change of the source in between:
         section 1: the reads of `first`; leave; every content byte is replaced by its complement;
         section 2: every read of `reads`, judged against the *current* content (a cache must not outlive its section).
    judge: per-read (expected, alternative, skeleton, plain_ok) for the changed content, or None to compute it here.
    The original content is restored before returning."""
    orig = src.content
    vs = []
    bs = src.stream(unbuffered=True)
    bs.enter_atomic_mode()
    for r in first:
        do_read(bs, r)
    bs.leave_atomic_mode()
    src.set_content(flip(orig))
    try:
        if judge is None:
            judge = resection_judge(src, reads)
        bs.enter_atomic_mode()
        for r2, (exp, alt, skel, plain_ok) in zip(reads, judge):
            got = do_read(bs, r2)
            if type(got) is type(exp) and got == exp:
                continue
            if good(got, exp, alt):
                continue
            if not plain_ok:
                if stats is not None:
                    stats["resection_read_already_wrong_alone"] += 1
                continue
            kind, _ = classify(r2, got, exp, skel)
            op = OPS[r2[0]] if r2[0] < 2 else "get_uN"
            sig = "%s:%s:%s:second-atomic-section-after-source-change:%s" % (src.cls, op, coarse(skel), kind)
            what = ("%s on %s returned %s, expected %s [second atomic section of one stream; the first section performed %s, then "
                    "the content %s was replaced by %s]" % (show(r2), describe(src), showv(got), showv(exp), first_label,
                                                            orig.hex(), src.content.hex()))
            vs.append(violation(sig, what, {"src": src.name, "content": orig.hex(), "mode": "resection",
                                            "first": "all" if first_label == "every read of the list" else [list(x) for x in first],
                                            "r": list(r2)}))
        bs.leave_atomic_mode()
    finally:
        src.set_content(orig)
    return vs


def resection_judge(src, reads):
    """expectations for the *current* content of src + whether the plain read (fresh stream, no atomic mode) is right"""
    out = []
    for r in reads:
        exp, alt, skel = expect(src, r)
        got = do_read(src.stream(unbuffered=True), r)
        out.append((exp, alt, skel, good(got, exp, alt)))
    return out


# ----------------------------------------------------------------------------------------------
# shards
# ----------------------------------------------------------------------------------------------

def _shard(args):
    kind, name, content, lo, hi = args
    stats = Counter()
    kept = {}
    nviol = Counter()
    values = set()

    def add(vs):
        for v in vs:
            nviol[v["sig"]] += 1
            if nviol[v["sig"]] <= MAX_PER_SIG:
                kept.setdefault(v["sig"], []).append(v)

    src = Source(name, content)
    try:
        if kind in ("resect", "resect-all"):
            with Quiet(src.kind == "vm"):
                reads = build_reads(src.base, len(content))
                src.set_content(flip(content))
                judge = resection_judge(src, reads)
                src.set_content(content)
                if kind == "resect-all":
                    add(check_resection(src, reads, reads, "every read of the list", judge, stats))
                    stats["resections"] += 1
                    stats["evaluations"] += 2 * len(reads)
                else:
                    for i in range(lo, min(hi, len(reads))):
                        add(check_resection(src, reads, [reads[i]], show(reads[i]), judge, stats))
                        stats["resections"] += 1
                        stats["evaluations"] += 1 + len(reads)
            vs = [v for sig in sorted(kept) for v in kept[sig]]
            return dict(stats), vs, dict(nviol), 0, len(reads)
        with Quiet(src.kind == "vm"):
            reads = build_reads(src.base, len(content))
            exps = [expect(src, r) for r in reads]
            # plain results decide which pair/atomic failures are new information
            plain_ok = []
            for r, (exp, alt, skel) in zip(reads, exps):
                got = do_read(src.stream(), r)
                plain_ok.append(good(got, exp, alt))
            if kind == "single":
                for i, r in enumerate(reads):
                    exp, alt, skel = exps[i]
                    stats["reads:" + OPS[r[0]]] += 1
                    stats["skeleton:" + skel] += 1
                    if nontrivial(r, skel):
                        stats["nontrivial"] += 1
                    if exp == IO and isinstance(exp, tuple):
                        stats["expect_IOError"] += 1
                    elif alt is not None and alt != exp:
                        stats["expect_empty_or_IOError"] += 1
                    else:
                        stats["expect_value"] += 1
                        values.add((r[0], exp))
                    stats["evaluations"] += 1
                    if not plain_ok[i]:
                        stats["plain_wrong"] += 1
                        add(check_single(src, r, "plain"))
                        continue
                    stats["evaluations"] += 1
                    add(check_single(src, r, "atomic"))
            else:
                for i in range(lo, min(hi, len(reads))):
                    r1 = reads[i]
                    bs = src.stream()
                    enter, leave = bs.enter_atomic_mode, bs.leave_atomic_mode
                    j = 0
                    for r2 in reads:
                        enter()
                        do_read(bs, r1)
                        got = do_read(bs, r2)
                        leave()
                        exp, alt, skel = exps[j]
                        if not (type(got) is type(exp) and got == exp) and not good(got, exp, alt):
                            if plain_ok[j]:
                                vs = check_pair(src, r1, r2)
                                if not vs:
                                    vs = check_sessions(src, r1, reads[:j + 1])
                                if not vs:
                                    vs = [violation("%s:harness:irreproducible" % src.cls, "pair loop saw %s for %s after %s on %s" % (
                                        showv(got), show(r2), show(r1), describe(src)),
                                        {"src": name, "content": content.hex(), "mode": "pair", "r": list(r2), "r1": list(r1)})]
                                add(vs)
                            else:
                                stats["pairs_second_read_already_wrong_alone"] += 1
                        j += 1
                    stats["pairs"] += j
                    stats["evaluations"] += 2 * j
    finally:
        src.close()
    vs = [v for sig in sorted(kept) for v in kept[sig]]
    return dict(stats), vs, dict(nviol), len(values), len(reads)


QUICK_PAIR_LEN2_SOURCES = ["str@1", "file@0x1000", "vm@0x1000,two-pages", "pe", "elf,be"]      # one per class


def tiers(quick):
    """(contents for single reads, {source name: contents for the ordered pairs})"""
    if quick:
        # pairs: every source on the empty content and the 1-byte prefix of the first bit pattern; one source per class
        # also on its 2-byte prefix
        pairs = dict((s[0], [b"", MASTERS[0][:1]]) for s in SOURCES)
        for name in QUICK_PAIR_LEN2_SOURCES:
            pairs[name] = pairs[name] + [MASTERS[0][:2]]
    else:
        # pairs: all four bit patterns up to length 2, the first two for lengths 3 and 4 (cache aliasing is decided by
        # addresses and lengths, the pattern only has to make a stale answer visible)
        pc = [c for c in CONTENTS if len(c) <= 2 or any(c == m[:len(c)] for m in MASTERS[:2])]
        pairs = dict((s[0], list(pc)) for s in SOURCES)
    return list(CONTENTS) + [LONG], pairs


def resection_tiers(quick):
    """{mutable source name: contents} for (a) section 1 = every read, (b) section 1 = one read, for each read in turn"""
    mutable = [s[0] for s in SOURCES if s[2] in Source.MUTABLE_KINDS]
    every = dict((name, [c for c in CONTENTS + [LONG] if c]) for name in mutable)
    if quick:
        each = dict((name, [MASTERS[0][:1]]) for name in mutable)
        for name in QUICK_PAIR_LEN2_SOURCES:
            if name in each:
                each[name] = each[name] + [MASTERS[0][:2]]
    else:
        ec = [c for c in CONTENTS if 1 <= len(c) <= 2 or (len(c) == 3 and any(c == m[:3] for m in MASTERS[:2]))]
        each = dict((name, list(ec)) for name in mutable)
    return every, each


def run(ctx):
    from miasm.core.utils import LITTLE_ENDIAN, BIG_ENDIAN
    assert (LITTLE_ENDIAN, BIG_ENDIAN) == (LE, BE)
    single_contents, pair_contents = tiers(ctx.quick)
    shards = []
    for name, cls, kind, p in SOURCES:
        for c in single_contents:
            shards.append(("single", name, c, 0, 0))
    chunk = 96
    for name, cls, kind, p in SOURCES:
        for c in pair_contents[name]:
            nreads = len(build_reads(source_base(name), len(c)))
            for lo in range(0, nreads, chunk):
                shards.append(("pair", name, c, lo, lo + chunk))
    resect_every, resect_each = resection_tiers(ctx.quick)
    for name in sorted(resect_every):
        for c in resect_every[name]:
            shards.append(("resect-all", name, c, 0, 0))
    for name in sorted(resect_each):
        for c in resect_each[name]:
            nreads = len(build_reads(source_base(name), len(c)))
            for lo in range(0, nreads, chunk):
                shards.append(("resect", name, c, lo, lo + chunk))
    # heavy shards first (longest contents), cheap ones fill the tail
    order = sorted(range(len(shards)), key=lambda i: (-len(shards[i][2]), i))
    shards = [shards[i] for i in order]
    res = ctx.pmap(_shard, shards)
    stats = Counter()
    nviol = Counter()
    per_source = Counter()
    nvalues = 0
    # deterministic, simplest-first order of the violation list
    back = sorted(range(len(shards)), key=lambda i: (shards[i][0] != "single", len(shards[i][2]), order[i]))
    for i in back:
        st, vs, nv, nval, nreads = res[i]
        stats.update(st)
        nviol.update(nv)
        ctx.add_violations(vs)
        per_source[shards[i][1]] += st.get("evaluations", 0)
        if shards[i][0] == "single":
            nvalues += nval
    src = Source("str@1", MASTERS[0][:2])
    rs = build_reads(1, 2)
    samples = []
    for wanted in ("inside:unaligned", "cross-end", "inside:e=default", "empty-outside", "cross-start"):
        for r in reversed(rs):
            exp, alt, skel = expect(src, r)
            if skel == wanted:
                samples.append({"source": src.name, "content": src.content.hex(), "read": show(r), "expected": showv(exp), "skeleton": skel})
                break
    return {
        "evaluations": stats["evaluations"],
        "distinct_nontrivial": stats["nontrivial"],
        "distinct_source_content_read_triples": sum(v for k, v in stats.items() if k.startswith("reads:")),
        "reads_per_op": dict((k[6:], v) for k, v in stats.items() if k.startswith("reads:")),
        "reads_per_skeleton": dict((k[9:], v) for k, v in stats.items() if k.startswith("skeleton:")),
        "expect_value": stats["expect_value"],
        "expect_IOError": stats["expect_IOError"],
        "expect_empty_or_IOError": stats["expect_empty_or_IOError"],
        "distinct_outcomes": nvalues,
        "atomic_pairs": stats["pairs"],
        "atomic_section_pairs_with_source_change": stats["resections"],
        "resection_read_already_wrong_alone": stats["resection_read_already_wrong_alone"],
        "plain_reads_wrong": stats["plain_wrong"],
        "pairs_second_read_already_wrong_alone": stats["pairs_second_read_already_wrong_alone"],
        "evaluations_per_source": dict(per_source),
        "violating_reads_per_signature": dict(nviol),
        "samples": samples,
        "exhaustive": True,
        "bounds": {
            "sources": [s[0] for s in SOURCES],
            "contents_single_reads": [c.hex() for c in single_contents],
            "contents_atomic_pairs": dict((k, [c.hex() for c in v]) for k, v in pair_contents.items()),
            "getbits": "bit offset in [-8, 8*len+8] x n in [0, 8*len+8] relative to the first content bit",
            "getbytes": "start in [-2, len+2] x l in [0, len+2]",
            "get_uN": "N in 8,16,32,64 x addr in [-1, len+1] x endianness in (default, LITTLE_ENDIAN, BIG_ENDIAN)",
            "absolute_low_reads_when_base_nonzero": True,
            "modes": ["plain", "atomic", "atomic after every other read (ordered pairs)",
                      "second atomic section of the same stream after the source bytes were complemented (mutable sources)"],
            "contents_resection_first_section_every_read": dict((k, [c.hex() for c in v]) for k, v in resect_every.items()),
            "contents_resection_first_section_one_read_each": dict((k, [c.hex() for c in v]) for k, v in resect_each.items()),
        },
    }


def replay(case):
    src = Source(case["src"], bytes.fromhex(case["content"]))

    def rd(x):
        return tuple(x)
    try:
        with Quiet(src.kind == "vm"):
            mode = case["mode"]
            if mode in ("plain", "atomic"):
                return check_single(src, rd(case["r"]), mode)
            if mode == "pair":
                return check_pair(src, rd(case["r1"]), rd(case["r"]))
            if mode == "sessions":
                return check_sessions(src, rd(case["r1"]), [rd(x) for x in case["r2s"]])
            if mode == "resection":
                reads = build_reads(src.base, len(src.content))
                if case["first"] == "all":
                    vs = check_resection(src, reads, reads, "every read of the list")
                else:
                    first = [rd(x) for x in case["first"]]
                    vs = check_resection(src, reads, first, ", ".join(show(x) for x in first))
                return [v for v in vs if tuple(v["case"]["r"]) == rd(case["r"])] or vs
            return []
    finally:
        src.close()
