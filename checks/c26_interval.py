"""C26 - integer interval sets have exact set semantics.

Engine E2 (bounded-exhaustive enumeration), oracle: Python frozenset.

Space
  (a) constructor: every list of <= 3 raw (start, stop) pairs over bounds {0..B-1}
      (reversed, adjacent, nested, duplicate pairs are all members of the lattice);
      the canonical form must be sorted, disjoint, non-adjacent and denote the union.
  (b) algebra: every ordered pair (A, B) of the 2^U subsets of {0..U-1}, each given in canonical
      form and (thorough) in every non-canonical presentation of (a) with <= 2 pairs:
      union, intersection, difference, `in` (inclusion and integer membership for -1..U),
      ==, !=, length, hull, empty, + & - operators, interval(interval) copy construction.
  (c) the huge-bound shape the assembler uses: (-1, 2^64) minus / intersected with small sets.
"""
import itertools

from mc.runner import violation

PROP = "C26"
LEVEL = "exploration"
RULE = ("all lists of <=3 raw bound pairs over a small universe for the constructor; all ordered pairs of "
        "subsets of {0..U-1} for the set algebra; non-trivial = the two operands overlap, touch or nest "
        "(their hulls intersect or are adjacent) or, for the constructor, the raw list is not already canonical")
ENGINE = "enum"
LEVEL_TEXT = ("Bounded-exhaustive: every raw bound list (<=3 pairs over a small universe) through the constructor and every "
              "ordered pair of subsets of the universe through every set operation, compared with Python frozenset. "
              "Interval code is size-generic (no constant depends on the magnitude of bounds), so the small universe "
              "contains every relative arrangement of two intervals (equal, nested, overlapping, adjacent, disjoint).")
LEVEL_NOTE = "Trusted: CPython sets. Not covered: bounds that are not Python ints; lists of more than 3 raw pairs in the constructor."
TECHNIQUE = "bounded-exhaustive enumeration of all interval-list pairs over a small universe against a frozenset model"
ASSUMPTIONS = ["Python frozenset is the reference model", "bounds are Python integers (no width)"]


def _iv():
    from miasm.core.interval import interval
    return interval


def to_set(iv):
    s = set()
    for a, b in iv.intervals:
        s.update(range(a, b + 1))
    return frozenset(s)


def canon_of(s):
    out = []
    for x in sorted(s):
        if out and out[-1][1] + 1 == x:
            out[-1][1] = x
        else:
            out.append([x, x])
    return [tuple(p) for p in out]


def is_canon(lst):
    for (a, b) in lst:
        if a > b:
            return False
    for (a, b), (c, d) in zip(lst, lst[1:]):
        if not b + 1 < c:
            return False
    return True


def check_ctor(raw):
    interval = _iv()
    vs = []
    try:
        iv = interval(list(raw))
    except Exception as e:
        return [violation("ctor:raise:%s" % type(e).__name__, "interval(%r) raised %r" % (raw, e), {"k": "ctor", "raw": raw})]
    want = set()
    for a, b in raw:
        want.update(range(a, b + 1))
    lst = list(iv.intervals)
    if not is_canon(lst):
        vs.append(violation("ctor:not-canonical", "interval(%r).intervals = %r is not canonical" % (raw, lst), {"k": "ctor", "raw": raw}))
    elif to_set(iv) != want:
        vs.append(violation("ctor:wrong-set", "interval(%r) = %r denotes %r, expected %r" % (raw, lst, sorted(to_set(iv)), sorted(want)), {"k": "ctor", "raw": raw}))
    return vs


def check_pair(ra, rb, lo, hi):
    """ra, rb raw presentations (lists of pairs)."""
    interval = _iv()
    vs = []
    case = {"k": "pair", "a": ra, "b": rb, "lo": lo, "hi": hi}
    try:
        A = interval(list(ra))
        B = interval(list(rb))
        sa, sb = to_set(A), to_set(B)
        a0, b0 = list(A.intervals), list(B.intervals)
        ops = [
            ("union", lambda: A.union(B), sa | sb),
            ("add", lambda: A + B, sa | sb),
            ("union_list", lambda: A.union(list(rb)), sa | sb),
            ("intersection", lambda: A.intersection(B), sa & sb),
            ("and", lambda: A & B, sa & sb),
            ("difference", lambda: A.difference(B), sa - sb),
            ("sub", lambda: A - B, sa - sb),
            ("copy", lambda: interval(A), sa),
        ]
        for name, f, want in ops:
            r = f()
            if not is_canon(list(r.intervals)):
                vs.append(violation("%s:not-canonical" % name, "%s(%r, %r) = %r not canonical" % (name, a0, b0, r.intervals), case))
            elif to_set(r) != want:
                vs.append(violation("%s:wrong-set" % name, "%s(%r, %r) = %r, expected %r" % (name, a0, b0, r.intervals, canon_of(want)), case))
            if list(A.intervals) != a0 or list(B.intervals) != b0:
                vs.append(violation("%s:mutates-operand" % name, "%s(%r, %r) changed an operand" % (name, a0, b0), case))
                A = interval(list(ra)); B = interval(list(rb))
        if (B in A) != (sb <= sa):
            vs.append(violation("contains:inclusion", "(%r in %r) = %r, expected %r" % (b0, a0, B in A, sb <= sa), case))
        if (A == B) != (sa == sb):
            vs.append(violation("eq", "(%r == %r) = %r" % (a0, b0, A == B), case))
        if (A != B) != (sa != sb):
            vs.append(violation("ne", "(%r != %r) = %r" % (a0, b0, A != B), case))
        if A.length != len(sa):
            vs.append(violation("length", "%r.length = %r, expected %d" % (a0, A.length, len(sa)), case))
        wh = (min(sa), max(sa)) if sa else (None, None)
        if A.hull() != wh:
            vs.append(violation("hull", "%r.hull() = %r, expected %r" % (a0, A.hull(), wh), case))
        if bool(A.empty) != (not sa):
            vs.append(violation("empty", "%r.empty = %r" % (a0, A.empty), case))
        for x in range(lo, hi + 1):
            if (x in A) != (x in sa):
                vs.append(violation("contains:int", "(%d in %r) = %r" % (x, a0, x in A), case))
        if sorted(iter(A)) != canon_of(sa):
            vs.append(violation("iter", "list(%r) = %r" % (a0, list(A)), case))
    except Exception as e:
        vs.append(violation("pair:raise:%s" % type(e).__name__, "operation on (%r, %r) raised %r" % (ra, rb, e), case))
    return vs


def check_huge(rb):
    interval = _iv()
    vs = []
    case = {"k": "huge", "b": rb}
    try:
        big = interval([(-1, 1 << 64)])
        B = interval(list(rb))
        sb = to_set(B)
        d = big - B
        # reference: complement inside [-1, 2^64]
        want = []
        cur = -1
        for a, b in canon_of(sb):
            if a - 1 >= cur:
                want.append((cur, a - 1))
            cur = b + 1
        want.append((cur, 1 << 64))
        want = [(a, b) for (a, b) in want if a <= b]
        if list(d.intervals) != want:
            vs.append(violation("huge:difference", "[-1,2^64] - %r = %r, expected %r" % (rb, d.intervals, want), case))
        i = big & B
        if list(i.intervals) != canon_of(sb):
            vs.append(violation("huge:intersection", "[-1,2^64] & %r = %r" % (rb, i.intervals), case))
        if d.length != (1 << 64) + 2 - len(sb):
            vs.append(violation("huge:length", "length %r" % d.length, case))
    except Exception as e:
        vs.append(violation("huge:raise:%s" % type(e).__name__, "huge-bound op with %r raised %r" % (rb, e), case))
    return vs


def raw_lists(nb, maxlen):
    pairs = [(a, b) for a in range(nb) for b in range(nb)]
    for n in range(maxlen + 1):
        for t in itertools.product(pairs, repeat=n):
            yield list(t)


def subsets(u):
    for m in range(1 << u):
        yield frozenset(i for i in range(u) if m >> i & 1)


def nontrivial_pair(sa, sb):
    if not sa or not sb:
        return False
    return not (max(sa) + 1 < min(sb) or max(sb) + 1 < min(sa))


def _shard(args):
    kind, payload = args
    vs = []
    n = nt = 0
    sample = None
    outcomes = set()
    if kind == "ctor":
        nb, maxlen, idx, nsh = payload
        for i, raw in enumerate(raw_lists(nb, maxlen)):
            if i % nsh != idx:
                continue
            n += 1
            if not is_canon(raw):
                nt += 1
            vs += check_ctor(raw)
            if sample is None and len(raw) == maxlen:
                sample = {"ctor": raw}
    elif kind == "pairs":
        u, idx, nsh = payload
        subs = [canon_of(s) for s in subsets(u)]
        for i, ra in enumerate(subs):
            if i % nsh != idx:
                continue
            for rb in subs:
                n += 1
                sa = to_set(_iv()(list(ra))); sb = to_set(_iv()(list(rb)))
                if nontrivial_pair(sa, sb):
                    nt += 1
                outcomes.add((len(sa | sb), len(sa & sb), len(sa - sb)))
                vs += check_pair(ra, rb, -1, u)
                if sample is None and len(ra) > 1 and len(rb) > 1:
                    sample = {"pair": [ra, rb]}
    elif kind == "rawpairs":
        nb, maxlen, idx, nsh = payload
        raws = list(raw_lists(nb, maxlen))
        for i, ra in enumerate(raws):
            if i % nsh != idx:
                continue
            for rb in raws:
                n += 1
                nt += 1 if (ra and rb and not (is_canon(ra) and is_canon(rb))) else 0
                vs += check_pair(ra, rb, -1, nb)
                if sample is None and len(ra) > 1 and len(rb) > 1:
                    sample = {"rawpair": [ra, rb]}
    elif kind == "huge":
        u, = payload
        for s in subsets(u):
            n += 1
            nt += 1 if s else 0
            vs += check_huge(canon_of(s))
        sample = {"huge_minus": canon_of(frozenset([0, 2, 3]))}
    return n, nt, vs[:50], sample, len(outcomes)


def run(ctx):
    if ctx.quick:
        nb, maxlen, u, rawpairs = 6, 3, 8, (4, 2)
    else:
        nb, maxlen, u, rawpairs = 7, 3, 9, (6, 2)
    nsh = 32
    shards = [("ctor", (nb, maxlen, i, nsh)) for i in range(nsh)]
    shards += [("pairs", (u, i, nsh)) for i in range(nsh)]
    if rawpairs:
        shards += [("rawpairs", (rawpairs[0], rawpairs[1], i, nsh)) for i in range(nsh)]
    shards += [("huge", (u,))]
    res = ctx.pmap(_shard, shards)
    n = sum(r[0] for r in res)
    nt = sum(r[1] for r in res)
    for r in res:
        ctx.add_violations(r[2])
    samples = [r[3] for r in res if r[3]][:4]
    return {
        "evaluations": n,
        "distinct_nontrivial": nt,
        "samples": samples,
        "exhaustive": True,
        "bounds": {"ctor_bounds": nb, "ctor_max_pairs": maxlen, "universe": u, "rawpairs": rawpairs},
        "distinct_outcomes": max(r[4] for r in res),
    }


def replay(case):
    k = case["k"]
    if k == "ctor":
        return check_ctor([tuple(p) for p in case["raw"]])
    if k == "pair":
        return check_pair([tuple(p) for p in case["a"]], [tuple(p) for p in case["b"]], case["lo"], case["hi"])
    if k == "huge":
        return check_huge([tuple(p) for p in case["b"]])
    return []
