"""C27 - DiGraph algorithms equal their textbook definitions.

Engine E2 (complete enumeration of labelled digraphs), oracles written from the definitions on bitmask
adjacency (reachability only; no call into miasm's algorithms):

  dominators        d dom v  <=>  v is not reachable from head in G - {d}   (v reachable from head; d = v allowed)
  post-dominators   the same on the reversed graph from the chosen leaf
  idom(v)           the strict dominator of v that every other strict dominator of v dominates (v != head)
  dominator tree    edges idom(v) -> v
  DF(x)             {w : x dom some predecessor of w  and not (x strictly dom w)}   (Cytron; head is an ordinary w)
  back edges        a -> b with a reachable from head and b dom a (self-loops included: b = a)
  natural loop      {b} + nodes that reach a without passing through b
  SCC / WCC         classes of mutual reachability / of reachability in the symmetrised graph
  reachable_*       forward / backward closure, start node included (path of length 0)
  has_loop          some node reaches itself by a non-empty path
  find_path*        cycles_count = 0: exactly the simple paths; cycles_count = k: walks src..dst in which no node occurs
                    more than k+1 times, the search stopping when it arrives at the end it walks towards (the
                    convention of the implementation) -- or, equally accepted, the fully symmetric variants.

Conventions read from miasm and accepted: a node dominates itself; only nodes reachable from the head are keys;
the head has no immediate dominator (absent, or mapped to itself = Cooper's convention); a node with an empty
frontier may be absent from the frontier map; a dominator tree of a single reachable node is empty.

Every algorithm call runs under a CPU-time budget (ITIMER_VIRTUAL, CALL_BUDGET_S): a call that does not return is the
violation `<algorithm>:does-not-terminate:<shape of the head>`; the worker goes on, and does not call that
(algorithm, shape) pair again in the same process.
"""
import signal
from collections import Counter

from mc.runner import violation

PROP = "C27"
LEVEL = "exploration"
ENGINE = "enum"
RULE = ("every labelled digraph of the stated families (all subsets of the n*n / n*(n-1) possible edges, all multiplicity "
        "vectors for the multigraph family) x every node as head and as leaf x every ordered (src, dst) pair; a case "
        "(graph, head) is non-trivial when the head reaches >= 2 nodes and the reachable part has a cycle or a join "
        "(a node with >= 2 distinct reachable predecessors)")
LEVEL_TEXT = ("Bounded-exhaustive: every labelled directed graph up to the node bound (self-loops, unreachable parts, heads with "
              "predecessors, leaves with successors, multi-edges on the small family) through every DiGraph analysis, each result "
              "compared with a brute-force oracle computed from the definition by plain reachability.")
LEVEL_NOTE = ("Trusted: the bitmask reachability oracle (self-checked: immediate dominator unique, SCC/WCC are partitions). "
              "Not covered: graphs with more than 5 nodes, node labels other than small ints, path enumeration with "
              "cycles_count > 1 (and cycles_count = 1 beyond 4 nodes), walk_*_first orders, dot output, MatchGraph.")
TECHNIQUE = "complete enumeration of small labelled digraphs against definition-level reachability oracles"
ASSUMPTIONS = ["graph algorithms do not depend on node label values beyond identity/hash (labels are 0..n-1)",
               "edge insertion order follows the enumeration (ascending; descending as a second order where stated)"]

MAX_PER_SIG = 3          # recorded cases per signature and shard


# ----------------------------------------------------------------------------------------------
# oracle: bitmask graphs
# ----------------------------------------------------------------------------------------------

def reach(start, adj, banned=0):
    """mask of nodes reachable from start (itself included) never entering a banned node"""
    if banned >> start & 1:
        return 0
    seen = 1 << start
    todo = seen
    while todo:
        low = todo & -todo
        todo ^= low
        new = adj[low.bit_length() - 1] & ~seen & ~banned
        seen |= new
        todo |= new
    return seen


def members(mask):
    out = []
    i = 0
    while mask:
        if mask & 1:
            out.append(i)
        mask >>= 1
        i += 1
    return out


def o_dominators(head, fwd):
    """{v: mask of dominators of v} for v reachable from head along fwd"""
    R = reach(head, fwd)
    rs = members(R)
    avoid = dict((d, reach(head, fwd, 1 << d)) for d in rs)
    dom = {}
    for v in rs:
        m = 0
        for d in rs:
            if not avoid[d] >> v & 1:
                m |= 1 << d
        dom[v] = m
    return R, dom


def o_idoms(head, dom):
    out = {}
    for v, m in dom.items():
        if v == head:
            continue
        strict = m & ~(1 << v)
        cands = [d for d in members(strict) if strict & ~dom[d] == 0]
        assert len(cands) == 1, "oracle: immediate dominator not unique"
        out[v] = cands[0]
    return out


def o_frontier(R, dom, bwd):
    df = {}
    for x in dom:
        m = 0
        for w in dom:
            if x != w and dom[w] >> x & 1:
                continue            # x strictly dominates w
            for p in members(bwd[w] & R):
                if dom[p] >> x & 1:
                    m |= 1 << w
                    break
        df[x] = m
    return df


def o_partition(n, f):
    seen = 0
    out = []
    for u in range(n):
        if seen >> u & 1:
            continue
        c = f(u)
        assert c >> u & 1 and not c & seen, "oracle: not a partition"
        seen |= c
        out.append(c)
    return sorted(out)


def o_walks(src, dst, succ_mult, caps):
    """Counter {walk tuple: multiplicity} of all walks src..dst in which node v occurs at most caps[v] times"""
    out = Counter()
    cnt = [0] * len(caps)

    def rec(path, mult):
        v = path[-1]
        if v == dst:
            out[tuple(path)] += mult
            if caps[dst] == 1:
                return
        for (w, k) in succ_mult[v]:
            if cnt[w] < caps[w]:
                cnt[w] += 1
                path.append(w)
                rec(path, mult * k)
                path.pop()
                cnt[w] -= 1

    if caps[src] < 1:
        return out
    cnt[src] = 1
    rec([src], 1)
    return out


def walk_caps(n, src, dst, k, conv):
    caps = [k + 1] * n
    if conv in ("stop-at-src", "stop-at-both"):
        caps[src] = 1
    if conv in ("stop-at-dst", "stop-at-both"):
        caps[dst] = 1
    return caps


# ----------------------------------------------------------------------------------------------
# graph families
# ----------------------------------------------------------------------------------------------

def family_size(fam, n):
    if fam == "loops":
        return 1 << (n * n)
    if fam == "noloops":
        return 1 << (n * (n - 1))
    if fam == "multi":
        return 3 ** (n * n)
    raise ValueError(fam)


def slots(fam, n):
    if fam == "noloops":
        return [(i, j) for i in range(n) for j in range(n) if i != j]
    return [(i, j) for i in range(n) for j in range(n)]


def decode(fam, n, code, order):
    """edge list (insertion order) of graph number `code` of the family"""
    sl = slots(fam, n)
    edges = []
    if fam == "multi":
        for s in sl:
            code, k = divmod(code, 3)
            edges += [s] * k
    else:
        for b, s in enumerate(sl):
            if code >> b & 1:
                edges.append(s)
    if order == "desc":
        edges.reverse()
    return edges


# ----------------------------------------------------------------------------------------------
# the check of one graph
# ----------------------------------------------------------------------------------------------

ALGOS = ["compute_dominators", "compute_postdominators", "compute_immediate_dominators",
         "compute_immediate_postdominators", "walk_dominators", "walk_postdominators", "compute_dominator_tree",
         "compute_dominance_frontier", "compute_back_edges", "compute_natural_loops",
         "compute_strongly_connected_components", "compute_weakly_connected_components",
         "reachable_sons", "reachable_parents", "reachable_parents_stop_node", "has_loop",
         "find_path:cc0", "find_path_from_src:cc0", "find_path:cc1", "find_path_from_src:cc1",
         "find_path==find_path_from_src:cc0", "graph-unchanged"]


def tomask(it):
    m = 0
    for x in it:
        m |= 1 << x
    return m


def fmt(m):
    return "{%s}" % ",".join(str(x) for x in members(m))


def fmtmap(d):
    return "{%s}" % ", ".join("%s:%s" % (k, fmt(v) if not isinstance(v, str) else v) for k, v in sorted(d.items()))


class G(object):
    """one graph under test + its oracle view"""

    def __init__(self, n, edges):
        from miasm.core.graph import DiGraph
        self.n = n
        self.edges = [tuple(e) for e in edges]
        g = DiGraph()
        for i in range(n):
            g.add_node(i)
        for a, b in self.edges:
            g.add_edge(a, b)
        self.g = g
        self.succ = [0] * n
        self.pred = [0] * n
        self.mult = Counter(self.edges)
        for a, b in self.mult:
            self.succ[a] |= 1 << b
            self.pred[b] |= 1 << a
        self.both = [self.succ[i] | self.pred[i] for i in range(n)]
        self.succ_mult = [sorted((b, k) for (a, b), k in self.mult.items() if a == i) for i in range(n)]

    def desc(self):
        return "n=%d edges=%s" % (self.n, self.edges)


CALL_BUDGET_S = 2.0        # CPU seconds granted to ONE algorithm call (a normal call on <= 5 nodes takes < 50 ms)
NOTERM = "does-not-terminate"
_EXPIRED = set()           # (algorithm, shape) pairs that ran out of budget in this process: not called again


class _BudgetExpired(BaseException):
    pass


_IN_CALL = [False]


def _on_timer(signum, frame):
    # the one-shot timer is re-armed at the entry of every call and never disarmed (one syscall per call):
    # an expiry between two calls belongs to nobody
    if _IN_CALL[0]:
        _IN_CALL[0] = False
        raise _BudgetExpired()


def arm():
    """install the CPU-time alarm in this (worker / replay) process"""
    signal.signal(signal.SIGVTALRM, _on_timer)


def disarm():
    _IN_CALL[0] = False
    signal.setitimer(signal.ITIMER_VIRTUAL, 0)


def call(key, f, *a):
    """Run one algorithm call under the CPU budget. key = (algorithm, shape class).
    -> (True, result) | (False, "raise:<Exc>") | (False, NOTERM) | (False, None) when the pair already expired in this
    process (its violation is recorded; calling it again would burn the budget for every remaining graph)."""
    if key in _EXPIRED:
        return False, None
    try:
        signal.setitimer(signal.ITIMER_VIRTUAL, CALL_BUDGET_S)
        _IN_CALL[0] = True
        r = f(*a)
        _IN_CALL[0] = False
        return True, r
    except _BudgetExpired:
        _EXPIRED.add(key)
        return False, NOTERM
    except Exception as e:        # noqa - any exception is an observation
        _IN_CALL[0] = False
        return False, "raise:" + type(e).__name__


def check_graph(n, edges, paths_cc=(0, 1), stats=None, want=None, nviol=None):
    """All comparisons on one graph. Returns the list of violations. `want`: only this algo.
    `nviol`: shared Counter {sig: occurrences}; past MAX_PER_SIG a violation is only counted, not formatted."""
    G_ = G(n, edges)
    g = G_.g
    succ, pred = G_.succ, G_.pred
    vs = []
    if stats is None:
        stats = Counter()
    basecase = {"n": n, "edges": [list(e) for e in G_.edges], "paths_cc": list(paths_cc)}

    def bad(algo, kind, skel, what, **kw):
        sig = "%s:%s%s" % (algo, kind, (":" + skel) if skel else "")
        if nviol is not None:
            nviol[sig] += 1
            if nviol[sig] > MAX_PER_SIG:
                return
        if callable(what):
            what = what()
        case = dict(basecase)
        case["sig"] = sig
        case["algo"] = algo
        vs.append(violation(sig, "%s  [%s] %s" % (what, G_.desc(), " ".join("%s=%s" % i for i in sorted(kw.items()))), case))

    def on(algo):
        if want is not None and want != algo:
            return False
        return True

    def fail(algo, r, skel, what, **kw):
        """a call that did not return a value: r = "raise:<Exc>" | NOTERM | None (skipped, see call)"""
        if r is None:
            stats["calls_skipped_after_budget_expiry"] += 1
        elif r == NOTERM:
            bad(algo, NOTERM, skel, "%s did not return within %.1f s of CPU time" % (what, CALL_BUDGET_S), **kw)
        else:
            bad(algo, r, skel, "%s raised %s" % (what, r[6:]), **kw)

    def cmp_sets(algo, arg, key, got, exp, cls):
        """got/exp: masks. cls(x) -> skeleton class of an element"""
        if got == exp:
            return
        miss = exp & ~got
        extra = got & ~exp
        if miss:
            x = members(miss)[0]
            bad(algo, "missing", cls(x), "%s(%s)[%s] = %s, definition gives %s" % (algo, arg, key, fmt(got), fmt(exp)), arg=arg)
        if extra:
            x = members(extra)[0]
            bad(algo, "extra", cls(x), "%s(%s)[%s] = %s, definition gives %s" % (algo, arg, key, fmt(got), fmt(exp)), arg=arg)

    snapshot = (set(g.nodes()), list(g.edges()))

    # ---------------- per head / leaf ----------------
    for direction in ("fwd", "bwd"):
        fwd, bwd = (succ, pred) if direction == "fwd" else (pred, succ)
        names = {
            "dom": "compute_dominators" if direction == "fwd" else "compute_postdominators",
            "idom": "compute_immediate_dominators" if direction == "fwd" else "compute_immediate_postdominators",
            "walk": "walk_dominators" if direction == "fwd" else "walk_postdominators",
            "reach": "reachable_sons" if direction == "fwd" else "reachable_parents",
        }
        for head in range(n):
            R, dom = o_dominators(head, fwd)
            idom = o_idoms(head, dom)
            start = "head" if direction == "fwd" else "leaf"
            hcls = (start + "-on-a-cycle") if bwd[head] & R else ((start + "-entered-from-unreachable-nodes") if bwd[head] else (start + "-not-entered"))

            def ncls(x, head=head, R=R):
                return "head" if x == head else ("reachable" if R >> x & 1 else "unreachable")

            # reachable set + yield discipline
            algo = names["reach"]
            if on(algo):
                stats[algo] += 1
                ok, r = call((algo, hcls), lambda: list(getattr(g, algo)(head)))
                if not ok:
                    fail(algo, r, hcls, "%s(%d)" % (algo, head,), arg=head)
                else:
                    cmp_sets(algo, head, "set", tomask(r), R, ncls)
                    if len(r) != len(set(r)):
                        bad(algo, "duplicate-yield", "", "%s(%d) yielded %r" % (algo, head, r), arg=head)
                    elif r and tomask(r) == R:
                        # documented: each yielded node is an immediate successor of an already yielded one
                        seen = 0
                        for i, x in enumerate(r):
                            if i == 0:
                                if x != head:
                                    bad(algo, "order", "first-not-start", "%s(%d) yielded %r" % (algo, head, r), arg=head)
                                    break
                            elif not bwd[x] & seen:
                                bad(algo, "order", "not-adjacent-to-yielded", "%s(%d) yielded %r" % (algo, head, r), arg=head)
                                break
                            seen |= 1 << x

            # dominators
            algo = names["dom"]
            gotdom = None
            if on(algo) or on(names["walk"]):
                ok, r = call((algo, hcls), getattr(g, algo), head)
                if on(algo):
                    stats[algo] += 1
                    if not ok:
                        fail(algo, r, hcls, "%s(%d)" % (algo, head,), arg=head)
                    else:
                        cmp_sets(algo, head, "keys", tomask(r), R, ncls)
                        for v in sorted(set(r) & set(dom)):
                            cmp_sets(algo, head, v, tomask(r[v]), dom[v],
                                     lambda x, v=v, head=head: "self" if x == v else ("head" if x == head else "other"))
                if ok:
                    gotdom = r

            # ordered walk over strict dominators (closest first), fed with the oracle's dominator sets
            algo = names["walk"]
            if on(algo):
                domsets = dict((v, set(members(m))) for v, m in dom.items())
                for v in range(n):
                    stats[algo] += 1
                    ok, r = call((algo, ncls(v)), lambda: list(getattr(g, algo)(v, domsets)))
                    exp = []
                    if v in dom:
                        x = v
                        while x != head:
                            x = idom[x]
                            exp.append(x)
                    if not ok:
                        fail(algo, r, ncls(v), "%s(%d, dominators from %d)" % (algo, v, head,), arg=head)
                    elif r != exp:
                        bad(algo, "wrong-chain", ncls(v), "%s(%d, dominators from %d) = %r, definition gives %r" % (algo, v, head, r, exp), arg=head)

            # immediate dominators
            algo = names["idom"]
            if on(algo):
                stats[algo] += 1
                ok, r = call((algo, hcls), getattr(g, algo), head)
                if not ok:
                    fail(algo, r, hcls, "%s(%d)" % (algo, head,), arg=head)
                else:
                    r = dict(r)
                    if r.get(head, head) != head:
                        bad(algo, "head-has-idom", hcls, "%s(%d)[head] = %r" % (algo, head, r[head]), arg=head)
                    r.pop(head, None)
                    if r != idom:
                        ks = sorted(set(r) ^ set(idom)) or sorted(k for k in idom if r[k] != idom[k])
                        kind = "keys" if set(r) != set(idom) else "wrong-idom"
                        bad(algo, kind, ncls(ks[0]), "%s(%d) = %r, definition gives %r" % (algo, head, r, idom), arg=head)

            if direction == "bwd":
                continue

            # dominator tree
            algo = "compute_dominator_tree"
            if on(algo):
                stats[algo] += 1
                ok, r = call((algo, hcls), g.compute_dominator_tree, head)
                if not ok:
                    fail(algo, r, hcls, "%s(%d)" % (algo, head,), arg=head)
                else:
                    ge = sorted(r.edges())
                    ee = sorted((d, v) for v, d in idom.items())
                    gn = set(r.nodes())
                    en = set(members(R)) if len(idom) else set()
                    if ge != ee:
                        bad(algo, "wrong-edges", hcls, "%s(%d).edges = %r, definition gives %r" % (algo, head, ge, ee), arg=head)
                    elif not (gn == en or (not idom and gn == {head})):
                        bad(algo, "wrong-nodes", hcls, "%s(%d).nodes = %r, expected %r" % (algo, head, sorted(gn), sorted(en)), arg=head)

            # dominance frontier
            algo = "compute_dominance_frontier"
            df = o_frontier(R, dom, pred)
            if on(algo):
                stats[algo] += 1
                if any(df.values()):
                    stats["cases_nonempty_frontier"] += 1
                ok, r = call((algo, hcls), g.compute_dominance_frontier, head)
                if not ok:
                    fail(algo, r, hcls, "%s(%d)" % (algo, head,), arg=head)
                else:
                    stray = [k for k in r if k not in df]
                    if stray:
                        bad(algo, "extra-key", ncls(stray[0]), "%s(%d) has key %r outside the reachable set" % (algo, head, stray[0]), arg=head)
                    for x in sorted(df):
                        got = tomask(r.get(x, ()))
                        if got != df[x]:
                            w = members(got ^ df[x])[0]
                            kind = "missing" if df[x] >> w & 1 else "extra"
                            wcls = "w=head" if w == head else "w=other"
                            bad(algo, kind, wcls, lambda: "%s(%d)[%d] = %s, definition gives %s (full result %s)" % (
                                algo, head, x, fmt(got), fmt(df[x]),
                                fmtmap(dict((k, tomask(v)) for k, v in r.items()))), arg=head)

            # back edges + natural loops
            exp_be = Counter()
            for a in members(R):
                for b in members(succ[a] & dom[a]):
                    exp_be[(a, b)] = G_.mult[(a, b)]
            algo = "compute_back_edges"
            if on(algo):
                stats[algo] += 1
                if exp_be:
                    stats["cases_with_back_edge"] += 1
                ok, r = call((algo, hcls), lambda: list(g.compute_back_edges(head)))
                if not ok:
                    fail(algo, r, hcls, "%s(%d)" % (algo, head,), arg=head)
                else:
                    got = Counter(tuple(e) for e in r)
                    if got != exp_be:
                        if set(got) == set(exp_be):
                            kind, e = "multiplicity", sorted(k for k in got if got[k] != exp_be[k])[0]
                        elif set(exp_be) - set(got):
                            kind, e = "missing", sorted(set(exp_be) - set(got))[0]
                        else:
                            kind, e = "extra", sorted(set(got) - set(exp_be))[0]
                        skel = "self-loop" if e[0] == e[1] else ("to-head" if e[1] == head else "to-other")
                        bad(algo, kind, skel, "%s(%d) = %r, definition gives %r" % (algo, head, sorted(got.elements()), sorted(exp_be.elements())), arg=head)
            algo = "compute_natural_loops"
            if on(algo):
                stats[algo] += 1
                ok, r = call((algo, hcls), lambda: list(g.compute_natural_loops(head)))
                if not ok:
                    fail(algo, r, hcls, "%s(%d)" % (algo, head,), arg=head)
                else:
                    got_edges = Counter(tuple(e) for e, _ in r)
                    if got_edges != exp_be:
                        bad(algo, "wrong-back-edges", hcls, "%s(%d) back edges %r, definition gives %r" % (
                            algo, head, sorted(got_edges.elements()), sorted(exp_be.elements())), arg=head)
                    for (a, b), body in r:
                        if (a, b) not in exp_be:
                            continue
                        full = (1 << b) | reach(a, pred, 1 << b)
                        predR = [m & R for m in pred]
                        inR = (1 << b) | reach(a, predR, 1 << b)
                        got = tomask(body)
                        if full.bit_count() > 1:
                            stats["loops_body_gt1"] += 1
                        if got != full and got != inR:
                            w = members(got ^ full)[0]
                            kind = "missing" if full >> w & 1 else "extra"
                            skel = "self-loop" if a == b else ("header=head" if b == head else "header=other")
                            bad(algo, "body-" + kind, skel, "%s(%d): loop of back edge %d->%d has body %s, definition gives %s" % (
                                algo, head, a, b, fmt(got), fmt(full)), arg=head)

            # reachable_parents_stop_node(leaf=head_of_loop .. ) over every (leaf, stop) pair: leaf = `head` here
            algo = "reachable_parents_stop_node"
            if on(algo):
                for stop in range(n):
                    stats[algo] += 1
                    cut = list(pred)
                    cut[stop] = 0
                    exp = reach(head, cut)
                    ok, r = call((algo, ""), lambda: list(g.reachable_parents_stop_node(head, stop)))
                    if not ok:
                        fail(algo, r, "", "%s(%d, %d)" % (algo, head, stop,), arg=head)
                    else:
                        cmp_sets(algo, "%d,%d" % (head, stop), "set", tomask(r), exp,
                                 lambda x, stop=stop, leaf=head: "stop-node" if x == stop else ("leaf" if x == leaf else "other"))

            # non-triviality of the (graph, head) case
            stats["cases"] += 1
            if pred[head]:
                stats["cases_head_has_preds"] += 1
            if R != (1 << n) - 1:
                stats["cases_with_unreachable_nodes"] += 1
            if R & (R - 1):
                join = any((pred[w] & R) & ((pred[w] & R) - 1) for w in members(R))
                cyc = any(reach(s, succ) >> u & 1 for u in members(R) for s in members(succ[u]))
                if join or cyc:
                    stats["cases_nontrivial"] += 1

    # ---------------- per graph ----------------
    algo = "compute_strongly_connected_components"
    if on(algo):
        stats[algo] += 1
        exp = o_partition(n, lambda u: reach(u, succ) & reach(u, pred))
        ok, r = call((algo, ""), lambda: list(g.compute_strongly_connected_components()))
        if not ok:
            fail(algo, r, "", "%s()" % (algo,))
        else:
            got = sorted(tomask(c) for c in r)
            if got != exp:
                part = sum(got) == (1 << n) - 1 and sum(c.bit_count() for c in got) == n
                kind = "not-a-partition" if not part else ("too-fine" if len(got) > len(exp) else ("too-coarse" if len(got) < len(exp) else "wrong-classes"))
                bad(algo, kind, "", "%s() = %s, definition gives %s" % (algo, [fmt(c) for c in got], [fmt(c) for c in exp]))
    algo = "compute_weakly_connected_components"
    if on(algo):
        stats[algo] += 1
        exp = o_partition(n, lambda u: reach(u, G_.both))
        ok, r = call((algo, ""), lambda: list(g.compute_weakly_connected_components()))
        if not ok:
            fail(algo, r, "", "%s()" % (algo,))
        else:
            got = sorted(tomask(c) for c in r)
            if got != exp:
                part = sum(got) == (1 << n) - 1 and sum(c.bit_count() for c in got) == n
                kind = "not-a-partition" if not part else ("too-fine" if len(got) > len(exp) else ("too-coarse" if len(got) < len(exp) else "wrong-classes"))
                bad(algo, kind, "", "%s() = %s, definition gives %s" % (algo, [fmt(c) for c in got], [fmt(c) for c in exp]))
    algo = "has_loop"
    if on(algo):
        stats[algo] += 1
        exp = any(reach(s, succ) >> u & 1 for u in range(n) for s in members(succ[u]))
        if exp:
            stats["graphs_with_cycle"] += 1
        ok, r = call((algo, ""), g.has_loop)
        if not ok:
            fail(algo, r, "", "%s()" % (algo,))
        elif bool(r) != exp or not isinstance(r, bool):
            only_self = exp and not any(reach(s, succ) >> u & 1 for u in range(n) for s in members(succ[u] & ~(1 << u)))
            bad(algo, "false-negative" if exp else "false-positive", "only-self-loops" if only_self else "",
                "%s() = %r, definition gives %r" % (algo, r, exp))

    # ---------------- paths ----------------
    for k in paths_cc:
        for src in range(n):
            for dst in range(n):
                res = {}
                for fn, own in (("find_path", "stop-at-src"), ("find_path_from_src", "stop-at-dst")):
                    algo = "%s:cc%d" % (fn, k)
                    if not on(algo) and not (k == 0 and on("find_path==find_path_from_src:cc0")):
                        continue
                    skel = "src=dst" if src == dst else ("dst-reachable" if reach(src, succ) >> dst & 1 else "dst-unreachable")
                    ok, r = call((algo, skel), getattr(g, fn), src, dst, k)
                    if not on(algo):
                        if ok:
                            res[fn] = Counter(tuple(p) for p in r)
                        continue
                    stats[algo] += 1
                    if not ok:
                        fail(algo, r, skel, "%s(%d, %d, %d)" % (fn, src, dst, k,))
                        continue
                    got = Counter(tuple(p) for p in r)
                    res[fn] = got
                    exp = o_walks(src, dst, G_.succ_mult, walk_caps(n, src, dst, k, own))
                    stats["paths_expected:cc%d" % k] += sum(exp.values())
                    if got == exp:
                        continue
                    if k:
                        # the symmetric conventions are accepted as well
                        if any(got == o_walks(src, dst, G_.succ_mult, walk_caps(n, src, dst, k, conv))
                               for conv in ("all-bounded", "stop-at-both")):
                            stats["paths_other_convention"] += 1
                            continue
                    inval = [p for p in got if not p or p[0] != src or p[-1] != dst or
                             any(not succ[a] >> b & 1 for a, b in zip(p, p[1:]))]
                    if inval:
                        kind = "not-a-path"
                    elif any(max(Counter(p).values()) > k + 1 for p in got):
                        kind = "bound-exceeded"
                    elif set(exp) - set(got):
                        kind = "missing-path"
                    elif set(got) - set(exp):
                        kind = "extra-path"
                    else:
                        kind = "multiplicity"
                    bad(algo, kind, skel, "%s(%d, %d, cycles_count=%d) = %r, definition gives %r" % (
                        fn, src, dst, k, sorted(got.elements()), sorted(exp.elements())))
                if k == 0 and on("find_path==find_path_from_src:cc0") and len(res) == 2:
                    stats["find_path==find_path_from_src:cc0"] += 1
                    if res["find_path"] != res["find_path_from_src"]:
                        bad("find_path==find_path_from_src:cc0", "differ", "", "find_path(%d,%d) = %r but find_path_from_src = %r" % (
                            src, dst, sorted(res["find_path"].elements()), sorted(res["find_path_from_src"].elements())))
                elif k and len(res) == 2 and res["find_path"] != res["find_path_from_src"]:
                    stats["observed_find_path!=from_src:cc%d" % k] += 1

    if on("graph-unchanged"):
        stats["graph-unchanged"] += 1
        if (set(g.nodes()), list(g.edges())) != snapshot:
            bad("graph-unchanged", "mutated", "", "an analysis changed the graph: edges now %r" % (list(g.edges()),))
    return vs


# ----------------------------------------------------------------------------------------------
# sharding
# ----------------------------------------------------------------------------------------------

def _shard(args):
    fam, n, order, lo, hi, paths_cc = args
    arm()
    stats = Counter()
    kept = {}
    nviol = Counter()
    sample = None
    for code in range(lo, hi):
        edges = decode(fam, n, code, order)
        for v in check_graph(n, edges, paths_cc, stats, nviol=nviol):
            kept.setdefault(v["sig"], []).append(v)
        stats["graphs"] += 1
        if sample is None and len(edges) >= n + 1:
            sample = {"family": fam, "n": n, "code": code, "order": order, "edges": [list(e) for e in edges]}
    disarm()
    vs = [v for sig in sorted(kept) for v in kept[sig]]
    return dict(stats), vs, dict(nviol), sample


def plan(quick):
    """[(family, n, order, paths_cc)] - the bounds of the tier"""
    fams = []
    for n in range(0, 4):
        fams.append(("loops", n, "asc", (0, 1)))
    # 4 nodes: cycles_count = 1 multiplies the cost on dense graphs, it is part of the thorough tier
    fams.append(("loops", 4, "asc", (0,) if quick else (0, 1)))
    fams.append(("multi", 1, "asc", (0, 1)))
    fams.append(("multi", 2, "asc", (0, 1)))
    fams.append(("multi", 3, "asc", (0,)))
    if not quick:
        for n in range(2, 5):
            fams.append(("loops", n, "desc", (0, 1)))
        fams.append(("noloops", 5, "asc", (0,)))
    return fams


def run(ctx):
    fams = plan(ctx.quick)
    shards = []
    for fam, n, order, cc in fams:
        size = family_size(fam, n)
        step = max(1, min(4096, size // 64)) if n >= 4 else max(1, size // 32)
        if fam == "multi":
            step = max(1, size // 128)
        for lo in range(0, size, step):
            shards.append((fam, n, order, lo, min(size, lo + step), cc))
    res = ctx.pmap(_shard, shards)
    stats = Counter()
    nviol = Counter()
    samples = []
    per_family = {}
    for sh, (st, vs, nv, sample) in zip(shards, res):
        stats.update(st)
        nviol.update(nv)
        ctx.add_violations(vs)
        key = "%s:n=%d:%s" % (sh[0], sh[1], sh[2])
        per_family[key] = per_family.get(key, 0) + st.get("graphs", 0)
        if sample and len(samples) < 4 and all(s["family"] != sample["family"] or s["n"] != sample["n"] for s in samples):
            samples.append(sample)
    comparisons = dict((a, stats.get(a, 0)) for a in ALGOS)
    return {
        "evaluations": sum(comparisons.values()),
        "distinct_nontrivial": stats["cases_nontrivial"],
        "graphs": stats["graphs"],
        "graph_head_cases": stats["cases"],
        "cases_head_has_preds": stats["cases_head_has_preds"],
        "cases_with_unreachable_nodes": stats["cases_with_unreachable_nodes"],
        "cases_nonempty_frontier": stats["cases_nonempty_frontier"],
        "cases_with_back_edge": stats["cases_with_back_edge"],
        "loops_body_gt1": stats["loops_body_gt1"],
        "graphs_with_cycle": stats["graphs_with_cycle"],
        "paths_expected_cc0": stats["paths_expected:cc0"],
        "paths_expected_cc1": stats["paths_expected:cc1"],
        "paths_other_convention": stats["paths_other_convention"],
        "observed_find_path_differs_from_src_cc1": stats["observed_find_path!=from_src:cc1"],
        "calls_skipped_after_budget_expiry": stats["calls_skipped_after_budget_expiry"],
        "call_cpu_budget_s": CALL_BUDGET_S,
        "comparisons_per_algorithm": comparisons,
        "violating_comparisons_per_signature": dict(nviol),
        "graphs_per_family": per_family,
        "samples": samples,
        "exhaustive": True,
        "bounds": {"families": [list(f[:3]) + [list(f[3])] for f in fams],
                   "heads": "every node as head and as leaf", "paths": "every ordered (src, dst) pair, cycles_count as listed per family"},
    }


def replay(case):
    arm()
    vs = check_graph(case["n"], [tuple(e) for e in case["edges"]], tuple(case.get("paths_cc", (0, 1))), want=case.get("algo"))
    disarm()
    sig = case.get("sig")
    return [v for v in vs if sig is None or v["sig"] == sig]
