"""C28 - the location database stays consistent.

Engine E1 (explicit-state BFS over the real LocationDB), run to a FIXPOINT (the abstract state space is
finite once the number of live locations is capped).

Reference model: a list of locations, each (set of names, offset or None, "ever carried a name").  Every
API call is first predicted on the model (returns / raises, which location is returned, what the database
looks like afterwards), then executed on the real object, and the two are compared:

  * outcome: returned vs raised, and for creating / get_or_create calls *which* location came back;
    non-strict creation must return a LocKey whose names contain the requested name and whose offset
    is the requested offset;
  * a call that raises must leave every getter unchanged (full getter snapshot before / after);
  * merge(other): `other` is a second real LocationDB built from a short sub-history; after a successful
    merge every name->location and offset->location association of `other` must hold in self;
    a merge that cannot be satisfied (two of self's locations would have to be fused, or a location would
    need two offsets) must be rejected and leave self unchanged;
  * after every call a side-effect-free probe: consistency_check(), loc_keys, get_location_names /
    get_location_offset for every live and every removed key, get_name_location / get_name_offset for
    every name of the pool (and one unused name), get_offset_location for every offset of the pool (and
    one unused), `names`, `offsets`.

When the implementation diverges, the violation is recorded and the model is re-synchronised from the
real object, so that the search continues behind a defect instead of re-reporting it.

Canonical state: multiset of (names, offset, ever-named) - LocKey numbering is abstracted (the API never
orders keys) - plus the number of stale entries in the private tables (0 unless the tree is broken).
"""
import warnings

from mc import bfs

PROP = "C28"
LEVEL = "model_checking"
ENGINE = "bfs"
RULE = ("BFS to fixpoint over histories of LocationDB API calls (18 add_location forms, get_or_create_*, remove, "
        "add/remove name, set(force/no force)/unset offset, calls on a removed key, merge with every database "
        "reachable by a short sub-history); live locations capped; a state is distinct by the multiset of "
        "(names, offset, ever-named) per location")
LEVEL_TEXT = ("Explicit-state search, run until no new canonical state appears, of every history of LocationDB API calls "
              "over a small pool of names and offsets with a cap on live locations, on the real object with a reference "
              "model in lock step: predicted vs observed outcome of each call, a full getter snapshot around every "
              "rejected call, the association clauses of merge, and consistency_check() plus every getter in both "
              "directions in every reached state. The number of reached states is cross-checked against the closure "
              "of the reference model alone.")
LEVEL_NOTE = ("Trusted: the ~150-line reference model below. Bounds: name pool, offset pool, cap on live locations, "
              "`other` databases of merge limited to those reachable in <= D calls. Deprecated wrappers "
              "(add_location(int), __getitem__, rename_location ...) and pretty_str/find_free_name are not exercised.")
TECHNIQUE = "explicit-state BFS to fixpoint over API histories on the real LocationDB against a partition model"
ASSUMPTIONS = ["LocationDB behaviour does not depend on LocKey numbering (canonical state abstracts it)",
               "behaviour does not depend on the spelling of names / magnitude of offsets beyond equality"]

# tier -> bounds (constants; recorded in coverage.bounds)
BOUNDS = {
    "quick": {"names": ["a", "b"], "offsets": [0, 1], "cap": 3, "other_depth": 2},
    "thorough": {"names": ["a", "b", "c"], "offsets": [0, 1], "cap": 4, "other_depth": 3},
}
_CFG = dict(BOUNDS["quick"])
_OTHERS = None

DEAD_NUM = 10 ** 6
UNUSED_NAME = "zz"
UNUSED_OFFSET = 7


# ----------------------------------------------------------------------------------------------- model
# model = list of entries [frozenset(names), offset|None, ever_named]; index = position in st.locs

def _find_name(model, name):
    for i, e in enumerate(model):
        if name in e[0]:
            return i
    return None


def _find_off(model, off):
    if off is None:
        return None
    for i, e in enumerate(model):
        if e[1] == off:
            return i
    return None


def _cls(model, name, off):
    """skeleton of a (name, offset) request against the model."""
    ni = _find_name(model, name) if name is not None else None
    oi = _find_off(model, off)
    n = "none" if name is None else ("known" if ni is not None else "new")
    o = "none" if off is None else ("known" if oi is not None else "new")
    rel = ""
    if ni is not None and oi is not None:
        rel = ",same-loc" if ni == oi else ",other-loc"
    elif ni is not None and off is not None:
        rel = ",loc-has-no-offset" if model[ni][1] is None else ",loc-has-other-offset"
    return "name=%s,offset=%s%s" % (n, o, rel)


def predict(model, ev):
    """Return (skeleton, outcome, new_model, ret) with outcome in {'ok','raise'}; ret = index of the returned
    location in new_model, 'new' (index len(model)) or None when the call returns nothing."""
    m = [list(e) for e in model]
    kind = ev[0]
    if kind == "add":
        _, name, off, strict = ev
        sk = "add_location(%s,%s)" % ("strict" if strict else "nonstrict", _cls(model, name, off))
        ni = _find_name(m, name) if name is not None else None
        oi = _find_off(m, off)
        if strict:
            if ni is not None or oi is not None:
                return sk, "raise", model, None
        else:
            if ni is not None:
                if off is None:
                    return sk, "ok", m, ni
                if oi is not None and oi != ni:
                    return sk, "raise", model, None
                if m[ni][1] is None:
                    m[ni][1] = off
                    return sk, "ok", m, ni
                if m[ni][1] == off:
                    return sk, "ok", m, ni
                return sk, "raise", model, None
            if oi is not None:
                if name is not None:
                    m[oi][0] = frozenset(m[oi][0] | {name})
                    m[oi][2] = True
                return sk, "ok", m, oi
        m.append([frozenset([name]) if name is not None else frozenset(), off, name is not None])
        return sk, "ok", m, len(m) - 1
    if kind == "goc_name":
        name = ev[1]
        ni = _find_name(m, name)
        sk = "get_or_create_name_location(%s)" % ("known" if ni is not None else "new")
        if ni is not None:
            return sk, "ok", m, ni
        m.append([frozenset([name]), None, True])
        return sk, "ok", m, len(m) - 1
    if kind == "goc_off":
        off = ev[1]
        oi = _find_off(m, off)
        sk = "get_or_create_offset_location(%s)" % ("known" if oi is not None else "new")
        if oi is not None:
            return sk, "ok", m, oi
        m.append([frozenset(), off, False])
        return sk, "ok", m, len(m) - 1
    i = ev[1]
    dead = i < 0 or i >= len(m)
    who = "removed-key" if dead else "live-key"
    if kind == "remove":
        sk = "remove_location(%s)" % who
        if dead:
            return sk, "raise", model, None
        del m[i]
        return sk, "ok", m, None
    if kind == "add_name":
        name = ev[2]
        ni = _find_name(m, name)
        rel = "new" if ni is None else ("same-loc" if ni == i else "other-loc")
        sk = "add_location_name(%s,name=%s)" % (who, rel)
        if dead or (ni is not None and ni != i):
            return sk, "raise", model, None
        m[i][0] = frozenset(m[i][0] | {name})
        m[i][2] = True
        return sk, "ok", m, None
    if kind == "rm_name":
        name = ev[2]
        ni = _find_name(m, name)
        rel = "unknown" if ni is None else ("same-loc" if ni == i else "other-loc")
        sk = "remove_location_name(%s,name=%s)" % (who, rel)
        if dead or ni is None or ni != i:
            return sk, "raise", model, None
        m[i][0] = frozenset(m[i][0] - {name})
        return sk, "ok", m, None
    if kind == "set_off":
        _, _, off, force = ev
        oi = _find_off(m, off)
        rel = "new" if oi is None else ("same-loc" if oi == i else "other-loc")
        cur = "" if dead else (",loc-has-no-offset" if m[i][1] is None else
                               ("" if m[i][1] == off else ",loc-has-other-offset"))
        sk = "set_location_offset(%s,offset=%s%s,%s)" % (who, rel, cur, "force" if force else "noforce")
        if dead or (oi is not None and oi != i):
            return sk, "raise", model, None
        if m[i][1] is not None and m[i][1] != off and not force:
            return sk, "raise", model, None
        m[i][1] = off
        return sk, "ok", m, None
    if kind == "unset_off":
        sk = "unset_location_offset(%s%s)" % (who, "" if dead else (",has-offset" if m[i][1] is not None else ",no-offset"))
        if dead or m[i][1] is None:
            return sk, "raise", model, None
        m[i][1] = None
        return sk, "ok", m, None
    raise ValueError("unknown event %r" % (ev,))


_MERGE_RANK = ["conflict:two-locations", "conflict:other-offset",
               "offset-known+name-new",
               "name-known+name-new+offset-new", "name-known+name-new+offset-same", "name-known+name-new",
               "name-known+offset-new", "name-known+offset-same", "name-known", "offset-known", "new", "anonymous"]


def predict_merge(model, other):
    """Return (skeleton, outcome, new_model, n_existing) - new locations are appended after index n_existing."""
    m = [list(e) for e in model]
    n0 = len(m)
    kinds = set()
    outcome = "ok"
    for names, off, _ in other:
        tn = set()
        for nm in names:
            t = _find_name(m, nm)
            if t is not None:
                tn.add(t)
        to = _find_off(m, off)
        targets = set(tn)
        if to is not None:
            targets.add(to)
        if not targets:
            kinds.add("anonymous" if not names and off is None else "new")
            m.append([frozenset(names), off, bool(names)])
            continue
        if len(targets) > 1:
            kinds.add("conflict:two-locations")
            outcome = "raise"
            continue
        t = targets.pop()
        if off is not None and m[t][1] not in (None, off):
            kinds.add("conflict:other-offset")
            outcome = "raise"
            continue
        newnames = bool(set(names) - set(m[t][0]))
        if not tn:
            kinds.add("offset-known+name-new" if names else "offset-known")
        else:
            k = "name-known"
            if newnames:
                k += "+name-new"
            if off is not None:
                k += "+offset-same" if m[t][1] == off else "+offset-new"
            kinds.add(k)
        m[t][0] = frozenset(set(m[t][0]) | set(names))
        if names:
            m[t][2] = True
        if off is not None:
            m[t][1] = off
    # skeleton = the most demanding kind of foreign location present (a pure case of every kind exists in the
    # search, so a lower-ranked kind that fails alone still gets its own signature)
    top = "empty"
    for k in _MERGE_RANK:
        if k in kinds:
            top = k
            break
    sk = "merge(%s)" % top
    if outcome == "raise":
        return sk, "raise", model, n0
    return sk, "ok", m, n0


def canon_model(model):
    return tuple(sorted((tuple(sorted(e[0])), -1 if e[1] is None else e[1], bool(e[2])) for e in model))


def model_events(model, cfg, others):
    """Menu of events enabled in a model state (simplest first). Creation beyond the cap is disabled."""
    evs = []
    n = len(model)
    room = n < cfg["cap"]
    names = cfg["names"]
    offs = cfg["offsets"]

    def creating(ev):
        _, outcome, m2, _ = predict(model, ev)
        return outcome == "ok" and len(m2) > n

    for strict in (True, False):
        for name in [None] + names:
            for off in [None] + offs:
                ev = ("add", name, off, strict)
                if room or not creating(ev):
                    evs.append(ev)
    for name in names:
        ev = ("goc_name", name)
        if room or not creating(ev):
            evs.append(ev)
    for off in offs:
        ev = ("goc_off", off)
        if room or not creating(ev):
            evs.append(ev)
    for i in list(range(n)) + [-1]:
        evs.append(("remove", i))
        for name in names:
            evs.append(("add_name", i, name))
            evs.append(("rm_name", i, name))
        for off in offs:
            for force in (False, True):
                evs.append(("set_off", i, off, force))
        evs.append(("unset_off", i))
    for sub in others:
        omodel = model_of_history(sub)
        _, outcome, m2, _ = predict_merge(model, omodel)
        if outcome == "raise" or len(m2) <= cfg["cap"]:
            evs.append(("merge", sub))
    return evs


_MOH = {}


def model_of_history(sub):
    key = repr(sub)
    if key not in _MOH:
        m = []
        for ev in sub:
            _, outcome, m2, _ = predict(m, bfs._tuplify(ev))
            if outcome == "ok":
                m = m2
        _MOH[key] = m
    return _MOH[key]


def compute_others(cfg):
    """Every model state reachable in <= other_depth calls (no merge, live keys only), by its first history."""
    seen = {canon_model([]): ()}
    frontier = [((), [])]
    for _ in range(cfg["other_depth"]):
        nxt = []
        for hist, model in frontier:
            for ev in model_events(model, cfg, ()):
                if ev[0] not in ("add", "goc_name", "goc_off") and ev[1] < 0:
                    continue
                _, outcome, m2, _ = predict(model, ev)
                if outcome != "ok":
                    continue
                k = canon_model(m2)
                if k not in seen:
                    seen[k] = hist + (ev,)
                    nxt.append((hist + (ev,), m2))
        frontier = nxt
    return list(seen.values())


def model_closure(cfg, others):
    """Closure of the reference model alone (no implementation): the number of abstract states the BFS must reach."""
    seen = {canon_model([])}
    frontier = [[]]
    while frontier:
        nxt = []
        for model in frontier:
            for ev in model_events(model, cfg, others):
                if ev[0] == "merge":
                    _, outcome, m2, _ = predict_merge(model, model_of_history(ev[1]))
                else:
                    _, outcome, m2, _ = predict(model, ev)
                if outcome != "ok":
                    continue
                k = canon_model(m2)
                if k not in seen:
                    seen.add(k)
                    nxt.append(m2)
        frontier = nxt
    return len(seen)


def _others():
    global _OTHERS
    if _OTHERS is None:
        _OTHERS = compute_others(_CFG)
    return _OTHERS


# ------------------------------------------------------------------------------------------ real object

class State(object):
    pass


def make(seed):
    from miasm.core.locationdb import LocationDB
    st = State()
    st.db = LocationDB()
    st.locs = []        # live LocKeys, creation order; parallel to st.model
    st.model = []
    st.removed = []     # LocKeys removed so far (probed for left-overs, used as the "removed key")
    st.last = "init"
    st.result = "init"
    return st


def _lockey():
    from miasm.expression.expression import LocKey
    return LocKey


def _dead_key(st):
    return st.removed[-1] if st.removed else _lockey()(DEAD_NUM)


def _key(st, i):
    if 0 <= i < len(st.locs):
        return st.locs[i]
    return _dead_key(st)


def snapshot(st):
    """Everything the getters can tell, keyed by concrete LocKey numbers."""
    db = st.db
    keys = sorted(db.loc_keys, key=lambda k: k.key)
    probe_keys = list(keys) + [k for k in st.removed if k not in db.loc_keys] + [_lockey()(DEAD_NUM)]
    per_key = tuple((k.key, tuple(sorted(db.get_location_names(k))), db.get_location_offset(k)) for k in probe_keys)
    names = list(_CFG["names"]) + sorted(set(db.names) - set(_CFG["names"])) + [UNUSED_NAME]
    offs = list(_CFG["offsets"]) + sorted(set(db.offsets) - set(_CFG["offsets"])) + [UNUSED_OFFSET]
    by_name = tuple((n, _num(db.get_name_location(n)), db.get_name_offset(n)) for n in names)
    by_off = tuple((o, _num(db.get_offset_location(o))) for o in offs)
    return (tuple(k.key for k in keys), per_key, by_name, by_off, tuple(sorted(db.names)), tuple(sorted(db.offsets)))


def _num(k):
    return None if k is None else getattr(k, "key", repr(k))


def resync(st):
    """Adopt the implementation's state as the model (after a reported divergence)."""
    db = st.db
    old = dict((k, e[2]) for k, e in zip(st.locs, st.model))
    keys = sorted(db.loc_keys, key=lambda k: k.key)
    st.locs = keys
    st.model = []
    for k in keys:
        names = frozenset(db.get_location_names(k))
        st.model.append([names, db.get_location_offset(k), bool(old.get(k)) or bool(names)])


def _call(st, ev):
    db = st.db
    kind = ev[0]
    if kind == "add":
        return db.add_location(name=ev[1], offset=ev[2], strict=ev[3])
    if kind == "goc_name":
        return db.get_or_create_name_location(ev[1])
    if kind == "goc_off":
        return db.get_or_create_offset_location(ev[1])
    k = _key(st, ev[1])
    if kind == "remove":
        return db.remove_location(k)
    if kind == "add_name":
        return db.add_location_name(k, ev[2])
    if kind == "rm_name":
        return db.remove_location_name(k, ev[2])
    if kind == "set_off":
        return db.set_location_offset(k, ev[2], force=ev[3])
    if kind == "unset_off":
        return db.unset_location_offset(k)
    raise ValueError(ev)


def _fmt(model):
    return "[" + ", ".join("(%s|%s)" % (",".join(sorted(e[0])) or "-", "-" if e[1] is None else e[1]) for e in model) + "]"


def apply(st, ev):
    with warnings.catch_warnings():
        warnings.simplefilter("ignore")
        if ev[0] == "merge":
            return _apply_merge(st, ev)
        return _apply_plain(st, ev)


def _apply_plain(st, ev):
    LocKey = _lockey()
    probs = []
    sk, outcome, m2, ret = predict(st.model, ev)
    st.last = sk
    before = snapshot(st)
    before_model = _fmt(st.model)
    raised = None
    got = None
    try:
        got = _call(st, ev)
    except Exception as e:      # AssertionError is how LocationDB rejects calls on unknown keys
        raised = e
    ctx = "%r on %s" % (ev, before_model)
    if raised is not None:
        st.result = "raise"
        after = snapshot(st)
        if outcome == "ok":
            probs.append(("%s:raised-unexpectedly:%s" % (sk, type(raised).__name__),
                          "%s raised %r; the model expects success giving %s%s" % (
                              ctx, raised, _fmt(m2), "" if after == before else " (and the database was modified)")))
            resync(st)
        elif after != before:
            probs.append(("%s:rejected-but-changed" % sk,
                          "%s raised %r but the getters changed:\n before %r\n after  %r" % (ctx, raised, before, after)))
            resync(st)
        return probs
    st.result = "ok"
    if outcome == "raise":
        probs.append(("%s:did-not-raise" % sk, "%s returned %r; the model expects a rejection" % (ctx, got)))
        resync(st)
        return probs
    # predicted ok, returned
    kind = ev[0]
    if kind in ("add", "goc_name", "goc_off"):
        creates = len(m2) > len(st.model)
        if not isinstance(got, LocKey):
            probs.append(("%s:returned-%s" % (sk, type(got).__name__),
                          "%s returned %r instead of the LocKey of the location carrying the requested name/offset "
                          "(model: %s)" % (ctx, got, _fmt(m2))))
            # state may still be as predicted: find the created key if any
            new = sorted(set(st.db.loc_keys) - set(st.locs), key=lambda k: k.key)
            if creates and len(new) == 1:
                st.locs = st.locs + new
                st.model = m2
            elif not creates and not new:
                st.model = m2
            else:
                resync(st)
            return probs
        if creates:
            if got in st.locs or got in st.removed:
                probs.append(("%s:returned-existing-key" % sk, "%s returned %r which is not a new location" % (ctx, got)))
                resync(st)
                return probs
            st.locs = st.locs + [got]
        else:
            if got != st.locs[ret]:
                probs.append(("%s:returned-wrong-location" % sk,
                              "%s returned %r, expected %r (model %s)" % (ctx, got, st.locs[ret], _fmt(m2))))
        st.model = m2
        if kind == "add" and not ev[3]:
            # the property's own clause, checked on the returned key directly
            name, off = ev[1], ev[2]
            gn = st.db.get_location_names(got)
            go = st.db.get_location_offset(got)
            if (name is not None and name not in gn) or (off is not None and go != off):
                probs.append(("%s:returned-location-lacks-request" % sk,
                              "%s returned %r with names %r offset %r" % (ctx, got, sorted(gn), go)))
        return probs
    if kind == "remove":
        st.removed = st.removed + [st.locs[ev[1]]]
        st.locs = st.locs[:ev[1]] + st.locs[ev[1] + 1:]
    st.model = m2
    return probs


def _build(sub):
    ost = make(None)
    for ev in sub:
        _apply_plain(ost, bfs._tuplify(ev))
    return ost


def _apply_merge(st, ev):
    probs = []
    ost = _build(ev[1])
    other = ost.model
    sk, outcome, m2, n0 = predict_merge(st.model, other)
    st.last = sk
    before = snapshot(st)
    ctx = "merge of %s (built by %r) into %s" % (_fmt(other), ev[1], _fmt(st.model))
    raised = None
    try:
        st.db.merge(ost.db)
    except Exception as e:
        raised = e
    after = snapshot(st)
    if raised is not None:
        st.result = "raise"
        if outcome == "ok":
            probs.append(("%s:raised-unexpectedly:%s" % (sk, type(raised).__name__),
                          "%s raised %r; every association of the other database is compatible, expected %s%s" % (
                              ctx, raised, _fmt(m2), "" if after == before else " (and the database was left half merged)")))
            resync(st)
        elif after != before:
            probs.append(("%s:rejected-but-changed" % sk,
                          "%s raised %r (expected: the databases conflict) but the getters changed:\n before %r\n after  %r" % (
                              ctx, raised, before, after)))
            resync(st)
        return probs
    st.result = "ok"
    # the property's clause: every association of other holds in self
    db = st.db
    missing = []
    for names, off, _ in other:
        homes = set()
        for nm in sorted(names):
            k = db.get_name_location(nm)
            homes.add(_num(k))
            if k is None or nm not in db.get_location_names(k):
                missing.append("name %r" % nm)
            elif off is not None and db.get_location_offset(k) != off:
                missing.append("name %r -> offset %r" % (nm, off))
        if off is not None:
            k = db.get_offset_location(off)
            homes.add(_num(k))
            if k is None or db.get_location_offset(k) != off:
                missing.append("offset %r" % off)
        if len(homes) > 1:
            missing.append("names/offset of one foreign location spread over %r" % sorted(homes, key=repr))
    if outcome == "raise":
        probs.append(("%s:did-not-raise" % sk, "%s returned although the databases conflict; not imported: %s" % (ctx, missing or "-")))
        resync(st)
        return probs
    if missing:
        probs.append(("%s:association-missing" % sk, "%s succeeded but these associations of the other database do not hold: %s" % (ctx, missing)))
    # match the imported locations with the prediction (anonymous foreign locations may or may not be imported)
    new = sorted(set(db.loc_keys) - set(st.locs), key=lambda k: k.key)
    obs = sorted((tuple(sorted(db.get_location_names(k))), -1 if db.get_location_offset(k) is None else db.get_location_offset(k))
                 for k in new)
    want = sorted((tuple(sorted(e[0])), -1 if e[1] is None else e[1]) for e in m2[n0:])
    anon = ((), -1)
    if ([x for x in obs if x != anon] != [x for x in want if x != anon]) or obs.count(anon) > want.count(anon):
        probs.append(("%s:imported-locations-differ" % sk, "%s created locations %r, expected %r" % (ctx, obs, want)))
        resync(st)
        return probs
    st.locs = st.locs + new
    st.model = m2[:n0] + [[frozenset(db.get_location_names(k)), db.get_location_offset(k), bool(db.get_location_names(k))] for k in new]
    return probs


def invariant(st):
    db = st.db
    m = st.model
    probs = []
    tag = st.last

    def bad(getter, what):
        probs.append(("probe:%s:after:%s" % (getter, tag), "%s; model %s" % (what, _fmt(m))))

    with warnings.catch_warnings():
        warnings.simplefilter("ignore")
        try:
            db.consistency_check()
        except Exception as e:
            bad("consistency_check", "consistency_check() raised %r; tables: %r %r %r %r" % (
                e, getattr(db, "_loc_key_to_offset", None), getattr(db, "_offset_to_loc_key", None),
                getattr(db, "_loc_key_to_names", None), getattr(db, "_name_to_loc_key", None)))
        try:
            if set(db.loc_keys) != set(st.locs):
                bad("loc_keys", "loc_keys = %r, expected %r" % (sorted(db.loc_keys, key=repr), st.locs))
            for k, e in zip(st.locs, m):
                g = db.get_location_names(k)
                if g != e[0]:
                    bad("get_location_names", "get_location_names(%r) = %r, expected %r" % (k, g, sorted(e[0])))
                g = db.get_location_offset(k)
                if g != e[1]:
                    bad("get_location_offset", "get_location_offset(%r) = %r, expected %r" % (k, g, e[1]))
            for k in st.removed + [_lockey()(DEAD_NUM)]:
                if db.get_location_names(k) or db.get_location_offset(k) is not None:
                    bad("removed-key", "removed/unknown key %r still has names %r offset %r" % (
                        k, sorted(db.get_location_names(k)), db.get_location_offset(k)))
            allnames = set()
            for e in m:
                allnames |= e[0]
            for nm in sorted(set(_CFG["names"]) | allnames | {UNUSED_NAME}):
                i = _find_name(m, nm)
                want = None if i is None else st.locs[i]
                g = db.get_name_location(nm)
                if g != want:
                    bad("get_name_location", "get_name_location(%r) = %r, expected %r" % (nm, g, want))
                wo = None if i is None else m[i][1]
                g = db.get_name_offset(nm)
                if g != wo:
                    bad("get_name_offset", "get_name_offset(%r) = %r, expected %r" % (nm, g, wo))
            alloffs = set(e[1] for e in m if e[1] is not None)
            for off in sorted(set(_CFG["offsets"]) | alloffs | {UNUSED_OFFSET}):
                i = _find_off(m, off)
                want = None if i is None else st.locs[i]
                g = db.get_offset_location(off)
                if g != want:
                    bad("get_offset_location", "get_offset_location(%r) = %r, expected %r" % (off, g, want))
            if sorted(db.names) != sorted(allnames):
                bad("names", "names = %r, expected %r" % (sorted(db.names), sorted(allnames)))
            if sorted(db.offsets) != sorted(alloffs):
                bad("offsets", "offsets = %r, expected %r" % (sorted(db.offsets), sorted(alloffs)))
        except Exception as e:
            bad("getter-raised:%s" % type(e).__name__, "a getter raised %r" % (e,))
    if probs:
        resync(st)
    return probs


def _stale(st):
    """Entries of the private tables that refer to keys which are not live (0 on a healthy object)."""
    db = st.db
    live = set(st.locs)
    n = 0
    for attr in ("_loc_key_to_offset", "_loc_key_to_names"):
        n += sum(1 for k in getattr(db, attr, {}) if k not in live)
    for attr in ("_name_to_loc_key", "_offset_to_loc_key"):
        n += sum(1 for k in getattr(db, attr, {}).values() if k not in live)
    return n


def canon(st):
    return (canon_model(st.model), _stale(st))


def events(st):
    if len(st.model) > _CFG["cap"]:
        # only reachable behind a reported divergence (e.g. a rejected merge that imported half of `other`):
        # the state is outside the bounds, it is checked but not expanded
        return []
    return model_events(st.model, _CFG, _others())


def outcome(st, ev):
    return (st.last, st.result)


SEEDS = [None]


def run(ctx):
    import sys
    global _CFG, _OTHERS
    _CFG = dict(BOUNDS[ctx.tier])
    _OTHERS = None
    others = _others()
    cov = bfs.explore(ctx, sys.modules[__name__], max_depth=10 ** 6, seeds=SEEDS, chunk=2)
    expected = model_closure(_CFG, others)
    cov["fixpoint_reached"] = bool(cov.get("frontier_exhausted"))
    cov["exhaustive"] = bool(cov.get("exhaustive")) and cov["fixpoint_reached"]
    cov["abstract_states_of_model_closure"] = expected
    cov["states_match_model_closure"] = (cov["states"] == expected)
    cov["merge_operands"] = len(others)
    cov["bounds"] = dict(_CFG, fixpoint=True, merge_operands=len(others),
                         note="creation of a location beyond `cap` live locations is disabled; merges whose predicted "
                              "result exceeds the cap are disabled")
    return cov


def replay(case):
    import sys
    return bfs.replay(sys.modules[__name__], SEEDS, case)
