"""C29 - BoundedDict keeps its size and callback contract.

Engine E1 (explicit-state BFS over the real object). One BFS seed per configuration (max_size, min_size, n_init):
the plain constructor, and the constructor with initialdata= holding n_init = 1 .. max_size-1 entries whose keys come
from the same alphabet (the model starts with those entries at use count 1).  The canonical state does not record
how the object was constructed: an initialdata object that is attribute-for-attribute the object built by inserting
the same keys shares that state; one that differs in any attribute (a wrong size bookkeeping ...) is a state of its own
and is explored to the full depth.

Events: set a new key / set a held key (the value changes) / get held / get absent / `in` / del held / del absent /
drop the last reference (destruction, CPython runs __del__ at once).  The deletion callback appends to a log owned by
the harness, so every call is seen together with the event that caused it.

Reference model: ordered dict key -> value plus use counters per held key.  Everything is predicted exactly except
the one place where the property leaves the implementation a choice - *which* keys an insertion at the limit
evicts: there the observed choice is validated and then adopted.

Oracle (the property text, clause by clause)
  * d[k] returns the last value stored, for every held key (the `get` event in every state; `.data` in the probe);
  * len(d) <= max_size in every reached state;
  * the set of held keys only changes (a) by `del` of a held key: exactly that key, (b) by inserting a new key: the
    key may push others out only if the dictionary is at its limit, i.e. holds max_size or max_size-1 keys (the
    implementation evicts when the insertion *reaches* max_size; both readings of "at the limit" are accepted);
  * after an eviction no evicted key was used more than a key that was kept, under at least one admissible
    use-count measure: uses = gets + sets or gets only; counted since the key was inserted, or since the last
    eviction, or since the last insertion at the limit whether or not it pushed a key out (the implementation
    restarts its counters there), with survivors restarted at 0 or at 1.  Ties may fall either way;
  * callback log of the event == exactly one call per key dropped by that event (eviction, del, destruction),
    none for a kept key, none for a del that fails, none for lookups.

Canonical state: configuration + held keys in the object's own order with value and counters + a generic
fingerprint of the object's attributes, all with key names abstracted to order of first appearance (keys are
interchangeable: only equality matters, and dict order is insertion order).  The event menu offers one fresh absent
key (plus every absent key still referenced somewhere inside the object).
"""
import hashlib

from mc import bfs

PROP = "C29"
LEVEL = "model_checking"
ENGINE = "bfs"
RULE = ("BFS over histories of set-new / set-held / get / in / del-held / del-absent / destroy on the real BoundedDict "
        "with a logging delete callback, one seed per (max_size, min_size, number of initialdata entries); a state is distinct by configuration, held "
        "keys (names abstracted) with values, use counters and the object's attribute fingerprint")
LEVEL_TEXT = ("Explicit-state search of every history up to the depth bound, for every configuration max_size in 1..4 x "
              "min_size in {default, 1, 2, max_size} x initialdata of 0..max_size-1 entries, on the real BoundedDict with a reference model in lock step: "
              "returned values, membership, size bound, which keys may leave and when, the most-used rule on every "
              "eviction, and the exact multiset of deletion callbacks of every single event including destruction.")
LEVEL_NOTE = ("Trusted: the reference model below and CPython's immediate refcount destruction. Keys are interchangeable "
              "strings; initialdata= is exercised with 0..max_size-1 entries (more would start above the bound); min_size > max_size is excluded as a meaningless configuration; "
              "`in` is not counted as a use by any accepted measure; iteration helpers inherited from MutableMapping "
              "(items/values/get/pop...) are not exercised.")
TECHNIQUE = "explicit-state BFS over operation histories on the real BoundedDict against a dict + use-counter model"
ASSUMPTIONS = ["behaviour does not depend on key identity beyond equality (key names abstracted in the canonical state)",
               "dropping the last reference runs __del__ immediately (CPython reference counting)"]

KEYS = ["k1", "k2", "k3", "k4", "k5", "k6", "k7", "k8"]
DEPTH = {"quick": 7, "thorough": 10}


def _configs():
    out = []
    for mx in (1, 2, 3, 4):
        seen = set()
        for mn in (None, 1, 2, mx):
            if mn is not None and mn > mx:
                continue
            if mn in seen:
                continue
            seen.add(mn)
            out.append((mx, mn))
    return out


def _seeds():
    """(max_size, min_size, n_init): the plain constructor first (n_init = 0), then every configuration again with
    initialdata= holding 1 .. max_size-1 entries (keys k1..kn of the same alphabet, so later events hit and miss them)."""
    cfgs = _configs()
    out = [(mx, mn, 0) for mx, mn in cfgs]
    for mx, mn in cfgs:
        for n in range(1, mx):
            out.append((mx, mn, n))
    return out


SEEDS = _seeds()

# admissible use-count measures: (scope, restart value of survivors, weight of sets)
MEASURES = [("ins", 0, 1), ("ins", 0, 0),
            ("ev", 1, 1), ("ev", 0, 1), ("ev", 1, 0), ("ev", 0, 0),
            ("rz", 1, 1), ("rz", 0, 1), ("rz", 1, 0), ("rz", 0, 0)]


class Ent(object):
    __slots__ = ("val", "g_ins", "s_ins", "g_ev", "s_ev", "surv", "g_rz", "s_rz", "surv_rz")

    def __init__(self, val):
        self.val = val
        self.g_ins = 0
        self.s_ins = 1
        self.g_ev = 0
        self.s_ev = 1
        self.surv = False
        self.g_rz = 0
        self.s_rz = 1
        self.surv_rz = False

    def measure(self, m):
        scope, restart, w = m
        if scope == "ins":
            return self.g_ins + w * self.s_ins
        if scope == "ev":
            return self.g_ev + w * self.s_ev + (restart if self.surv else 0)
        return self.g_rz + w * self.s_rz + (restart if self.surv_rz else 0)

    def used(self, gets, sets):
        self.g_ins += gets
        self.g_ev += gets
        self.g_rz += gets
        self.s_ins += sets
        self.s_ev += sets
        self.s_rz += sets

    def tup(self):
        return (self.g_ins, self.s_ins, self.g_ev, self.s_ev, self.surv, self.g_rz, self.s_rz, self.surv_rz)


class State(object):
    pass


def cfgcls(cfg, n_init=0):
    mx, mn = cfg
    init = "" if not n_init else (",initialdata=1" if n_init == 1 else ",initialdata>=2")
    if mn is None:
        return "min=default(max//3=%d)%s" % (min(mx // 3, 1), init)
    if mn == mx:
        return "min=max" + init
    if mn == 1:
        return "min=1<max" + init
    return "1<min<max" + init


def make(seed):
    from miasm.core.utils import BoundedDict
    mx, mn, n_init = seed
    st = State()
    st.cfg = (mx, mn)
    st.n_init = n_init
    st.log = []
    st.model = {}          # key -> Ent, insertion order of the model (not significant)
    if n_init:
        init = dict((k, (k, 0)) for k in KEYS[:n_init])
        st.d = BoundedDict(mx, mn, initialdata=init, delete_cb=st.log.append)
        for k in KEYS[:n_init]:
            st.model[k] = Ent((k, 0))       # an initial entry counts as stored once: use count 1
    else:
        st.d = BoundedDict(mx, mn, delete_cb=st.log.append)
    st.alive = True
    st.last = "init"
    st.result = "init"
    return st


def _held(st):
    return list(st.d.keys())


def _referenced(st):
    """Pool keys that appear anywhere inside the object's attributes."""
    found = []

    def walk(o, depth=0):
        if depth > 6:
            return
        if isinstance(o, str):
            if o in KEYS and o not in found:
                found.append(o)
        elif isinstance(o, dict):
            for k, v in o.items():
                walk(k, depth + 1)
                walk(v, depth + 1)
        elif isinstance(o, (list, tuple, set, frozenset)):
            for x in (sorted(o, key=repr) if isinstance(o, (set, frozenset)) else o):
                walk(x, depth + 1)

    walk(_attrs(st.d))
    return found


def _attrs(d):
    try:
        a = vars(d)
    except TypeError:
        return {}
    return dict((k, a[k]) for k in sorted(a) if not callable(a[k]))


def events(st):
    if not st.alive:
        return []
    if len(st.model) > st.cfg[0]:
        # more keys than max_size: reported by the invariant; the state is outside the bounds and is not expanded
        # (a dictionary that keeps growing would otherwise blow the search up behind the defect)
        return []
    evs = []
    held = [k for k in KEYS if k in st.model]
    absent = [k for k in KEYS if k not in st.model]
    ref = _referenced(st)
    offered_absent = [k for k in absent if k in ref]
    fresh = [k for k in absent if k not in ref]
    if fresh:
        offered_absent.append(fresh[0])
    for k in held:
        evs += [("get", k), ("set", k), ("in", k), ("del", k)]
    for k in offered_absent:
        evs += [("set", k), ("get", k), ("in", k), ("del", k)]
    evs.append(("destroy",))
    return evs


def _check_cbs(cbs, dropped, known, where, ctx):
    """cbs: callbacks of this event; dropped: keys that left the dictionary in this event."""
    probs = []
    for k in sorted(set(cbs) | set(dropped)):
        n = cbs.count(k)
        if k in dropped:
            if n == 0:
                probs.append(("%s:dropped-key-without-callback" % where, "%s: key %r was dropped but the callback was not invoked (callbacks: %r)" % (ctx, k, cbs)))
            elif n > 1:
                probs.append(("%s:callback-repeated" % where, "%s: callback invoked %d times for dropped key %r" % (ctx, n, k)))
        elif k in known:
            probs.append(("%s:callback-for-kept-key" % where, "%s: callback invoked for key %r which is still held (callbacks: %r)" % (ctx, k, cbs)))
        else:
            probs.append(("%s:callback-for-key-not-held" % where, "%s: callback invoked for key %r which the dictionary did not hold (callbacks: %r)" % (ctx, k, cbs)))
    return probs


def _resync(st):
    held = _held(st)
    data = getattr(st.d, "data", {})
    new = {}
    for k in held:
        e = st.model.get(k) or Ent(None)
        if k in data:
            e.val = data[k]
        new[k] = e
    st.model = new


def _desc(st):
    return "max_size=%r min_size=%r%s holding {%s}" % (
        st.cfg[0], st.cfg[1], _initdesc(st.n_init),
        ", ".join("%s:uses(g=%d,s=%d)" % (k, e.g_ins, e.s_ins) for k, e in st.model.items()))


def _initdesc(n_init):
    return " initialdata={%s}" % ",".join(KEYS[:n_init]) if n_init else ""


class _After(object):
    def __init__(self, st):
        self.st = st

    def __str__(self):
        return "after %s: %s" % (self.st.last, _desc(self.st))


class _Ctx(object):
    """Witness text, formatted only when a problem is reported (the state before the event is captured cheaply)."""

    def __init__(self, st, ev):
        self.ev = ev
        self.cfg = st.cfg
        self.n_init = st.n_init
        self.ents = [(k, e.g_ins, e.s_ins) for k, e in st.model.items()]

    def __str__(self):
        return "%r on max_size=%r min_size=%r%s holding {%s}" % (
            self.ev, self.cfg[0], self.cfg[1], _initdesc(self.n_init),
            ", ".join("%s:uses(g=%d,s=%d)" % x for x in self.ents))


def apply(st, ev):
    probs = []
    kind = ev[0]
    mx, mn = st.cfg
    cc = cfgcls(st.cfg, st.n_init)
    m = st.model
    n0 = len(st.log)
    ctx = _Ctx(st, ev)

    if kind == "destroy":
        st.last = "destroy"
        import weakref
        held = set(m)
        wr = weakref.ref(st.d)
        st.d = None
        st.alive = False
        if wr() is not None:
            import gc
            gc.collect()
        if wr() is not None:
            probs.append(("harness:object-survived-last-reference", "%s: the object is still referenced" % ctx))
        cbs = st.log[n0:]
        st.result = "cb%d" % len(cbs)
        probs += _check_cbs(cbs, held, held, st.last, ctx)
        st.model = {}
        return probs

    k = ev[1]
    present = k in m
    if kind == "set" and not present:
        # the configuration class matters only where the bounds act: insertion of a new key
        where = "set:new@%s" % cc
    else:
        where = "%s:%s" % (kind, "held" if present else "absent")
    st.last = where
    d = st.d
    raised = None
    got = None
    newval = None
    try:
        if kind == "get":
            got = d[k]
        elif kind == "in":
            got = k in d
        elif kind == "del":
            del d[k]
        elif kind == "set":
            newval = (k, 1 - m[k].val[1]) if present else (k, 0)
            d[k] = newval
    except Exception as e:
        raised = "%s(%s)" % (type(e).__name__, e)
        rtype = type(e).__name__
    del d
    cbs = st.log[n0:]
    held_after = _held(st)
    before_set = set(m)
    after_set = set(held_after)
    st.result = "raise" if raised else "ok"

    def unchanged(label):
        out = []
        if after_set != before_set:
            out.append(("%s:held-keys-changed" % where, "%s: %s changed the held keys to %r" % (ctx, label, sorted(after_set))))
        out.extend(_check_cbs(cbs, set(), before_set, where, ctx))
        return out

    if kind == "in":
        if raised:
            probs.append(("%s:raise:%s" % (where, rtype), "%s raised %s" % (ctx, raised)))
        elif got is not present:
            probs.append(("%s:wrong-answer" % where, "%s returned %r" % (ctx, got)))
        probs += unchanged("`in`")
    elif kind == "get":
        if present:
            if raised:
                probs.append(("%s:raise:%s" % (where, rtype), "%s raised %s" % (ctx, raised)))
            elif got != m[k].val:
                probs.append(("%s:stale-or-wrong-value" % where, "%s returned %r, last value stored is %r" % (ctx, got, m[k].val)))
            m[k].used(1, 0)
        # (what a lookup of an absent key answers is outside the property; it must only be free of side effects)
        probs += unchanged("a lookup")
    elif kind == "del":
        if present:
            if raised:
                probs.append(("%s:raise:%s" % (where, rtype), "%s raised %s" % (ctx, raised)))
                probs += unchanged("a failed del")
            else:
                if after_set != before_set - {k}:
                    probs.append(("%s:held-keys-wrong" % where, "%s left the keys %r" % (ctx, sorted(after_set))))
                probs += _check_cbs(cbs, {k}, before_set, where, ctx)
                m.pop(k, None)
        else:
            st.result = "raise" if raised else "silent"
            # a del of an absent key fails (KeyError) or is ignored; either way nothing was dropped
            probs += unchanged("a del of an absent key (%s)" % (raised or "no exception"))
    elif kind == "set":
        if raised:
            probs.append(("%s:raise:%s" % (where, rtype), "%s raised %s" % (ctx, raised)))
            probs += unchanged("a failed set")
        elif present:
            m[k].val = newval
            m[k].used(0, 1)
            probs += unchanged("updating a held key")
        else:
            universe = before_set | {k}
            extra = after_set - universe
            if extra:
                probs.append(("%s:unknown-keys-appeared" % where, "%s: keys %r appeared" % (ctx, sorted(extra))))
            dropped = universe - after_set
            evicted_old = dropped - {k}
            kept_old = before_set & after_set
            st.result = "evict%d-keep%d" % (len(evicted_old), len(kept_old)) if dropped else "ok"
            if dropped and len(before_set) + 1 < mx:
                probs.append(("%s:eviction-below-the-limit" % where,
                              "%s dropped %r although only %d keys were held" % (ctx, sorted(dropped), len(before_set))))
            probs += _check_cbs(cbs, dropped, universe, where, ctx)
            if evicted_old and kept_old:
                ok = False
                for ms in MEASURES:
                    if min(m[x].measure(ms) for x in kept_old) >= max(m[x].measure(ms) for x in evicted_old):
                        ok = True
                        break
                if not ok:
                    probs.append(("%s:evicted-a-more-used-key" % where,
                                  "%s evicted %r and kept %r: under every admissible use count an evicted key was used "
                                  "more than a kept one" % (ctx, sorted(evicted_old), sorted(kept_old))))
            if k in dropped:
                st.result += "-newkey-dropped"
            for x in dropped:
                m.pop(x, None)
            if dropped:
                for x in kept_old:
                    m[x].surv = True
                    m[x].g_ev = 0
                    m[x].s_ev = 0
            if len(before_set) + 1 >= mx:
                # an insertion at the limit is a "resize point" even when it pushes nothing out
                for x in kept_old:
                    m[x].surv_rz = True
                    m[x].g_rz = 0
                    m[x].s_rz = 0
            if k in after_set:
                m[k] = Ent(newval)
    if probs:
        _resync(st)
    return probs


def invariant(st):
    if not st.alive:
        return []
    probs = []
    d = st.d
    m = st.model
    mx = st.cfg[0]
    tag = st.last
    n0 = len(st.log)
    ctx = _After(st)
    try:
        n = len(d)
        if n > mx:
            probs.append(("len-exceeds-max_size@%s" % cfgcls(st.cfg, st.n_init), "%s: len = %d > max_size = %d (keys %r)" % (ctx, n, mx, _held(st))))
        held = _held(st)
        if n != len(held) or len(set(held)) != len(held):
            probs.append(("probe:len-vs-keys:after:%s" % tag, "%s: len = %d but keys() = %r" % (ctx, n, held)))
        if set(held) != set(m):
            probs.append(("probe:keys:after:%s" % tag, "%s: keys() = %r" % (ctx, held)))
        it = list(iter(d))
        if sorted(it) != sorted(held):
            probs.append(("probe:iter:after:%s" % tag, "%s: iter = %r, keys() = %r" % (ctx, it, held)))
        for k in KEYS:
            if (k in d) != (k in m):
                probs.append(("probe:contains:after:%s" % tag, "%s: (%r in d) = %r" % (ctx, k, k in d)))
        data = getattr(d, "data", None)
        if isinstance(data, dict):
            for k, e in m.items():
                if k in data and data[k] != e.val:
                    probs.append(("probe:data-value:after:%s" % tag, "%s: data[%r] = %r, last value stored %r" % (ctx, k, data[k], e.val)))
    except Exception as e:
        probs.append(("probe:raise:%s:after:%s" % (type(e).__name__, tag), "%s: probe raised %r" % (ctx, e)))
    if len(st.log) != n0:
        probs.append(("probe:callback-during-read:after:%s" % tag, "%s: reads invoked the callback for %r" % (ctx, st.log[n0:])))
    if probs:
        _resync(st)
    return probs


def canon(st):
    if not st.alive:
        return ("dead", st.cfg)
    ren = {}

    def r(k):
        if k not in ren:
            ren[k] = len(ren)
        return ren[k]

    def fp(o, depth=0):
        if isinstance(o, str):
            return ("k", r(o)) if o in KEYS else o
        if isinstance(o, (int, float, bool)) or o is None:
            return o
        if depth > 6:
            return "..."
        if isinstance(o, dict):
            return tuple((fp(a, depth + 1), fp(b, depth + 1)) for a, b in o.items())
        if isinstance(o, (list, tuple)):
            return tuple(fp(x, depth + 1) for x in o)
        if isinstance(o, (set, frozenset)):
            return tuple(sorted((fp(x, depth + 1) for x in sorted(o, key=repr)), key=repr))
        return type(o).__name__

    held = _held(st)
    ents = tuple((r(k), st.model[k].val[1] if k in st.model and st.model[k].val else None,
                  st.model[k].tup() if k in st.model else None) for k in held)
    # 128-bit digest of the canonical tuple: results travel between processes, a short key keeps the master fast
    return hashlib.blake2b(repr((st.cfg, ents, fp(_attrs(st.d)))).encode(), digest_size=16).hexdigest()


def outcome(st, ev):
    return (st.last, st.result)


def run(ctx):
    import sys
    depth = DEPTH[ctx.tier]
    cov = bfs.explore(ctx, sys.modules[__name__], max_depth=depth, seeds=SEEDS, chunk=32)
    cov["bounds"] = {"depth": depth, "keys": KEYS, "configs(max_size,min_size,n_initialdata)": [list(c) for c in SEEDS],
                     "measures(scope,survivor_restart,weight_of_sets)": [list(x) for x in MEASURES]}
    cov["configurations"] = len(SEEDS)
    cov["configurations_with_initialdata"] = sum(1 for c in SEEDS if c[2])
    # how the constructor with initialdata relates to the plain one: a seed whose object is attribute-for-attribute the
    # object obtained by inserting the same keys one by one shares that state (and its whole future) in the search
    same = 0
    for mx, mn, n in SEEDS:
        if n:
            a = make((mx, mn, n))
            b = make((mx, mn, 0))
            for k in KEYS[:n]:
                apply(b, ("set", k))
            same += canon(a) == canon(b)
    cov["initialdata_seeds_identical_to_insertion_built_state"] = same
    return cov


def replay(case):
    import sys
    return bfs.replay(sys.modules[__name__], SEEDS, case)
