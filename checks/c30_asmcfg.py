"""C30 - AsmCFG edges mirror block constraints.

Engine E1 (explicit-state BFS over operation histories on the real AsmCFG / AsmBlock objects).

World: three blocks A, B, C (real AsmBlock objects, rebuilt for every replay because blocks are mutable)
and a location D that never gets a block. Every seed gives the blocks a preset `bto` menu (to / next to each
other, to self, to the absent D, duplicate same-kind constraints). Events, all through the public API:

    addb X            AsmCFG.add_block(X)                      X absent
    delb X            AsmCFG.del_block(X)                      X present
    adde X Y kind     AsmCFG.add_edge(X, Y, kind)              X, Y present blocks (X == Y allowed)
    dele X Y          AsmCFG.del_edge(X, Y)                    (X, Y) an edge the property requires to exist
    mut X i           X.bto = fresh preset i ; rebuild_edges() one atomic event (the documented way to
                      change a block's constraints behind the graph's back)
    rebuild           rebuild_edges()
    merge mode i      g2 = AsmCFG built from sub-history i, then graph.merge(g2); mode "shared": g2 holds the
                      very same block objects (only monotone sub-histories), mode "own": g2 holds its own
                      fresh block objects for the same locations
    copy              graph = graph.copy(); the original must be left untouched

Reference model: the set of present blocks (name -> block object). The required edges / labels / pendings are
a *function* of (present blocks, their real `bto`), which is exactly how the property is phrased, so the
blocks' `bto` is observed, never predicted: the check does not care whether `del_block` drops the constraints
of the predecessors or turns them into pendings - both satisfy the property.

An AssertionError raised by miasm is one of its sanity refusals: the model is then left unchanged and the
invariant must still hold for the unchanged model (a refusal that leaves a half-applied operation behind is
reported through the invariant). Any other exception is reported.
"""
import collections

from mc import bfs

PROP = "C30"
LEVEL = "model_checking"
ENGINE = "bfs"
RULE = ("BFS over histories of add_block/del_block/add_edge/del_edge/(bto mutation+rebuild_edges)/rebuild_edges/merge/copy on a "
        "real AsmCFG over blocks A,B,C (+ absent D) for each preset bto menu; a state is distinct by (present blocks, every "
        "block's bto multiset, the graph's edges/labels/pendings/nodes); states that already violate the invariant are not "
        "expanded further")
LEVEL_TEXT = ("Explicit-state search of every history up to the depth bound over the full mutation API of AsmCFG on three real "
              "blocks whose constraint menus contain self-loops, constraints to an absent location and duplicate same-kind "
              "constraints; after every event the edges, edge labels, pendings (keys and waiters), node set, block table and "
              "the DiGraph successor/predecessor lists are compared with the function of (present blocks, their bto) that the "
              "property states.")
LEVEL_NOTE = ("Trusted: the harness' own bookkeeping of which blocks are present. Not covered: two constraints of different kinds "
              "to the same destination in one block (miasm leaves the label undefined: set iteration order decides), nodes "
              "without a block (add_node/add_edge on unknown locations), more than three blocks, merge of graphs built from "
              "sub-histories longer than the listed menu.")
TECHNIQUE = "explicit-state BFS over operation histories on the real AsmCFG against the edge/pending function stated by the property"
ASSUMPTIONS = ["AsmCFG behaviour depends on block identity/constraints only, not on block contents (blocks have no lines)",
               "an AssertionError is a refusal: legal as long as the graph is left consistent"]

NAMES = ("A", "B", "C")
ALL = ("A", "B", "C", "D")
TO, NEXT = "c_to", "c_next"

# preset bto menus (seed -> block -> list of (kind, destination))
SEEDS = [
    {"A": [(NEXT, "B"), (TO, "C")], "B": [(TO, "B"), (TO, "D")], "C": [(TO, "A"), (TO, "A")]},
    {"A": [(TO, "B")], "B": [], "C": [(NEXT, "D"), (TO, "D"), (TO, "B"), (TO, "B")]},
    {"A": [], "B": [], "C": []},
    {"A": [(TO, "A"), (NEXT, "B")], "B": [(NEXT, "C"), (TO, "A")], "C": [(TO, "D"), (TO, "D"), (NEXT, "C")]},
]

# mutation presets, destinations relative to the mutated block: s = self, n1/n2 = next blocks cyclically, D = absent
MUTS_QUICK = [
    [],
    [(TO, "n1")],
    [(NEXT, "n1")],
    [(TO, "s")],
    [(TO, "D")],
    [(TO, "n1"), (TO, "n1")],
]
MUTS_THOROUGH = MUTS_QUICK + [
    [(NEXT, "n1"), (TO, "n2"), (TO, "D")],
    [(TO, "D"), (TO, "D")],
]

# sub-histories for the merged graph g2. Entries 0..MONO-1 are monotone (no deletion) and are also used with
# shared block objects.
SUBS = [
    [],
    [("addb", "A")],
    [("addb", "B")],
    [("addb", "A"), ("addb", "B")],
    [("addb", "B"), ("addb", "C")],
    [("addb", "A"), ("addb", "B"), ("addb", "C")],
    [("addb", "A"), ("addb", "B"), ("adde", "A", "B", TO)],
    [("addb", "A"), ("addb", "B"), ("adde", "A", "B", NEXT)],
    [("addb", "B"), ("addb", "C"), ("adde", "C", "B", TO)],
    [("addb", "C"), ("adde", "C", "C", NEXT)],
    # non monotone: own blocks only
    [("addb", "A"), ("addb", "B"), ("delb", "A")],
    [("addb", "A"), ("addb", "B"), ("adde", "B", "A", TO), ("dele", "B", "A")],
]
MONO = 10
SUBS_QUICK_OWN = [1, 3, 6, 7, 9, 10]
SUBS_QUICK_SHARED = [3, 6, 8]
SUBS_THOROUGH_OWN = list(range(len(SUBS)))
SUBS_THOROUGH_SHARED = list(range(1, MONO))

_TIER = {"quick": True}


class State(object):
    pass


def _rel(name, rel):
    if rel == "s":
        return name
    if rel == "D":
        return "D"
    i = NAMES.index(name)
    return NAMES[(i + (1 if rel == "n1" else 2)) % 3]


def _mk_blocks(st, menu):
    from miasm.core.asmblock import AsmBlock, AsmConstraint
    blocks = {}
    for n in NAMES:
        b = AsmBlock(st.loc_db, st.lk[n])
        for kind, dst in menu[n]:
            b.bto.add(AsmConstraint(st.lk[dst], kind))
        blocks[n] = b
    return blocks


def make(seed):
    from miasm.core.locationdb import LocationDB
    from miasm.core.asmblock import AsmCFG
    st = State()
    st.menu = seed
    st.seed_idx = SEEDS.index(seed)   # part of the state: 'merge own' builds fresh blocks from the seed's menu
    st.loc_db = LocationDB()
    st.lk = dict((n, st.loc_db.add_location(n)) for n in ALL)
    st.name = dict((v, k) for k, v in st.lk.items())
    st.blocks = _mk_blocks(st, seed)
    st.impl = AsmCFG(st.loc_db)
    st.present = {}
    st.last = "init"
    st.raised = None
    return st


def _bto(st, blk):
    """sorted list of (kind, destination name) of a real block"""
    return sorted((c.c_t, st.name.get(c.loc_key, "?")) for c in blk.bto)


def _expected(st):
    edges = {}
    pend = {}
    for x, blk in st.present.items():
        for kind, dst in _bto(st, blk):
            if dst in st.present:
                edges.setdefault((x, dst), []).append(kind)
            else:
                pend.setdefault(dst, set()).add((x, kind))
    return edges, pend


def events(st):
    if invariant(st):
        return []  # already broken: reported once, not expanded
    quick = _TIER["quick"]
    evs = []
    for x in NAMES:
        evs.append(("delb", x) if x in st.present else ("addb", x))
    pres = [x for x in NAMES if x in st.present]
    for x in pres:
        for y in pres:
            for k in (TO, NEXT):
                evs.append(("adde", x, y, k))
    edges, _ = _expected(st)
    for (x, y) in sorted(edges):
        evs.append(("dele", x, y))
    evs.append(("rebuild",))
    muts = MUTS_QUICK if quick else MUTS_THOROUGH
    for x in pres:
        for i in range(len(muts)):
            evs.append(("mut", x, i))
    for i in (SUBS_QUICK_OWN if quick else SUBS_THOROUGH_OWN):
        evs.append(("merge", "own", i))
    for i in (SUBS_QUICK_SHARED if quick else SUBS_THOROUGH_SHARED):
        evs.append(("merge", "shared", i))
    evs.append(("copy",))
    return evs


def _observe(st, g):
    return (sorted((st.name.get(a, str(a)), st.name.get(b, str(b))) for a, b in g.edges()),
            sorted((st.name.get(a, str(a)), st.name.get(b, str(b)), k) for (a, b), k in g.edges2constraint.items()),
            sorted((st.name.get(d, str(d)), sorted((st.name.get(p.waiter.loc_key, "?"), p.constraint) for p in ps))
                   for d, ps in g.pendings.items()),
            sorted(st.name.get(n, str(n)) for n in g.nodes()))


def _apply_basic(st, g, blocks, ev):
    """apply an add/del block/edge event to graph g over the given block objects (used for g2 as well)"""
    kind = ev[0]
    if kind == "addb":
        g.add_block(blocks[ev[1]])
    elif kind == "delb":
        g.del_block(blocks[ev[1]])
    elif kind == "adde":
        g.add_edge(st.lk[ev[1]], st.lk[ev[2]], ev[3])
    elif kind == "dele":
        g.del_edge(st.lk[ev[1]], st.lk[ev[2]])
    else:
        raise ValueError(ev)


def apply(st, ev):
    from miasm.core.asmblock import AsmCFG, AsmConstraint
    probs = []
    kind = ev[0]
    st.last = kind if kind != "merge" else "merge-" + ev[1]
    st.raised = None
    g = st.impl
    try:
        if kind in ("addb", "delb", "adde", "dele"):
            _apply_basic(st, g, st.blocks, ev)
            if kind == "addb":
                st.present[ev[1]] = st.blocks[ev[1]]
            elif kind == "delb":
                del st.present[ev[1]]
            elif kind == "adde":
                e = (st.lk[ev[1]], st.lk[ev[2]])
                cls = "self-loop" if ev[1] == ev[2] else "plain"
                if e not in g.edges():
                    probs.append(("add_edge:post:edge-absent:%s" % cls, "add_edge(%s,%s,%s) returned but the edge is absent" % ev[1:]))
                elif g.edges2constraint.get(e) != ev[3]:
                    probs.append(("add_edge:post:label:%s" % cls, "add_edge(%s,%s,%s) returned but the label is %r" % (ev[1:] + (g.edges2constraint.get(e),))))
            elif kind == "dele":
                e = (st.lk[ev[1]], st.lk[ev[2]])
                if e in g.edges():
                    probs.append(("del_edge:post:edge-still-present", "del_edge(%s,%s) returned but the edge is still there" % ev[1:]))
        elif kind == "rebuild":
            g.rebuild_edges()
        elif kind == "mut":
            x = ev[1]
            muts = MUTS_THOROUGH
            st.blocks[x].bto = set(AsmConstraint(st.lk[_rel(x, r)], k) for k, r in muts[ev[2]])
            g.rebuild_edges()
        elif kind == "copy":
            before = _observe(st, g)
            g2 = g.copy()
            after = _observe(st, g)
            if before != after:
                probs.append(("copy:original-modified", "copy() changed the original graph: %r -> %r" % (before, after)))
            if g2 is g:
                probs.append(("copy:same-object", "copy() returned the graph itself"))
            st.impl = g2
        elif kind == "merge":
            shared = ev[1] == "shared"
            blocks2 = st.blocks if shared else _mk_blocks(st, st.menu)
            g2 = AsmCFG(st.loc_db)
            built = True
            for e2 in SUBS[ev[2]]:
                try:
                    _apply_basic(st, g2, blocks2, e2)
                except AssertionError:
                    built = False  # g2 itself refused (e.g. conflicting kind on a shared block): event is a no-op
                    st.raised = "g2-build-refused"
                    break
            if built:
                g2_blocks = dict((st.name[b.loc_key], b) for b in g2.blocks)
                try:
                    g.merge(g2)
                finally:
                    # blocks that entered the graph through the merge (also after a refused, partial merge:
                    # the documented "may fail if there is an incompatibility in edges constraints")
                    for n, b in g2_blocks.items():
                        if n not in st.present and g.loc_key_to_block(st.lk[n]) is b:
                            st.present[n] = b
                            st.blocks[n] = b
                for n in g2_blocks:
                    if n not in st.present:
                        probs.append(("merge:block-not-added", "merge() did not add block %s of the merged graph" % n))
    except AssertionError as e:
        st.raised = "AssertionError"
    except Exception as e:
        st.raised = type(e).__name__
        probs.append(("%s:raise:%s" % (st.last, type(e).__name__), "event %r raised %r" % (ev, e)))
    return probs


def invariant(st):
    g = st.impl
    probs = []
    tag = "after-%s%s" % (st.last, "!" + st.raised if st.raised and st.raised != "g2-build-refused" else "")

    def bad(clause, what):
        probs.append(("%s:%s" % (tag, clause), "%s [present=%s bto=%s edges=%s pendings=%s]" % (
            what, sorted(st.present), dict((n, _bto(st, st.blocks[n])) for n in NAMES), obs[0], obs[2])))

    obs = _observe(st, g)
    exp_edges, exp_pend = _expected(st)
    # nodes and block table
    nodes = set(g.nodes())
    for n in ALL:
        lk = st.lk[n]
        blk = g.loc_key_to_block(lk)
        if n in st.present:
            if lk not in nodes:
                bad("nodes:block-without-node", "present block %s is not a node" % n)
            if blk is not st.present[n]:
                bad("blocks:present-block-unknown", "loc_key_to_block(%s) is %r, the block is present" % (n, blk))
        else:
            if lk in nodes:
                bad("nodes:node-without-block", "%s is a node but its block is not in the graph" % n)
            if blk is not None:
                bad("blocks:absent-block-known", "loc_key_to_block(%s) still answers for an absent block" % n)
    if len(list(g.blocks)) != len(st.present):
        bad("blocks:count", "%d blocks listed, %d present" % (len(list(g.blocks)), len(st.present)))
    # edges
    cnt = collections.Counter((st.name.get(a, "?"), st.name.get(b, "?")) for a, b in g.edges())
    for e in sorted(exp_edges):
        if e not in cnt:
            cls = ("self-loop" if e[0] == e[1] else "plain") + ("+dup-constraint" if len(exp_edges[e]) > 1 else "")
            bad("edge-missing:%s" % cls, "constraint %s->%s (%s) has both ends present but no edge" % (e[0], e[1], exp_edges[e]))
    for e in sorted(cnt):
        if e not in exp_edges:
            cls = "src-absent" if e[0] not in st.present else "dst-absent" if e[1] not in st.present else "no-constraint"
            bad("edge-extra:%s" % cls, "edge %s->%s matches no constraint of a present block" % e)
        elif cnt[e] > 1:
            bad("edge-duplicated", "edge %s->%s listed %d times" % (e[0], e[1], cnt[e]))
    for e in sorted(exp_edges):
        if e in cnt:
            lab = g.edges2constraint.get((st.lk[e[0]], st.lk[e[1]]), None)
            if lab not in exp_edges[e]:
                bad("label-wrong" if lab is not None else "label-missing",
                    "edge %s->%s labelled %r, constraint kind(s) %s" % (e[0], e[1], lab, sorted(set(exp_edges[e]))))
    # pendings
    got = {}
    for d, ps in g.pendings.items():
        got[st.name.get(d, "?")] = set((st.name.get(p.waiter.loc_key, "?"), p.constraint,
                                       st.present.get(st.name.get(p.waiter.loc_key, "?")) is p.waiter) for p in ps)
    for d in sorted(exp_pend):
        if d not in got:
            bad("pendings:missing-dst", "absent destination %s of %s is not in pendings" % (d, sorted(exp_pend[d])))
    for d in sorted(got):
        waiters = set((w, k) for (w, k, live) in got[d])
        if d not in exp_pend:
            if d in st.present:
                cls = "dst-present"
            elif any(not live for (_, _, live) in got[d]) or not got[d]:
                cls = "waiter-absent"
            else:
                cls = "no-such-constraint"
            bad("pendings:stale-dst:%s" % cls, "pendings lists %s (waiters %s) but no present block has a constraint to an absent %s" % (d, sorted(waiters), d))
        elif waiters != exp_pend[d] or any(not live for (_, _, live) in got[d]):
            cls = "waiter-absent" if any(not live for (_, _, live) in got[d]) else "waiter-set"
            bad("pendings:waiters-wrong:%s" % cls, "pendings[%s] = %s, expected %s" % (d, sorted(got[d]), sorted(exp_pend[d])))
    # DiGraph successor / predecessor lists
    edges = list(g.edges())
    for n in ALL:
        lk = st.lk[n]
        if sorted(g.successors(lk), key=str) != sorted((b for a, b in edges if a == lk), key=str):
            bad("succ-list", "successors(%s) = %s disagree with edges" % (n, [st.name.get(x) for x in g.successors(lk)]))
        if sorted(g.predecessors(lk), key=str) != sorted((a for a, b in edges if b == lk), key=str):
            bad("pred-list", "predecessors(%s) = %s disagree with edges" % (n, [st.name.get(x) for x in g.predecessors(lk)]))
    return probs


def canon(st):
    return (st.seed_idx, tuple((n in st.present, tuple(_bto(st, st.blocks[n]))) for n in NAMES), repr(_observe(st, st.impl)))


def outcome(st, ev):
    o = _observe(st, st.impl)
    return (st.last, st.raised, len(o[0]), len(o[2]))


def _census(seeds, depth):
    """Plain enumeration (no dedup) of all histories up to `depth`, in process: per-operation counters that make
    vacuity visible (how often each operation ran, was refused, changed the graph)."""
    cnt = collections.Counter()

    def rec(seed, hist, d):
        st = make(seed)
        for e in hist:
            apply(st, e)
        if d == 0:
            return
        for ev in events(st):
            st2 = make(seed)
            for e in hist:
                apply(st2, e)
            before = canon(st2)
            apply(st2, ev)
            k = st2.last
            cnt[k + ":run"] += 1
            if st2.raised:
                cnt[k + ":refused"] += 1
            if canon(st2) != before:
                cnt[k + ":changed-state"] += 1
            rec(seed, hist + [ev], d - 1)
    for s in seeds:
        rec(s, [], depth)
    return dict(cnt)


def _seeds(quick):
    return SEEDS[:3] if quick else SEEDS


def run(ctx):
    import sys
    _TIER["quick"] = ctx.quick
    depth = 4 if ctx.quick else 5
    seeds = _seeds(ctx.quick)
    cov = bfs.explore(ctx, sys.modules[__name__], max_depth=depth, seeds=seeds, chunk=8)
    cov["op_census_depth2"] = _census(seeds, 2)
    cov["bounds"] = {"depth": depth, "blocks": list(NAMES), "absent_destination": "D", "seeds": seeds,
                     "mutation_presets": MUTS_QUICK if ctx.quick else MUTS_THOROUGH,
                     "merge_subhistories_own": [SUBS[i] for i in (SUBS_QUICK_OWN if ctx.quick else SUBS_THOROUGH_OWN)],
                     "merge_subhistories_shared": [SUBS[i] for i in (SUBS_QUICK_SHARED if ctx.quick else SUBS_THOROUGH_SHARED)]}
    return cov


def replay(case):
    import sys
    # a recorded case carries no tier: the event menu only matters for exploration, `apply` accepts the union
    return bfs.replay(sys.modules[__name__], SEEDS, case)
