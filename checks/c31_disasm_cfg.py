"""C31 - recursive disassembly yields a well-formed control-flow graph.

Engine E2 (bounded-exhaustive enumeration of a finite lattice of (program, start, options) triples).

Programs
  Token sequences.  x86_32 tokens (byte lengths fixed, so every token boundary is known before encoding):

      N  NOP (90)                    A  ADD EAX, EDI (01 f8; its 2nd byte decodes as CLC: a jump into the
      R  RET (c3)                       middle of the token gives an overlapping decoding that re-synchronises)
      U  62 (no decoding in miasm)   J  JMP rel8 -> target      Z  JZ rel8 -> target     C  CALL rel32 -> boundary

  A J/Z target is any token boundary 0..n (n = end of the buffer: nothing to decode there) or the *middle*
  (start + 1) of any multi-byte token (including the jump's own rel8 byte and the rel32 of a CALL).
  mips32l tokens (4 bytes each, every instruction has one delay slot): NOP, ADDU, JR RA, ffffffff (no decoding),
  B, BNE, JAL with every token boundary as target (thorough); quick runs the complete family of <= 3 tokens over
  {NOP, JR RA, B, BNE}, which contains every branch-in-delay-slot shape.
  The lattice is `all token sequences of length <= L with at most B branch tokens (J/Z/C)`, for the (L, B)
  pairs listed under `bounds` (the full alphabet at length 5 has 3e7 sequences; the bound on the number of
  branch tokens is what makes the longer lengths enumerable).

Family `runs` (x86_32, both tiers): r = 4..8 NOPs, then k = 2..3 JZ rel8 back into the run - every k-tuple of targets
0..r (all combinations and discovery orders) - then RET, entered at 0 and at r/2: one block receives several mid-block
branch targets, each of which must start a block and be the destination of an edge (I8 / I9).

Start offset: every token boundary 0..n-1 (family start0: offset 0 only).

Options (families; each family is a complete product over the programs it names)
  start0        no option, start offset 0 only (the longest programs)
  default       no option
  single        exactly one of: dont_dis={b} (b any boundary 0..n), split_dis={b}, lines_wd in {1,2},
                blocs_wd in {1,2}, follow_call, dontdis_retcall (the two call options only on programs with a CALL token)
  cross         the full product dont_dis x split_dis x lines_wd x blocs_wd x follow_call x dontdis_retcall
                (call options only varied on programs with a CALL) on the short programs

Oracle (what the property states, nothing else); `ref(o)` is a fresh `mn.dis(bin_stream, attrib, o)`:
  I1  a good block is not empty, its location is the offset of its first line, its lines are consecutive and
      each equals ref(offset) (bytes, length, mnemonic, rendered operands)
  I3  no instruction offset belongs to two blocks
  I4  no decoded instruction starts at a dont_dis address
  I5  a decoded instruction starting at a split_dis address starts its block
  I6  every block has at most lines_wd lines
  I7  at most blocs_wd blocks were disassembled.  Splitting (at branch targets) subdivides disassembled blocks, so
      pieces linked by a contiguous fall-through are glued back before counting (sound: never over-counts)
  I8  every followed branch target that is the offset of a decoded instruction starts a block
  I9  successors: bto destinations == decoded flow destinations (calls only with follow_call) + fall-through
      (absent after RET/JMP, after a call under dontdis_retcall; *may* be absent when the block was cut by
      lines_wd: the engine reports such a cut by leaving the block without fall-through);  the fall-through
      carries c_next, the others c_to;  graph edges == bto destinations that have a block, the others are
      pending; without blocs_wd every destination has a block (good or bad) and nothing is pending
  I10 a bad block sits at a dont_dis address or where ref() fails;  the start offset has a block
  I11 (without lines_wd / blocs_wd) every instruction start reachable from the start offset through decoded flow -
      fall-throughs, followed destinations, delay-slot instructions, a branch sitting in a delay slot (it starts its own
      block), the fall-through after a complete slot - belongs to a block; forbidden / undecodable addresses stop the walk
  I12 bbl_simplifier (x86 only; on mips32 miasm raises "Not implemented yet" for delay slots, counted) : for every
      block surviving the merge, the set of instruction sequences of the paths leaving it (truncated to 6
      instructions, bad blocks / ends / instruction-free cycles marked) is unchanged.  The joining jump that
      `_merge_blocks` removes by design is not an instruction of the path: direct jumps are left out of the
      sequences on both sides.

mips32 delay slots: when a block holds a branch without its full delay slot (cut by an option, by a split at a
branch target or by a second branch in the slot), the property text does not say which of the two pieces
carries the destinations; such blocks and the blocks following them are checked for I1-I8/I10/I11, counted
(`ds_incomplete`), and only the piece-independent part of I9 is demanded of them: no successor besides the branch
destinations and the address following the block, a c_next to that address (except after a lines_wd cut), and every
branch destination carried by the block or by the piece that follows it.
"""
import itertools
import logging

from mc.runner import violation

PROP = "C31"
LEVEL = "exploration"
ENGINE = "enum"
RULE = ("every token sequence up to the length/branch-count bounds over {NOP, 2-byte ALU, RET, undecodable byte, JMP/JZ rel8 to "
        "every token boundary and every mid-token address, CALL rel32 to every boundary} (x86_32) and the delay-slot alphabet "
        "(mips32l: thorough, and in quick every sequence of <= 3 tokens over {NOP, JR RA, B, BNE}), every start boundary, plus runs "
        "of 4-8 one-byte instructions followed by 2-3 conditional jumps back into the run (every target tuple), option families default / every single option / full option product on the "
        "short programs; a case is non-trivial when the resulting graph has at least two blocks or a bad block or was cut by an "
        "option; every (program, start, options) triple is enumerated once (distinct by construction), the number of distinct "
        "resulting graph shapes is reported per shard")
LEVEL_TEXT = ("Bounded-exhaustive: every program of the token lattice is disassembled by the real engine from every start boundary "
              "under every option combination of the stated families, and the returned AsmCFG is compared, block by block, with "
              "fresh single-instruction decodings and with the successor/limit rules the property states; the merge pass is run "
              "on every returned graph and path instruction sequences are compared before/after.")
LEVEL_NOTE = ("Trusted: mn.dis as the single-instruction decoder (C14-C17 check it), the harness' union-find/path enumeration. "
              "Under blocs_wd the engine itself picks which pending destination it disassembles first by iterating a set of constraint "
              "objects (identity hashes), so the descriptive counters (bad_blocks, pending, ds_incomplete, shapes) can differ by a few "
              "units between runs on mips32; every outcome is checked against the same rules and the verdict does not depend on it. "
              "Not covered: programs with more branch tokens than the bound, dont_dis/split_dis sets with two or more addresses, "
              "dont_dis_retcall_funcs, dont_dis_nulstart_bloc, dis_block_callback, other architectures, successor exactness "
              "around incomplete mips32 delay slots (ambiguous in the property), merging on delay-slot architectures "
              "(miasm raises 'Not implemented yet').")
TECHNIQUE = "bounded-exhaustive enumeration of token programs x starts x engine options against per-block decoding and successor rules"
ASSUMPTIONS = ["mn.dis at an offset is the reference decoding of that offset",
               "a call destination is a flow destination only under follow_call; the return address is a fall-through unless dontdis_retcall",
               "the instruction removed by _merge_blocks (the direct jump joining the merged blocks) is not part of a path's instruction sequence"]

KINDS = "NARUJZC"          # simplest first
# token kinds used per (tier, architecture); default: all
KIND_SUBSET = {("quick", "mips32l"): "NRJZ"}
BRANCH = "JZC"
PATH_K = 6

ARCHS = {
    "x86_32": {"machine": "x86_32", "len": dict(N=1, A=2, R=1, U=1, J=2, Z=2, C=5), "mids": True},
    "mips32l": {"machine": "mips32l", "len": dict(N=4, A=4, R=4, U=4, J=4, Z=4, C=4), "mids": False},
}

DEFAULT_OPTS = {"dont_dis": [], "split_dis": [], "lines_wd": None, "blocs_wd": None, "follow_call": False,
                "dontdis_retcall": False}

# bounds: per tier, per arch: family -> list of (length, max branch tokens)
BOUNDS = {
    "quick": {
        "x86_32": {"start0": [],
                   "default": [(1, 1), (2, 2), (3, 2), (4, 1), (5, 0)],
                   "single": [(1, 1), (2, 2), (3, 1)],
                   "cross": [(1, 1), (2, 0)]},
        # small complete delay-slot family: every sequence of <= 3 tokens over {NOP, JR RA, B, BNE} (every boundary
        # as target), i.e. every branch-in-delay-slot shape, from every start
        "mips32l": {"start0": [], "default": [(1, 1), (2, 2), (3, 3)], "single": [(1, 1), (2, 2)], "cross": []},
    },
    "thorough": {
        "x86_32": {"start0": [(6, 1)],
                   "default": [(1, 1), (2, 2), (3, 3), (4, 2), (5, 1), (6, 0)],
                   "single": [(1, 1), (2, 2), (3, 2), (4, 1)],
                   "cross": [(1, 1), (2, 2), (3, 0)]},
        "mips32l": {"start0": [],
                    "default": [(1, 1), (2, 2), (3, 3), (4, 2), (5, 1), (6, 0)],
                    "single": [(1, 1), (2, 2), (3, 2), (4, 0)],
                    "cross": [(1, 1), (2, 2), (3, 0)]},
    },
}


# family `runs` (x86_32, both tiers): a straight-line run of r one-byte instructions, then k conditional jumps back into
# the run (every k-tuple of targets 0..r, i.e. every combination and every discovery order, the first jump's own
# address included), then RET; entered at 0 and in the middle of the run.  One disassembled block receives several
# mid-block branch targets.
RUNS = {"run_lengths": (4, 5, 6, 7, 8), "jumps": (2, 3)}


def run_programs(r, k):
    for targets in itertools.product(range(r + 1), repeat=k):
        yield (("N",),) * r + tuple(("Z", "b", t) for t in targets) + (("R",),)


# ------------------------------------------------------------------------------------------------
# programs

def skeletons(n, maxbr, kinds=KINDS):
    for sk in itertools.product(kinds, repeat=n):
        if sum(1 for k in sk if k in BRANCH) <= maxbr:
            yield sk


def target_menu(arch, sk, kind):
    n = len(sk)
    menu = [("b", k) for k in range(n + 1)]
    if kind != "C" and ARCHS[arch]["mids"]:
        ln = ARCHS[arch]["len"]
        menu += [("m", j) for j in range(n) if ln[sk[j]] >= 2]
    return menu


def programs_of(arch, sk):
    """Every program (list of tokens) with kind skeleton @sk"""
    slots = []
    for k in sk:
        if k in BRANCH:
            slots.append([(k,) + t for t in target_menu(arch, sk, k)])
        else:
            slots.append([(k,)])
    return itertools.product(*slots)


def n_programs_of(arch, sk):
    c = 1
    for k in sk:
        if k in BRANCH:
            c *= len(target_menu(arch, sk, k))
    return c


def layout(arch, prog):
    ln = ARCHS[arch]["len"]
    offs = [0]
    for t in prog:
        offs.append(offs[-1] + ln[t[0]])
    return offs


def encode(arch, prog):
    """-> (bytes, token boundaries (n+1 offsets))"""
    offs = layout(arch, prog)
    out = b""
    for i, t in enumerate(prog):
        k = t[0]
        here = offs[i]
        if k in BRANCH:
            tgt = offs[t[2]] if t[1] == "b" else offs[t[2]] + 1
        if arch == "x86_32":
            if k == "N":
                out += b"\x90"
            elif k == "A":
                out += b"\x01\xf8"
            elif k == "R":
                out += b"\xc3"
            elif k == "U":
                out += b"\x62"
            elif k == "J":
                out += b"\xeb" + bytes([(tgt - (here + 2)) & 0xff])
            elif k == "Z":
                out += b"\x74" + bytes([(tgt - (here + 2)) & 0xff])
            elif k == "C":
                out += b"\xe8" + ((tgt - (here + 5)) & 0xffffffff).to_bytes(4, "little")
        else:
            if k == "N":
                w = 0
            elif k == "A":
                w = 0x00431021            # ADDU V0, V0, V1
            elif k == "R":
                w = 0x03e00008            # JR RA
            elif k == "U":
                w = 0xffffffff
            elif k == "J":
                w = 0x10000000 | (((tgt - (here + 4)) >> 2) & 0xffff)      # B
            elif k == "Z":
                w = 0x14430000 | (((tgt - (here + 4)) >> 2) & 0xffff)      # BNE V0, V1
            elif k == "C":
                w = 0x0c000000 | ((tgt >> 2) & 0x3ffffff)                   # JAL
            out += w.to_bytes(4, "little")
    return out, offs


def prog_str(prog):
    return " ".join(t[0] if len(t) == 1 else "%s>%s%d" % (t[0], t[1], t[2]) for t in prog)


# ------------------------------------------------------------------------------------------------
# option families

def has_call(prog):
    return any(t[0] == "C" for t in prog)


def opts_single(prog, offs):
    out = []
    for b in offs:
        out.append({"dont_dis": [b]})
    for b in offs:
        out.append({"split_dis": [b]})
    out += [{"lines_wd": 1}, {"lines_wd": 2}, {"blocs_wd": 1}, {"blocs_wd": 2}]
    if has_call(prog):
        out += [{"follow_call": True}, {"dontdis_retcall": True}]
    return out


def opts_cross(prog, offs):
    dd = [[]] + [[b] for b in offs]
    call = [(False, False), (True, False), (False, True), (True, True)] if has_call(prog) else [(False, False)]
    out = []
    for d in dd:
        for s in dd:
            for lw in (None, 1, 2):
                for bw in (None, 1, 2):
                    for fc, dr in call:
                        o = {}
                        if d:
                            o["dont_dis"] = d
                        if s:
                            o["split_dis"] = s
                        if lw is not None:
                            o["lines_wd"] = lw
                        if bw is not None:
                            o["blocs_wd"] = bw
                        if fc:
                            o["follow_call"] = True
                        if dr:
                            o["dontdis_retcall"] = True
                        out.append(o)
    return out


def full_opts(o):
    d = dict(DEFAULT_OPTS)
    d.update(o)
    return d


def opts_tag(o):
    names = sorted(k for k in o if o[k] != DEFAULT_OPTS[k])
    return "+".join(names) if names else "default"


# ------------------------------------------------------------------------------------------------
# miasm access

_M = {}


def _machine(arch):
    if arch not in _M:
        import warnings
        warnings.simplefilter("ignore")
        from miasm.analysis.machine import Machine
        _M[arch] = Machine(ARCHS[arch]["machine"])
        import miasm.core.asmblock as _ab
        _ab.log_asmblock.setLevel(logging.CRITICAL + 1)
    return _M[arch]


class Ref(object):
    """Fresh single-instruction decodings of one buffer (memoised per offset)"""

    def __init__(self, arch, buf):
        from miasm.core.bin_stream import bin_stream_str
        from miasm.core.locationdb import LocationDB
        self.m = _machine(arch)
        self.buf = buf
        self.bs = bin_stream_str(buf)
        self.loc_db = LocationDB()
        self.cache = {}

    def at(self, off):
        if off in self.cache:
            return self.cache[off]
        r = None
        if 0 <= off < len(self.buf):
            try:
                ins = self.m.mn.dis(self.bs, self.m.dis_engine.attrib, off)
            except Exception:
                ins = None
            if ins is not None:
                br, sp, ds, sc = bool(ins.breakflow()), bool(ins.splitflow()), bool(ins.dstflow()), bool(ins.is_subcall())
                dests = ()
                if ds:
                    ins.dstflow2label(self.loc_db)
                    dests = tuple(sorted(self.loc_db.get_location_offset(e.loc_key)
                                         for e in ins.getdstflow(self.loc_db) if e.is_loc()))
                r = {"l": ins.l, "b": bytes(ins.b), "name": ins.name, "text": ins.to_string(self.loc_db),
                     "br": br, "sp": sp, "ds": ds, "sc": sc, "dests": dests, "slot": int(ins.delayslot)}
        self.cache[off] = r
        return r


def snapshot(cfg, loc_db):
    from miasm.core.asmblock import AsmBlockBad
    blocks = {}
    dup = []
    for blk in cfg.blocks:
        off = loc_db.get_location_offset(blk.loc_key)
        bad = isinstance(blk, AsmBlockBad)
        lines = [] if bad else [(int(i.offset), int(i.l), bytes(i.b), i.name, i.to_string(loc_db)) for i in blk.lines]
        bto = sorted((c.c_t, loc_db.get_location_offset(c.loc_key)) for c in blk.bto)
        gs = sorted((loc_db.get_location_offset(s), cfg.edges2constraint.get((blk.loc_key, s))) for s in cfg.successors(blk.loc_key))
        rec = {"off": off, "bad": bad, "errno": blk.errno if bad else None, "lines": lines, "bto": bto, "gsucc": gs}
        if off in blocks:
            dup.append(off)
        blocks[off] = rec
    nodes = sorted(loc_db.get_location_offset(n) for n in cfg.nodes())
    pend = sorted(loc_db.get_location_offset(k) for k in cfg.pendings)
    return {"blocks": blocks, "nodes": nodes, "pend": pend, "dup": dup}


def run_engine(arch, buf, start, opts):
    from miasm.core.bin_stream import bin_stream_str
    from miasm.core.locationdb import LocationDB
    m = _machine(arch)
    loc_db = LocationDB()
    kw = {k: (list(v) if isinstance(v, (list, tuple)) else v) for k, v in opts.items() if v != DEFAULT_OPTS[k]}
    mdis = m.dis_engine(bin_stream_str(buf), loc_db=loc_db, **kw)
    cfg = mdis.dis_multiblock(start)
    return cfg, loc_db


# ------------------------------------------------------------------------------------------------
# oracle

def _flow_index(lines, ref):
    """index of the first flow instruction of a block, or None"""
    for i, ln in enumerate(lines):
        r = ref.at(ln[0])
        if r is not None and r["br"]:
            return i
    return None


def _is_jump(r):
    return r is not None and r["br"] and r["ds"] and not r["sc"]


def check_snapshot(arch, snap, ref, start, opts):
    """-> list of (sig detail, what)"""
    out = []
    blocks = snap["blocks"]
    dont, split = set(opts["dont_dis"]), set(opts["split_dis"])
    lw, bw = opts["lines_wd"], opts["blocs_wd"]
    fc, dr = opts["follow_call"], opts["dontdis_retcall"]

    def bad(detail, what):
        out.append((detail, what))

    if snap["dup"]:
        bad("two-blocks-same-location", "two blocks share location(s) %r" % snap["dup"])
    if start not in blocks:
        bad("no-block-at-start", "no block at the start offset %#x" % start)

    owner = {}
    first = {}
    info = {}
    for off in sorted(blocks):
        b = blocks[off]
        if b["bad"]:
            r = ref.at(off)
            if off not in dont and r is not None:
                bad("bad-block-unjustified:errno%s" % b["errno"], "bad block (errno %s) at %#x which decodes as %s and is not forbidden"
                    % (b["errno"], off, r["text"]))
            continue
        lines = b["lines"]
        if not lines:
            bad("empty-block", "good block at %#x has no line" % off)
            continue
        if lines[0][0] != off:
            bad("location-not-first-line", "block located at %#x starts with the instruction at %#x" % (off, lines[0][0]))
        first[lines[0][0]] = off
        for i, (o, l, bts, name, text) in enumerate(lines):
            if i and o != lines[i - 1][0] + lines[i - 1][1]:
                bad("not-consecutive", "block %#x: instruction at %#x follows the one at %#x of length %d"
                    % (off, o, lines[i - 1][0], lines[i - 1][1]))
            r = ref.at(o)
            if r is None:
                bad("decoded-where-ref-fails", "block %#x holds %r at %#x where single decoding fails" % (off, text, o))
            elif (l, bts, name, text) != (r["l"], r["b"], r["name"], r["text"]):
                bad("differs-from-single-decoding", "block %#x at %#x: %r len %d bytes %s, single decoding gives %r len %d bytes %s"
                    % (off, o, text, l, bts.hex(), r["text"], r["l"], r["b"].hex()))
            if o in owner:
                bad("offset-in-two-blocks", "instruction offset %#x belongs to blocks %#x and %#x" % (o, owner[o], off))
            owner[o] = off
            if o in dont:
                bad("forbidden-decoded", "instruction %r decoded at the dont_dis address %#x (block %#x)" % (text, o, off))
            if o in split and i:
                bad("split-dis-not-block-start", "split_dis address %#x is line %d of block %#x" % (o, i, off))
        if lw is not None and len(lines) > lw:
            bad("lines-wd-exceeded", "block %#x has %d lines, lines_wd=%d" % (off, len(lines), lw))
        k = _flow_index(lines, ref)
        end = lines[-1][0] + lines[-1][1]
        fr = ref.at(lines[k][0]) if k is not None else None
        nslot = len(lines) - 1 - k if k is not None else 0
        info[off] = {"k": k, "end": end, "fr": fr, "nslot": nslot,
                     "complete": k is not None and nslot == fr["slot"], "n": len(lines)}
        if k is not None and nslot > fr["slot"]:
            bad("continues-after-flow", "block %#x continues %d instruction(s) after %r (delay slot %d)"
                % (off, nslot, fr["text"], fr["slot"]))

    # glue relation: P -> B when P has no complete flow instruction, P.c_next == B, contiguous
    glue_pred = {}
    for off, inf in info.items():
        if inf["complete"]:
            continue
        for (ct, d) in blocks[off]["bto"]:
            if ct == "c_next" and d == inf["end"] and d in info:
                glue_pred.setdefault(d, []).append(off)

    # I7 block count
    if bw is not None:
        parent = {o: o for o in blocks}

        def find(x):
            while parent[x] != x:
                parent[x] = parent[parent[x]]
                x = parent[x]
            return x
        for d, ps in glue_pred.items():
            for p in ps:
                parent[find(p)] = find(d)
        comps = len(set(find(o) for o in blocks))
        if comps > bw:
            bad("blocs-wd-exceeded", "%d separately disassembled blocks (%s), blocs_wd=%d"
                % (comps, ", ".join("%#x" % o for o in sorted(blocks)), bw))

    # I8 branch targets start blocks
    for o, boff in sorted(owner.items()):
        r = ref.at(o)
        if r is None or not (r["br"] and r["ds"]) or (r["sc"] and not fc):
            continue
        for t in r["dests"]:
            if t in owner and t not in first:
                bad("target-inside-block:%s" % ("call" if r["sc"] else "jump"),
                    "%r at %#x targets %#x which is an instruction inside block %#x, not a block start"
                    % (r["text"], o, t, owner[t]))

    def cut_ok(off, need, depth=0):
        """may block @off have been cut by lines_wd: some glued chain ending in it has exactly lines_wd lines"""
        need -= info[off]["n"]
        if need == 0:
            return True
        if need < 0 or depth > 4:
            return False
        return any(cut_ok(p, need, depth + 1) for p in glue_pred.get(off, []))

    # delay-slot ambiguity: blocks holding a flow instruction without its whole slot, and their glued successors
    ambiguous = set()
    for off, inf in info.items():
        if inf["k"] is not None and not inf["complete"] and inf["nslot"] < inf["fr"]["slot"]:
            ambiguous.add(off)
            for (ct, d) in blocks[off]["bto"]:
                if ct == "c_next":
                    ambiguous.add(d)

    # I11 reachability: every instruction start reachable from the start offset through decoded flow (delay slots,
    # followed destinations, fall-throughs) belongs to a block.  Only without lines_wd / blocs_wd (they cut arbitrarily).
    if lw is None and bw is None:
        reach = set()
        todo = [start]
        while todo:
            o = todo.pop()
            if o in reach or o in dont:
                continue
            r = ref.at(o)
            if r is None:
                continue
            reach.add(o)
            if not r["br"]:
                todo.append(o + r["l"])
                continue
            if r["ds"] and (not r["sc"] or fc):
                todo.extend(r["dests"])
            # delay slots: executed whatever the branch does; a flow instruction in a slot starts its own block
            nxt = o + r["l"]
            complete = True
            for _ in range(r["slot"]):
                rs = ref.at(nxt)
                if rs is None or nxt in dont:
                    complete = False
                    break
                if rs["br"]:
                    todo.append(nxt)
                    complete = False
                    break
                reach.add(nxt)
                nxt += rs["l"]
            if complete and r["sp"] and not (r["sc"] and dr):
                todo.append(nxt)
        for o in sorted(reach - set(owner)):
            bad("reachable-instruction-in-no-block", "%r at %#x is reachable from %#x through decoded flow but belongs to no block"
                % (ref.at(o)["text"], o, start))

    # I9 successors
    nds = 0
    for off, inf in sorted(info.items()):
        b = blocks[off]
        actual = {}
        for ct, d in b["bto"]:
            actual.setdefault(d, set()).add(ct)
        if any(len(v) > 1 for v in actual.values()):
            bad("succ:two-constraints-same-destination", "block %#x bto %r" % (off, b["bto"]))
        if off in ambiguous:
            nds += 1
            if inf["k"] is not None and not inf["complete"]:
                # a flow instruction without its whole delay slot.  Which piece carries the destinations is left open,
                # but (a) nothing else may be a successor, (b) the rest of the slot is linked by c_next (except after a
                # lines_wd cut), (c) the destinations are carried by this block or by the piece that follows it
                fr, end = inf["fr"], inf["end"]
                to = set(fr["dests"]) if (fr["ds"] and (not fr["sc"] or fc)) else set()
                got = set(actual)
                for d in sorted(got - to - {end}):
                    bad("succ:extra:delay-slot-cut", "block %#x (flow %s, end %#x): unexpected successor %#x, bto=%r"
                        % (off, fr["text"], end, d, b["bto"]))
                if end not in got and not (lw is not None and cut_ok(off, lw)):
                    bad("succ:missing-fallthrough:delay-slot-cut", "block %#x ends inside the delay slot of %s but has no "
                        "c_next to %#x, bto=%r" % (off, fr["text"], end, b["bto"]))
                tail = blocks.get(end)
                carried = got | (set(d for _, d in tail["bto"]) if tail is not None else set())
                for d in sorted(to - carried):
                    bad("succ:missing-flow-destination:delay-slot-cut", "destination %#x of %s (block %#x) is carried neither by "
                        "the block nor by the piece at %#x" % (d, fr["text"], off, end))
        else:
            fr, end = inf["fr"], inf["end"]
            may_miss = False
            if inf["k"] is not None:
                to = set(fr["dests"]) if (fr["ds"] and (not fr["sc"] or fc)) else set()
                nxt = {end} if (fr["sp"] and not (fr["sc"] and dr)) else set()
                cls = "call" if fr["sc"] else ("jcc" if fr["sp"] else ("jump" if fr["ds"] else "ret"))
            else:
                to, nxt, cls = set(), {end}, "open"
                may_miss = lw is not None and cut_ok(off, lw)
            want = to | nxt
            got = set(actual)
            missing, extra = want - got, got - want
            if may_miss:
                missing -= nxt
            for d in sorted(missing):
                kind = "fallthrough" if d in nxt else "flow-destination"
                bad("succ:missing-%s:%s" % (kind, cls), "block %#x (last flow %s, end %#x): successor %#x missing, bto=%r"
                    % (off, fr["text"] if fr else None, end, d, b["bto"]))
            for d in sorted(extra):
                bad("succ:extra:%s" % cls, "block %#x (last flow %s, end %#x): unexpected successor %#x, bto=%r"
                    % (off, fr["text"] if fr else None, end, d, b["bto"]))
            for d in sorted(got & want):
                wt = "c_next" if d in nxt else "c_to"
                if actual[d] != {wt}:
                    bad("succ:constraint-kind:%s" % cls, "block %#x: successor %#x carries %s, expected %s"
                        % (off, d, sorted(actual[d]), wt))
        # graph edges mirror bto
        wantg = sorted((d, ct) for ct, d in b["bto"] if d in blocks)
        if sorted(b["gsucc"]) != wantg:
            bad("graph:edges-differ-from-bto", "block %#x: graph successors %r, bto with a block %r" % (off, b["gsucc"], wantg))
        for ct, d in b["bto"]:
            if d not in blocks:
                if d not in snap["pend"]:
                    bad("graph:missing-destination-not-pending", "block %#x: destination %#x has no block and is not pending" % (off, d))
                if bw is None:
                    bad("succ:destination-never-disassembled", "block %#x: destination %#x has no block (no blocs_wd)" % (off, d))
    for n in snap["nodes"]:
        if n not in blocks:
            bad("graph:node-without-block", "graph node %r has no block" % n)
    return out, nds


def path_sets(snap, ref, starts):
    blocks = snap["blocks"]
    res = {}
    for s in starts:
        out = set()
        stack = [(s, (), frozenset())]
        while stack:
            off, seq, seen = stack.pop()
            b = blocks.get(off)
            if b is None:
                out.add(seq + (("NOBLOCK", off),))
                continue
            if b["bad"]:
                out.add(seq + (("BAD", off),))
                continue
            key = (off, len(seq))
            if key in seen:
                out.add(seq + ("LOOP",))
                continue
            seq2 = seq + tuple(ln[0] for ln in b["lines"] if not _is_jump(ref.at(ln[0])))
            if len(seq2) >= PATH_K:
                out.add(seq2[:PATH_K])
                continue
            succ = [d for d, _ in b["gsucc"]]
            if not succ:
                out.add(seq2 + ("END",))
                continue
            for d in succ:
                stack.append((d, seq2, seen | {key}))
        res[s] = out
    return res


def check_merge(arch, cfg, loc_db, snap, ref):
    """-> (violations [(detail, what)], status)"""
    from miasm.core.asmblock import bbl_simplifier
    good = [o for o, b in snap["blocks"].items() if not b["bad"]]
    before = path_sets(snap, ref, good)
    try:
        g2 = bbl_simplifier(cfg)
    except RuntimeError as e:
        if "Not implemented yet" in str(e):
            return [], "unimplemented"
        return [("merge:raise:RuntimeError", "bbl_simplifier raised %r" % (e,))], "raise"
    except Exception as e:
        return [("merge:raise:%s" % type(e).__name__, "bbl_simplifier raised %r" % (e,))], "raise"
    snap2 = snapshot(g2, loc_db)
    out = []
    for o in snap2["blocks"]:
        if o not in snap["blocks"]:
            out.append(("merge:new-block", "merged graph has a block at %#x that the original had not" % o))
    keep = [o for o in good if o in snap2["blocks"]]
    after = path_sets(snap2, ref, keep)
    for o in sorted(keep):
        if before[o] != after[o]:
            lost = sorted(before[o] - after[o], key=repr)[:2]
            new = sorted(after[o] - before[o], key=repr)[:2]
            out.append(("merge:paths-differ", "paths from block %#x: lost %r, new %r" % (o, lost, new)))
            break
    merged = len(snap["blocks"]) - len(snap2["blocks"])
    return out, ("merged" if merged else "same")


def evaluate(arch, prog, start, o, ref=None, stats=None):
    """Run one (program, start, options) case. -> list of violation records"""
    buf, offs = encode(arch, prog)
    if ref is None:
        ref = Ref(arch, buf)
    opts = full_opts(o)
    case = {"arch": arch, "prog": [list(t) for t in prog], "start": start, "opts": o}
    tag = opts_tag(opts)
    desc = "%s [%s] bytes=%s start=%#x opts=%r" % (arch, prog_str(prog), buf.hex(), start, o)
    try:
        cfg, loc_db = run_engine(arch, buf, start, opts)
    except Exception as e:
        return [violation("%s:dis_multiblock:raise:%s:opts=%s" % (arch, type(e).__name__, tag), "%s raised %r" % (desc, e), case)]
    snap = snapshot(cfg, loc_db)
    found, nds = check_snapshot(arch, snap, ref, start, opts)
    mv, mstat = check_merge(arch, cfg, loc_db, snap, ref)
    found += mv
    if stats is not None:
        nb = len(snap["blocks"])
        nbad = sum(1 for b in snap["blocks"].values() if b["bad"])
        cut = bool(snap["pend"]) or (opts["lines_wd"] is not None and any(
            len(b["lines"]) == opts["lines_wd"] for b in snap["blocks"].values()))
        ov = _overlap(snap)
        stats["n"] += 1
        stats["nontrivial"] += 1 if (nb >= 2 or nbad or cut) else 0
        stats["bad_blocks"] += nbad
        stats["cut_by_limit"] += 1 if cut else 0
        stats["overlapping_decodings"] += 1 if ov else 0
        stats["ds_incomplete"] += nds
        stats["merge_" + mstat] += 1
        stats["pending"] += 1 if snap["pend"] else 0
        stats["shapes"].add(_shape(snap))
    seen = set()
    vs = []
    for detail, what in found:
        sig = "%s:%s:opts=%s" % (arch, detail, tag)
        if sig in seen:
            continue
        seen.add(sig)
        vs.append(violation(sig, "%s: %s" % (desc, what), case))
    return vs


def _overlap(snap):
    spans = sorted((ln[0], ln[0] + ln[1]) for b in snap["blocks"].values() for ln in b["lines"])
    return any(a[1] > b[0] for a, b in zip(spans, spans[1:]))


def _shape(snap):
    return hash(tuple((o, b["bad"], len(b["lines"]), tuple(b["bto"])) for o, b in sorted(snap["blocks"].items())))


# ------------------------------------------------------------------------------------------------
# sharding

def families_for(tier, arch, n, nbr):
    fams = []
    for fam, lst in BOUNDS[tier][arch].items():
        for (L, B) in lst:
            if L == n and nbr <= B:
                fams.append(fam)
    return fams


def cases_of(tier, arch, prog):
    """Every (start, opts) of the families @prog belongs to (deduplicated, deterministic order)"""
    n = len(prog)
    nbr = sum(1 for t in prog if t[0] in BRANCH)
    fams = families_for(tier, arch, n, nbr)
    offs = layout(arch, prog)
    optl = []
    if "cross" in fams:
        optl = opts_cross(prog, offs)        # contains default and every single
    else:
        if "default" in fams:
            optl.append({})
        if "single" in fams:
            optl += opts_single(prog, offs)
    if not optl:
        if "start0" in fams:
            yield 0, {}
        return
    for s in offs[:-1]:
        for o in optl:
            yield s, o


def _new_stats():
    st = {k: 0 for k in ("n", "nontrivial", "bad_blocks", "cut_by_limit", "overlapping_decodings", "ds_incomplete",
                         "merge_merged", "merge_same", "merge_unimplemented", "merge_raise", "pending", "programs")}
    st["shapes"] = set()
    return st


def _shard_runs(args):
    _, arch, r, k, idx, nsh = args
    st = _new_stats()
    vs = []
    sample = None
    for i, prog in enumerate(run_programs(r, k)):
        if i % nsh != idx:
            continue
        buf, offs = encode(arch, prog)
        ref = Ref(arch, buf)
        st["programs"] += 1
        for s0 in (0, r // 2):
            res = evaluate(arch, prog, s0, {}, ref, st)
            if res and len(vs) < 400:
                vs += res
        if sample is None and idx == 0 and len(set(t[2] for t in prog if t[0] == "Z")) == k:
            sample = {"arch": arch, "program": prog_str(prog), "bytes": buf.hex()}
    shapes = st.pop("shapes")
    st["distinct_graph_shapes_in_shard"] = len(shapes)
    st["run_family_evaluations"] = st["n"]
    return st, vs, sample


def _shard(args):
    if args[0] == "runs":
        return _shard_runs(args)
    tier, arch, n, maxbr, idx, nsh = args
    kinds = KIND_SUBSET.get((tier, arch), KINDS)
    st = _new_stats()
    vs = []
    sample = None
    for i, sk in enumerate(skeletons(n, maxbr, kinds)):
        if i % nsh != idx:
            continue
        for prog in programs_of(arch, sk):
            buf, offs = encode(arch, prog)
            ref = Ref(arch, buf)
            st["programs"] += 1
            for s, o in cases_of(tier, arch, prog):
                r = evaluate(arch, prog, s, o, ref, st)
                if r and len(vs) < 400:
                    vs += r
            if sample is None and sum(1 for t in prog if t[0] in BRANCH) == maxbr and idx == 0:
                sample = {"arch": arch, "program": prog_str(prog), "bytes": buf.hex()}
    shapes = st.pop("shapes")
    st["distinct_graph_shapes_in_shard"] = len(shapes)
    return st, vs, sample


def run(ctx):
    tier = "quick" if ctx.quick else "thorough"
    shards = []
    for arch in BOUNDS[tier]:
        _machine(arch)          # import miasm before the pool forks ...
    import gc
    gc.collect()
    gc.freeze()                 # ... and keep the collector of the workers away from the inherited heap (copy-on-write storms)
    for arch, fams in BOUNDS[tier].items():
        lens = {}
        for lst in fams.values():
            for (L, B) in lst:
                lens[L] = max(lens.get(L, 0), B)
        for L, B in sorted(lens.items()):
            nsk = sum(1 for _ in skeletons(L, B, KIND_SUBSET.get((tier, arch), KINDS)))
            nsh = max(1, min(nsk, 16 if L <= 3 else (64 if L <= 4 else 256)))
            shards += [(tier, arch, L, B, i, nsh) for i in range(nsh)]
    for r in RUNS["run_lengths"]:
        for k in RUNS["jumps"]:
            nsh = 2 if k == 2 else 8
            shards += [("runs", "x86_32", r, k, i, nsh) for i in range(nsh)]
    res = ctx.pmap(_shard, shards)
    tot = {}
    samples = []
    for st, vs, sample in res:
        for k, v in st.items():
            tot[k] = tot.get(k, 0) + v
        ctx.add_violations(vs)
        if sample and len(samples) < 6:
            samples.append(sample)
    cov = {
        "evaluations": tot.pop("n"),
        "distinct_nontrivial": tot.pop("nontrivial"),
        "samples": samples,
        "exhaustive": True,
        "bounds": {"tier": tier, "families(length,max_branch_tokens)": BOUNDS[tier], "path_truncation": PATH_K,
                   "x86_alphabet": "N A R U J>(b0..n|mid) Z>(b0..n|mid) C>b0..n", "mips_alphabet": "N A R U J>b Z>b C>b",
                   "token_kind_subsets": {"%s/%s" % k: v for k, v in KIND_SUBSET.items()},
                   "runs_family": dict(RUNS, starts="0 and mid-run", targets="every tuple over 0..r", arch="x86_32")},
    }
    cov.update(tot)
    return cov


def replay(case):
    prog = tuple(tuple(t) for t in case["prog"])
    return evaluate(case["arch"], prog, case["start"], dict(case["opts"]))
