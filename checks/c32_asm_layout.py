"""C32 - the assembler lays out programs at their pinned addresses.

Engine E2 (bounded-exhaustive enumeration of a finite lattice of (program text, pinned labels, destination interval)).

Programs
  A text is `f` free blocks followed by one chain of `c` blocks linked by fall-through; every block has a label
  (f0.., c0..).  Block bodies (x86_32 spelling; the other architectures use their equivalents, see ARCHS):

      N   NOP                       D   .long <ref>            (data directive referencing a label)
      N3  NOP NOP NOP               Z   JZ <ref>               (falls through; rel8 or rel32 form by distance)
      DZ  .long <ref> ; JZ <ref>    (the data word refers to a label that moves when the JZ of its own block settles)
      J   JMP <ref>   (ends a chain; rel8 or rel32 form by distance)          R   NOP ; RET   (ends a chain)

  free block in {J, R}; inner chain block in {N, D, Z, DZ} (quick: N, D, DZ); last chain block in {N, D, J}.  <ref> of block i is the
  label of block (i + 1) mod m in text order for instructions and of block (i + 2) mod m for data words (thorough: also
  "every reference names the first label"); distances are controlled by the pins.
  mips32: every branch is followed by its delay slot NOP and a terminating body by `.split` (parse_txt otherwise
  links the delay slot of an unconditional jump to the next label).

Pins: every subset of <= K labels (so every position of the chain: head, middle, tail, and free blocks).  One pin: the
address is BASE or the lowest aligned non-zero address (blocks lying before a pinned middle/tail block would need
negative addresses there).  Two/three pins: the first pinned label (text order) sits at BASE, the others take every
value of a 6-value menu of BASE-relative addresses (equal, adjacent, overlapping by one unit, exactly contiguous for the
common body sizes, before BASE, far away: the far value forces the long branch forms on x86).

Family `windows` (x86_32): f = 2..3 free blocks `.long <ref> ; .split` and a chain of `.long <ref>` blocks (every block
has exactly the size the assembler reserves), the chain pinned at each of its positions; dst_interval is made of two
windows - the chain's bytes plus room for exactly one free block, and room for the others elsewhere - or (kind `hole`) one
window with the last free block pinned so that the hole after the chain holds exactly one free block: placing the second
un-pinned chain must see that the first one filled the hole.

Family `data` (x86_32): data directives over label expressions - a table of bare labels, `label + 1`, `label - label` -
naming labels that lie after a block whose reserved size shrinks during assembly (NOP, JZ), placed at the head of the chain,
in a free descriptor block (`.split`) and after the shrinking block; no pin, each single pin, and descriptor + chain both
pinned.  Oracle: every element equals its expression evaluated at the final label addresses.

Family `literal` (x86_32 and arml, both tiers): blocks `NOP ; <literal bytes> ; <branch to a label>` where the literal is
.ascii / .string text of 1, 2, 5 bytes (4 and 8 on arml) or - as contrast - a .byte list of the same kind of length; the
branch is a conditional one to the following label or an unconditional one back to the first label; no pin and each
single pin.  Oracle: the literal bytes are emitted as written and the branch, decoded at its final offset behind the
literal, targets the label's final address.

dst_interval in {None, roomy, tight, tight-1}: tight is the hull of the most compact layout the reference search finds,
roomy adds 0x80 bytes of slack on both sides (the assembler reserves the *longest* encoding of every instruction while it
places chains, so only a roomy interval exercises "patches stay inside the interval" on successful runs).

Reference model / feasibility: brute force.  For every choice of encoding of every size-variable instruction and every
placement of the un-pinned chains (all positions when the interval is small, else positions adjacent to what is already
placed or to the interval ends), a layout is a *witness* when pinned labels sit at their addresses, chain neighbours are
contiguous, chains are pairwise disjoint, inside the interval, non-negative, aligned, and every chosen encoding can
reach its target.  Success is demanded only when a witness exists (the search is incomplete only towards "unknown").

Oracle, exactly the property:
  * witness exists  =>  asm_resolve_final returns (any exception is a violation);
  * whenever patches are returned: every pinned label has its address, patches are pairwise disjoint and inside
    dst_interval, every block's bytes sit at its label's final offset, blocks linked by fall-through are contiguous,
    and decoding the patched image from each label reproduces the block's instructions (mnemonic; non-label operands
    as written) with every label operand / data word equal to the referenced label's final offset; no patch lies outside
    the blocks.
"""
import copy
import itertools
import logging
import re

from mc.runner import violation

PROP = "C32"
LEVEL = "exploration"
ENGINE = "enum"
RULE = ("every text of f free blocks + a fall-through chain of c blocks with bodies from {NOP xk, JMP/JZ label, .long label, RET}, "
        "every subset of <=K pinned labels (every chain position) with addresses from a 6-value relative menu, dst_interval in "
        "{None, roomy, tight, tight-1}; plus (x86_32) the `windows` family: 2-3 exactly-sized free blocks next to a pinned chain with a "
        "two-window dst_interval / a pinned neighbour leaving a hole for exactly one of them, and the `data` family: directives over "
        "label expressions (bare table, label+k, label-label) before / beside / after a block whose size shrinks, and the `literal` "
        "family (x86_32, arml): NOP ; .ascii/.string/.byte bytes ; pc-relative branch to a label in one block; non-trivial = at least one pin or a "
        "bounded interval; distinct by (text, pins, interval)")
LEVEL_TEXT = ("Bounded-exhaustive: every program of the lattice is parsed by parse_txt, pinned through the LocationDB and assembled by "
              "asm_resolve_final; feasibility is decided by an independent brute-force layout search that exhibits a witness layout, "
              "and returned patches are checked byte-wise (placement, disjointness, interval, contiguity, re-decoding with label "
              "operands resolved).")
LEVEL_NOTE = ("Trusted: mn.dis for re-decoding, the brute-force layout search (it only ever claims feasibility with a verified "
              "witness). Not covered: alignment directives, more than one chain of length > 1, programs whose labels are "
              "referenced by arithmetic expressions, AArch64/PPC/MeP, `conservative` re-assembly of disassembled code.")
TECHNIQUE = "bounded-exhaustive enumeration of small assembly programs x pin sets x destination intervals against a brute-force layout model"
ASSUMPTIONS = ["pyparsing's packrat memoisation (enabled for speed) does not change what the instruction grammar accepts or builds",
               "a block without terminating instruction falls through to the next label of the text",
               "any encoding that reaches its target is acceptable (the property does not prescribe the short form)",
               "misaligned pins on aligned architectures are outside the lattice"]

BASE = 0x100
ROOM = 0x80              # slack on both sides of the compact layout for the "roomy" interval
UPDATE_LIMIT = 64        # label-offset updates tolerated during one assembly (terminating runs of the lattice need < 20)


class Diverges(Exception):
    """asmblock_final keeps moving labels: the fixed point is not reached within UPDATE_LIMIT offset updates"""


def _guard(loc_db, counter):
    orig = loc_db.set_location_offset

    def counted(loc_key, offset, force=False):
        counter[0] += 1
        if counter[0] > UPDATE_LIMIT:
            raise Diverges("more than %d label offset updates" % UPDATE_LIMIT)
        return orig(loc_key, offset, force)
    loc_db.set_location_offset = counted

# element: ("i", template, decoded mnemonic, uses label, [(size, reach)])  |  ("d", template, size)
# reach: None = always, "rel8" = signed 8-bit displacement from the end of the instruction


def _i(t, name, lab=False, sizes=None):
    return ("i", t, name, lab, sizes)


ARCHS = {
    "x86_32": {
        "machine": "x86_32", "attrib": 32, "align": 1, "split": False,
        "menu": [0, 1, 2, 5, -4, 0x100], "low": 1,
        "items": {
            "N": [_i("NOP", "NOP", sizes=[(1, None)])],
            "N3": [_i("NOP", "NOP", sizes=[(1, None)])] * 3,
            "D": [("d", ".long {ref}", 4)],
            "Z": [_i("JZ {ref}", "JZ", True, [(2, "rel8"), (6, None)])],
            "J": [_i("JMP {ref}", "JMP", True, [(2, "rel8"), (5, None)])],
            "R": [_i("NOP", "NOP", sizes=[(1, None)]), _i("RET", "RET", sizes=[(1, None)])],
        },
    },
    "arml": {
        "machine": "arml", "attrib": "l", "align": 4, "split": False,
        "menu": [0, 4, 8, 12, -4, 0x100], "low": 4,
        "items": {
            "N": [_i("MOV R0, R0", "MOV", sizes=[(4, None)])],
            "N3": [_i("MOV R0, R0", "MOV", sizes=[(4, None)])] * 3,
            "D": [("d", ".long {ref}", 4)],
            "Z": [_i("BEQ {ref}", "BEQ", True, [(4, None)])],
            "J": [_i("B {ref}", "B", True, [(4, None)])],
            "R": [_i("MOV R0, R0", "MOV", sizes=[(4, None)]), _i("BX LR", "BX", sizes=[(4, None)])],
        },
    },
    "mips32l": {
        "machine": "mips32l", "attrib": "l", "align": 1, "split": True,
        "menu": [0, 4, 8, 12, -4, 0x100], "low": 4,
        "items": {
            "N": [_i("NOP", "NOP", sizes=[(4, None)])],
            "N3": [_i("NOP", "NOP", sizes=[(4, None)])] * 3,
            "D": [("d", ".long {ref}", 4)],
            "Z": [_i("BEQ A0, ZERO, {ref}", "BEQ", True, [(4, None)]), _i("NOP", "NOP", sizes=[(4, None)])],
            "J": [_i("J {ref}", "J", True, [(4, None)]), _i("NOP", "NOP", sizes=[(4, None)])],
            "R": [_i("JR RA", "JR", sizes=[(4, None)]), _i("NOP", "NOP", sizes=[(4, None)])],
        },
    },
    "msp430": {
        "machine": "msp430", "attrib": None, "align": 1, "split": False,
        "menu": [0, 2, 4, 6, -2, 0x80], "low": 2,
        "items": {
            "N": [_i("mov.w R4, R4", "mov.w", sizes=[(2, None)])],
            "N3": [_i("mov.w R4, R4", "mov.w", sizes=[(2, None)])] * 3,
            "D": [("d", ".word {ref}", 2)],
            "Z": [_i("jz {ref}", "jz", True, [(2, None)])],
            "J": [_i("jmp {ref}", "jmp", True, [(2, None)])],
            "R": [_i("mov.w R4, R4", "mov.w", sizes=[(2, None)]), _i("mov.w @SP+, PC", "mov.w", sizes=[(2, None)])],
        },
    },
}
for _a in ARCHS.values():
    _a["items"]["DZ"] = _a["items"]["D"] + _a["items"]["Z"]     # data word then a size-variable branch in one block
    _a["items"]["S"] = _a["items"]["D"]      # data word followed by `.split`: a chain end whose size the assembler knows exactly
# data directives holding label *expressions*: ("x", template over {x} {y}, size, [value names]); the labels x, y are
# named by prog["xy"].  The "...s" variants end with `.split` (a free descriptor block).
X_ITEMS = {"DT": (".long {x}, {y}", ["x", "y"]),            # table of bare labels
           "DP": (".long {y} + 1", ["y+1"]),                # label + constant
           "DM": (".long {y} - {x}", ["y-x"])}              # difference of two labels
X_VALUES = {"x": lambda x, y: x, "y": lambda x, y: y, "y+1": lambda x, y: y + 1, "y-x": lambda x, y: y - x}
for _k, (_t, _v) in X_ITEMS.items():
    ARCHS["x86_32"]["items"][_k] = [("x", _t, 4 * len(_v), _v)]
    ARCHS["x86_32"]["items"][_k + "s"] = [("x", _t, 4 * len(_v), _v)]
XS = tuple(k + "s" for k in X_ITEMS)
# literal-byte lines inside a block: ("l", directive, size, bytes).  Kind "L<lit><b>" = NOP ; <literal> ; <branch b> with b
# in Z (conditional, falls through) / J (unconditional): the branch is assembled behind the literal, in the same block.
# The .byte list is the contrast case (an expression-list directive of the same length).
LITS = {"x86_32": [("A1", '.ascii "A"', b"A"), ("A2", '.ascii "AB"', b"AB"), ("S5", '.string "ABCD"', b"ABCD\x00"),
                   ("B2", ".byte 1, 2", b"\x01\x02")],
        "arml": [("A4", '.ascii "ABCD"', b"ABCD"), ("S4", '.string "ABC"', b"ABC\x00"), ("A8", '.ascii "ABCDEFGH"', b"ABCDEFGH"),
                 ("B4", ".byte 1, 2, 3, 4", b"\x01\x02\x03\x04")]}
LIT_KINDS = {}
for _arch, _lits in LITS.items():
    for _n, _t, _b in _lits:
        for _br in ("Z", "J"):
            _k = "L%s%s" % (_n, _br)
            ARCHS[_arch]["items"][_k] = ARCHS[_arch]["items"]["N"] + [("l", _t, len(_b), _b)] + ARCHS[_arch]["items"][_br]
            LIT_KINDS.setdefault(_arch, []).append(_k)
TERM = ("J", "R", "S") + XS + tuple(k for ks in LIT_KINDS.values() for k in ks if k.endswith("J"))


def _windows(itv):
    """None | (lo, hi) | ((lo, hi), (lo, hi), ...)  ->  None | list of (lo, hi)"""
    if not itv:
        return None
    if isinstance(itv[0], int):
        return [tuple(itv)]
    return [tuple(w) for w in itv]
PLACEMENT_REFUSALS = ("Chain-placed-out-of-destination-interval", "Cannot-find-enough-space-to-place-blocks")

# tier -> arch -> parameters
BOUNDS = {
    "quick": {
        "x86_32": {"structures": [(1, 0), (2, 0), (3, 0), (1, 1), (2, 1)], "inner": ["N", "D", "DZ"], "last": ["N", "D", "J"],
                   "free": ["J", "R"], "refs": ["next"], "max_pins": 2, "pair_intervals": ["none", "roomy", "tight"],
                   "windows": {"structures": [(1, 2), (2, 2), (1, 3), (2, 3)]}, "data": True, "literal": True},
        # the fixed-width target of the `literal` family only
        "arml": {"structures": [], "inner": [], "last": [], "free": [], "refs": ["next"], "max_pins": 1, "pair_intervals": [],
                 "literal": True},
    },
    "thorough": {
        "x86_32": {"structures": [(1, 0), (2, 0), (3, 0), (1, 1), (2, 1), (3, 1), (1, 2), (2, 2)],
                   "inner": ["N", "D", "Z", "DZ"], "last": ["N", "D", "J"], "free": ["J", "R"], "refs": ["next", "first"],
                   "max_pins": 3, "pair_intervals": ["none", "roomy", "tight", "tight-1"],
                   "windows": {"structures": [(1, 2), (2, 2), (3, 2), (1, 3), (2, 3), (3, 3)]}, "data": True, "literal": True},
        "arml": {"structures": [(1, 0), (2, 0), (3, 0), (1, 1), (2, 1), (3, 1)], "inner": ["N", "D", "Z"], "last": ["N", "D", "J"],
                 "free": ["J", "R"], "refs": ["next"], "max_pins": 2, "pair_intervals": ["none", "roomy", "tight"], "literal": True},
        "mips32l": {"structures": [(1, 0), (2, 0), (3, 0), (1, 1), (2, 1), (3, 1)], "inner": ["N", "D", "Z"], "last": ["N", "D", "J"],
                    "free": ["J", "R"], "refs": ["next"], "max_pins": 2, "pair_intervals": ["none", "roomy", "tight"]},
        "msp430": {"structures": [(1, 0), (2, 0), (3, 0), (1, 1), (2, 1), (3, 1)], "inner": ["N", "D", "Z"], "last": ["N", "D", "J"],
                   "free": ["J", "R"], "refs": ["next"], "max_pins": 2, "pair_intervals": ["none", "roomy", "tight"]},
    },
}


# ------------------------------------------------------------------------------------------------
# programs

def programs(arch, par):
    """-> list of programs; a program = {"arch", "bodies": [kind per block in text order], "nfree", "ref"}"""
    out = []
    for (c, f) in par["structures"]:
        for ref in par["refs"]:
            if ref == "first" and c + f == 1:
                continue
            for fb in itertools.product(par["free"], repeat=f):
                for inner in itertools.product(par["inner"], repeat=c - 1):
                    for last in par["last"]:
                        out.append({"arch": arch, "bodies": list(fb) + list(inner) + [last], "nfree": f, "ref": ref})
    if "windows" in par:
        out += window_programs(arch, par["windows"])
    if par.get("data"):
        out += data_programs(arch)
    if par.get("literal"):
        out += literal_programs(arch)
    return out


def labels_of(prog):
    f = prog["nfree"]
    return ["f%d" % i for i in range(f)] + ["c%d" % i for i in range(len(prog["bodies"]) - f)]


def ref_of(prog, i, data=False):
    """Index of the block whose label block @i references: instructions the next label (cyclically), data words the
    label after it (so that a data word can refer to a label no instruction of its block refers to)"""
    m = len(prog["bodies"])
    if prog["ref"] == "first":
        return 0
    return (i + (2 if data else 1)) % m


def text_of(prog):
    a = ARCHS[prog["arch"]]
    labs = labels_of(prog)
    lines = []
    for i, kind in enumerate(prog["bodies"]):
        lines.append("%s:" % labs[i])
        for el in a["items"][kind]:
            if el[0] == "x":
                lines.append("    " + el[1].format(x=labs[prog["xy"][0]], y=labs[prog["xy"][1]]))
            elif el[0] == "l":
                lines.append("    " + el[1])
            else:
                lines.append("    " + el[1].format(ref=labs[ref_of(prog, i, el[0] == "d")]))
        if kind in TERM and (a["split"] or kind == "S" or kind in XS) and i + 1 < len(prog["bodies"]):
            lines.append(".split")
    return "\n".join(lines) + "\n"


def model_chains(prog):
    """Maximal runs of blocks linked by fall-through (text order)"""
    chains = [[0]]
    for i in range(1, len(prog["bodies"])):
        if prog["bodies"][i - 1] in TERM:
            chains.append([i])
        else:
            chains[-1].append(i)
    return chains


# ------------------------------------------------------------------------------------------------
# reference layout search

def _variable_slots(prog):
    a = ARCHS[prog["arch"]]
    slots = []
    for bi, kind in enumerate(prog["bodies"]):
        for ei, el in enumerate(a["items"][kind]):
            if el[0] == "i" and len(el[4]) > 1:
                slots.append((bi, ei, el[4]))
    return slots


def _block_sizes(prog, choice_of):
    a = ARCHS[prog["arch"]]
    sizes = []
    for bi, kind in enumerate(prog["bodies"]):
        s = []
        for ei, el in enumerate(a["items"][kind]):
            if el[0] in ("d", "x", "l"):
                s.append(el[2])
            else:
                s.append(el[4][choice_of.get((bi, ei), 0)][0])
        sizes.append(s)
    return sizes


def search(prog, pins, itv):
    """Best (most compact) witness layout, or None.
    @pins: {block index: address}; @itv: None, (lo, hi) inclusive, or a tuple of such windows.
    -> {"addr": [block start], "sizes": [[element sizes]], "lo", "hi"}"""
    a = ARCHS[prog["arch"]]
    align = a["align"]
    chains = model_chains(prog)
    slots = _variable_slots(prog)
    wins = _windows(itv)
    best = None
    for choice in itertools.product(*[range(len(s[2])) for s in slots]):
        choice_of = {(s[0], s[1]): c for s, c in zip(slots, choice)}
        esz = _block_sizes(prog, choice_of)
        bsz = [sum(s) for s in esz]
        csz = [sum(bsz[b] for b in ch) for ch in chains]
        inner = {}
        for ch in chains:
            o = 0
            for b in ch:
                inner[b] = o
                o += bsz[b]
        placed = {}
        ok = True
        for ci, ch in enumerate(chains):
            bases = set(pins[b] - inner[b] for b in ch if b in pins)
            if len(bases) > 1:
                ok = False
                break
            if bases:
                base = bases.pop()
                if base < 0 or base % align:
                    ok = False
                    break
                placed[ci] = base
        if not ok:
            continue
        free = [ci for ci in range(len(chains)) if ci not in placed]

        def disjoint(pl):
            spans = sorted((pl[ci], pl[ci] + csz[ci]) for ci in pl)
            return all(x[1] <= y[0] for x, y in zip(spans, spans[1:]))

        def inside(pl):
            if wins is None:
                return True
            return all(any(w[0] <= pl[ci] and pl[ci] + csz[ci] - 1 <= w[1] for w in wins) for ci in pl)

        if not disjoint(placed) or not inside(placed):
            continue

        def candidates(pl, s):
            if wins is not None and len(wins) == 1 and wins[0][1] - wins[0][0] < 64:
                cs = range(wins[0][0], wins[0][1] - s + 2)
            else:
                cs = set()
                for ci in pl:
                    cs.add(pl[ci] + csz[ci])
                    cs.add(pl[ci] - s)
                for w in wins or []:
                    if len(wins) > 1 and w[1] - w[0] < 64:
                        cs.update(range(w[0], w[1] - s + 2))
                    else:
                        cs.add(w[0])
                        cs.add(w[1] - s + 1)
                if not pl and wins is None:
                    cs.add(BASE)
                cs = sorted(cs)
            return [p for p in cs if p >= 0 and p % align == 0]

        def finish(pl):
            nonlocal best
            addr = [None] * len(prog["bodies"])
            for ci, ch in enumerate(chains):
                for b in ch:
                    addr[b] = pl[ci] + inner[b]
            # every chosen encoding reaches its target
            for (bi, ei, variants), c in zip(slots, choice):
                size, reach = variants[c]
                if reach == "rel8":
                    at = addr[bi] + sum(esz[bi][:ei])
                    disp = addr[ref_of(prog, bi)] - (at + size)
                    if not -128 <= disp <= 127:
                        return
            lo = min(pl[ci] for ci in pl)
            hi = max(pl[ci] + csz[ci] - 1 for ci in pl)
            key = (hi - lo, lo, tuple(addr))
            if best is None or key < best[0]:
                best = (key, {"addr": addr, "sizes": esz, "lo": lo, "hi": hi})

        def rec(pl, todo):
            if not todo:
                finish(pl)
                return
            for ci in todo:
                rest = [x for x in todo if x != ci]
                for p in candidates(pl, csz[ci]):
                    pl2 = dict(pl)
                    pl2[ci] = p
                    if disjoint(pl2) and inside(pl2):
                        rec(pl2, rest)

        rec(placed, free)
    return best[1] if best else None


# ------------------------------------------------------------------------------------------------
# cases of one program

def pin_sets(prog, par):
    a = ARCHS[prog["arch"]]
    m = len(prog["bodies"])
    out = [{}]
    for i in range(m):
        out.append({i: BASE})
        out.append({i: a["low"]})
    if par["max_pins"] >= 2:
        for i, j in itertools.combinations(range(m), 2):
            for d in a["menu"]:
                out.append({i: BASE, j: BASE + d})
    if par["max_pins"] >= 3:
        for i, j, k in itertools.combinations(range(m), 3):
            for d1 in a["menu"]:
                for d2 in a["menu"]:
                    if d1 != d2:
                        out.append({i: BASE, j: BASE + d1, k: BASE + d2})
    return out


def window_programs(arch, wpar):
    """Programs of the two-window / small-hole family: @f free blocks `.long ; .split` and a chain of @c `.long` blocks -
    every block has exactly the size the assembler reserves for it, so an exact-fit hole is decided by placement alone"""
    return [{"arch": arch, "bodies": ["S"] * f + ["D"] * c, "nfree": f, "ref": "next", "fam": "windows"}
            for (c, f) in wpar["structures"]]


def cases_windows(prog):
    """Several un-pinned chains next to pinned ones, holes that hold exactly one of them:
      windows  the chain is pinned (at each of its positions) at BASE-relative addresses; dst_interval = the chain's bytes
               plus room for exactly ONE free block right after it, and a second window elsewhere for the others
      hole     additionally the last free block is pinned so that the hole between the chain and it holds exactly one
               free block; dst_interval = one window ending exactly after room for the remaining free blocks"""
    a = ARCHS[prog["arch"]]
    f = prog["nfree"]
    sz = [sum(el[2] if el[0] in ("d", "x", "l") else el[4][0][0] for el in a["items"][k]) for k in prog["bodies"]]
    chain = list(range(f, len(sz)))
    csize = sum(sz[b] for b in chain)
    out = []
    for p in chain:
        base = BASE - sum(sz[b] for b in chain if b < p)      # chain start when block p sits at BASE
        wins = ((base, base + csize + sz[0] - 1), (base + 0x40, base + 0x40 + (f - 1) * sz[0] - 1))
        pins = {p: BASE}
        out.append((pins, "windows", wins, search(prog, pins, wins)))
        if f >= 3:
            pins = {p: BASE, f - 1: base + csize + sz[0]}
            win = (base, base + csize + sz[0] + sz[f - 1] + (f - 2) * sz[0] - 1)
            out.append((pins, "hole", win, search(prog, pins, win)))
    return out


def data_programs(arch):
    """Data directives over label expressions next to an instruction whose reserved size shrinks (NOP 3 -> 1, JZ 15 -> 2):
    the directive K in {DT bare table, DP label + 1, DM label - label} names labels x, y lying after the shrinking block M,
      head   K | M | N        the directive heads the chain (it stays put when the chain is pinned at its head or floats)
      free   Ks || M | N | N  the directive is a free descriptor block (`.split`), pinned or floating
      mid    M | K | N        the directive follows the shrinking block (it moves with its labels)"""
    out = []
    for k in X_ITEMS:
        for m in ("N", "Z"):
            out.append({"arch": arch, "bodies": [k, m, "N"], "nfree": 0, "ref": "next", "fam": "data", "xy": [1, 2]})
            out.append({"arch": arch, "bodies": [k + "s", m, "N", "N"], "nfree": 1, "ref": "next", "fam": "data", "xy": [2, 3]})
            out.append({"arch": arch, "bodies": [m, k, "N"], "nfree": 0, "ref": "next", "fam": "data", "xy": [0, 2]})
    return out


def literal_programs(arch):
    """A literal-bytes line (.ascii / .string of 1, 2, 5 bytes; 4 and 8 on the fixed-width target) or, as contrast, a .byte
    list, followed IN THE SAME BLOCK by a pc-relative branch to a label:
      L..Z | N     NOP ; literal ; conditional branch forward to the next label
      N | L..J     NOP ; literal ; unconditional branch back to the first label"""
    out = []
    for k in LIT_KINDS.get(arch, []):
        if k.endswith("Z"):
            out.append({"arch": arch, "bodies": [k, "N"], "nfree": 0, "ref": "next", "fam": "literal"})
        else:
            out.append({"arch": arch, "bodies": ["N", k], "nfree": 0, "ref": "next", "fam": "literal"})
    return out


def cases_literal(prog):
    pinsets = [{}] + [{i: BASE} for i in range(len(prog["bodies"]))]
    return [(pins, "none", None, search(prog, pins, None)) for pins in pinsets]


def cases_data(prog):
    m = len(prog["bodies"])
    pinsets = [{}] + [{i: BASE} for i in range(m)]
    if prog["nfree"]:
        pinsets += [{0: BASE, 1: BASE + 0x20}, {0: BASE + 0x20, 1: BASE}]
    return [(pins, "none", None, search(prog, pins, None)) for pins in pinsets]


def cases_of(prog, par):
    """-> list of (pins, interval kind, interval or None, witness or None)"""
    if prog.get("fam") == "windows":
        return cases_windows(prog)
    if prog.get("fam") == "data":
        return cases_data(prog)
    if prog.get("fam") == "literal":
        return cases_literal(prog)
    out = []
    for pins in pin_sets(prog, par):
        w = search(prog, pins, None)
        kinds = ["none", "roomy", "tight", "tight-1"] if len(pins) <= 1 else par["pair_intervals"]
        for kind in kinds:
            if kind == "none":
                out.append((pins, kind, None, w))
            elif w is not None:
                if kind == "roomy":
                    itv = (max(0, w["lo"] - ROOM), w["hi"] + ROOM)
                elif kind == "tight":
                    itv = (w["lo"], w["hi"])
                else:
                    itv = (w["lo"], w["hi"] - 1)
                if itv[1] < itv[0]:
                    continue
                out.append((pins, kind, itv, w if kind != "tight-1" else search(prog, pins, itv)))
    return out


# ------------------------------------------------------------------------------------------------
# miasm access

_M = {}
_LAST_UPDATES = [0]


def _machine(arch):
    if arch not in _M:
        import warnings
        warnings.simplefilter("ignore")
        import pyparsing
        # memoising recursive-descent parser: same grammar, same results, 4-8x faster instruction parsing
        # (parse_txt spends > 100 ms on one `JMP label` without it)
        pyparsing.ParserElement.enablePackrat()
        from miasm.analysis.machine import Machine
        _M[arch] = Machine(ARCHS[arch]["machine"])
        import miasm.core.asmblock as _ab
        _ab.log_asmblock.setLevel(logging.CRITICAL + 1)
        for name in ("armdis", "mips32dis", "x86_arch", "asmblock", "cpuhelper"):
            logging.getLogger(name).setLevel(logging.CRITICAL + 1)
    return _M[arch]


def parse(prog):
    from miasm.core import parse_asm
    from miasm.core.locationdb import LocationDB
    m = _machine(prog["arch"])
    loc_db = LocationDB()
    cfg = parse_asm.parse_txt(m.mn, ARCHS[prog["arch"]]["attrib"], text_of(prog), loc_db)
    return cfg, loc_db


def _slug(msg):
    s = str(msg)
    if s.startswith("overlapping bytes"):
        return "overlapping-bytes"
    s = re.sub(r"0x[0-9a-fA-F]+|\d+", "#", s)
    s = re.sub(r"[^A-Za-z#]+", "-", s).strip("-")
    return s[:48]


def pin_skeleton(prog, pins):
    chains = model_chains(prog)
    parts = []
    for ch in chains:
        ps = [b for b in ch if b in pins]
        for b in ps:
            if len(ch) == 1:
                pos = "solo"
            elif b == ch[0]:
                pos = "head"
            elif b == ch[-1]:
                pos = "tail"
            else:
                pos = "mid"
            parts.append(pos + ("*" if len(ps) > 1 else ""))
    return "+".join(sorted(parts)) if parts else "nopin"


def evaluate(prog, pins, ikind, itv, witness, parsed=None):
    """Assemble one case and check it. @pins {block index: address}. -> (violations, outcome tag)"""
    from miasm.core import asmblock
    from miasm.core.interval import interval
    from miasm.core.bin_stream import bin_stream_str
    from miasm.core.locationdb import LocationDB
    arch = prog["arch"]
    a = ARCHS[arch]
    m = _machine(arch)
    labs = labels_of(prog)
    wins = _windows(itv)
    case = {"prog": prog, "pins": {str(k): v for k, v in pins.items()}, "ikind": ikind,
            "itv": (list(itv) if isinstance(itv[0], int) else [list(w) for w in itv]) if itv else None}
    skel = "pins=%s:interval=%s" % (pin_skeleton(prog, pins), ikind)
    desc = "%s %s ref=%s pins=%s dst_interval=%s" % (
        arch, "|".join(prog["bodies"][:prog["nfree"]]) + "||" + "|".join(prog["bodies"][prog["nfree"]:]), prog["ref"],
        {labs[k]: hex(v) for k, v in sorted(pins.items())}, "+".join("[%#x,%#x]" % w for w in wins) if wins else None)
    vs = []

    def bad(detail, what):
        vs.append(violation("%s:%s:%s" % (arch, detail, skel), "%s: %s" % (desc, what), case))

    if parsed is None:
        try:
            parsed = parse(prog)
        except Exception as e:
            bad("parse:raise:%s" % type(e).__name__, "parse_txt raised %r on\n%s" % (e, text_of(prog)))
            return vs, "parse-raise"
    cfg, loc_db = parsed
    keys = [loc_db.get_name_location(n) for n in labs]
    # the fall-through links parse_txt produced
    chains = model_chains(prog)
    want_next = {}
    for ch in chains:
        for x, y in zip(ch, ch[1:]):
            want_next[x] = y
    got_next = {}
    for i, k in enumerate(keys):
        blk = cfg.loc_key_to_block(k) if k is not None else None
        if blk is None:
            bad("parse:label-without-block", "label %s has no block" % labs[i])
            return vs, "parse-bad"
        nk = blk.get_next()
        if nk is not None:
            got_next[i] = keys.index(nk) if nk in keys else -1
    if got_next != want_next:
        bad("parse:fallthrough-links-differ", "parse_txt links %r, the text says %r" % (got_next, want_next))
        return vs, "parse-bad"

    try:
        for i, addr in sorted(pins.items()):
            loc_db.set_location_offset(keys[i], addr)
    except KeyError:
        # two labels at one address: the LocationDB cannot express it (and no layout exists: every block has bytes)
        return vs, "pin-refused"
    dst = interval(list(wins)) if wins else None
    counter = [0]
    _guard(loc_db, counter)
    try:
        patches = asmblock.asm_resolve_final(m.mn, cfg, dst)
    except Diverges as e:
        # deterministic stand-in for "does not terminate" (no wall clock involved)
        skel = "pins=%s" % pin_skeleton(prog, pins)
        bad("does-not-terminate", "asmblock_final never reaches its fixed point (%s)%s" % (
            e, "" if witness is None else "; the layout %s exists" % {labs[i]: hex(x) for i, x in enumerate(witness["addr"])}))
        return vs, "diverge"
    except Exception as e:
        if witness is not None:
            if itv and _slug(e) in PLACEMENT_REFUSALS:
                # one raise site; what matters is whether the space the assembler reserved per block (its max_size
                # estimate: longest encoding of every instruction, plus alignment slack) exceeds what the block finally needs
                try:
                    over = any(cfg.loc_key_to_block(k).max_size != sum(witness["sizes"][i]) or
                               cfg.loc_key_to_block(k).alignment > 1 for i, k in enumerate(keys))
                except AttributeError:
                    over = None
                skel = "interval=%s:reserve=%s" % (ikind, {True: "over", False: "exact", None: "unknown"}[over])
            elif _slug(e) == "Multiples-pinned-block-detected":
                skel = "pins=same-chain"          # refused before any placement: positions and interval add nothing
            elif _slug(e).startswith("cannot-asm"):
                skel = "encoder"                  # the instruction encoder refused a reachable displacement
            elif _slug(e) == "overlapping-bytes" or isinstance(e, KeyError):
                # final overlap check / two labels meeting at one offset while sizes settle: the interval kind only moves
                # the un-pinned chains around
                skel = "pins=%s" % pin_skeleton(prog, pins)
                if _slug(e) == "overlapping-bytes" and not _variable_slots(prog):
                    skel += ":fixed-sizes"        # no branch form to choose: the overlap is not a matter of reach
            bad("feasible-but-raised:%s:%s" % (type(e).__name__, _slug(e)),
                "raised %s(%s) although the layout %s exists" % (
                    type(e).__name__, e, {labs[i]: hex(x) for i, x in enumerate(witness["addr"])}))
        return vs, "raise"

    _LAST_UPDATES[0] = counter[0]
    # ---- patches returned
    image = {}
    overl = None
    for off, data in sorted(patches.items()):
        for j, byte in enumerate(bytes(data)):
            if off + j in image and overl is None:
                overl = off + j
            image[off + j] = byte
    if overl is not None:
        bad("patches-overlap", "two patches write address %#x: %r" % (overl, {hex(k): bytes(v).hex() for k, v in sorted(patches.items())}))
    if wins and image:
        outside = sorted(x for x in image if not any(w[0] <= x <= w[1] for w in wins))
        if outside:
            bad("patch-outside-interval", "patched bytes outside dst_interval: %s" % ", ".join(hex(x) for x in outside[:8]))
    final = [loc_db.get_location_offset(k) for k in keys]
    for i, addr in sorted(pins.items()):
        if final[i] != addr:
            bad("pinned-label-moved", "label %s pinned at %#x ends at %r" % (labs[i], addr, final[i]))
    if any(x is None for x in final):
        bad("label-without-offset", "final offsets %r" % (final,))
        return vs, "patches"
    if witness is None and not vs:
        # a layout the reference search did not find: the byte-wise checks below decide
        pass
    if not image:
        bad("no-patch", "no byte was produced")
        return vs, "patches"
    lo, hi = min(image), max(image)
    buf = bytes(image.get(x, 0xCC) for x in range(lo, hi + 1))
    bs = bin_stream_str(buf, base_address=lo)
    scratch = LocationDB()
    used = set()
    ends = {}
    for i, kind in enumerate(prog["bodies"]):
        at = final[i]
        tgt = final[ref_of(prog, i)]
        for el in a["items"][kind]:
            if el[0] == "l":
                got = [image.get(at + j) for j in range(el[2])]
                if None in got:
                    bad("block-bytes-missing", "literal `%s` of block %s at %#x is not patched" % (el[1], labs[i], at))
                    break
                if bytes(got) != el[3]:
                    bad("literal-bytes-differ", "block %s: `%s` at %#x emitted as %s" % (labs[i], el[1], at, bytes(got).hex()))
                used.update(range(at, at + el[2]))
                at += el[2]
                continue
            if el[0] == "x":
                xa, ya = final[prog["xy"][0]], final[prog["xy"][1]]
                miss = False
                for j, vname in enumerate(el[3]):
                    got = [image.get(at + 4 * j + b) for b in range(4)]
                    if None in got:
                        bad("block-bytes-missing", "data of block %s at %#x is not patched" % (labs[i], at + 4 * j))
                        miss = True
                        break
                    val = int.from_bytes(bytes(got), "little")
                    want = X_VALUES[vname](xa, ya) & 0xffffffff
                    if val != want:
                        bad("data-expression-unresolved:%s" % {"x": "label", "y": "label", "y+1": "label+k", "y-x": "label-label"}[vname],
                            "block %s: element %d of `%s` at %#x is %#x, but %s=%#x and %s=%#x give %#x"
                            % (labs[i], j, el[1].format(x=labs[prog["xy"][0]], y=labs[prog["xy"][1]]).strip(), at + 4 * j, val,
                               labs[prog["xy"][0]], xa, labs[prog["xy"][1]], ya, want))
                if miss:
                    break
                used.update(range(at, at + el[2]))
                at += el[2]
                continue
            if el[0] == "d":
                size = el[2]
                dtgt = final[ref_of(prog, i, True)]
                got = [image.get(at + j) for j in range(size)]
                if None in got:
                    bad("block-bytes-missing", "data of block %s at %#x is not patched" % (labs[i], at))
                    break
                val = int.from_bytes(bytes(got), "little")
                if val != dtgt & ((1 << (8 * size)) - 1):
                    bad("data-label-unresolved", "block %s: data word at %#x is %#x, label %s is at %#x"
                        % (labs[i], at, val, labs[ref_of(prog, i, True)], dtgt))
                used.update(range(at, at + size))
                at += size
                continue
            _, tmpl, name, uses, _sz = el
            if at not in image:
                bad("block-bytes-missing", "block %s: no patched byte at %#x where %r is expected" % (labs[i], at, tmpl))
                break
            try:
                ins = m.mn.dis(bs, a["attrib"], at)
            except Exception as e:
                bad("undecodable", "block %s: bytes at %#x do not decode (%r), expected %r" % (labs[i], at, e, tmpl))
                break
            if any((at + j) not in image for j in range(ins.l)):
                bad("block-bytes-missing", "block %s: instruction at %#x runs over unpatched bytes" % (labs[i], at))
                break
            if ins.name != name:
                bad("decodes-to-other-instruction", "block %s at %#x: decoded %s, expected %r" % (labs[i], at, ins, tmpl))
                break
            if uses:
                ins.dstflow2label(scratch)
                dests = [scratch.get_location_offset(e.loc_key) for e in ins.getdstflow(scratch) if e.is_loc()]
                if dests != [tgt]:
                    bad("label-operand-unresolved", "block %s at %#x: decoded %s targets %r, label %s is at %#x"
                        % (labs[i], at, ins.to_string(scratch), [hex(d) for d in dests], labs[ref_of(prog, i)], tgt))
            else:
                want = " ".join(tmpl.split())
                got = " ".join(str(ins).split())
                if got.upper() != want.upper():
                    bad("decodes-to-other-instruction", "block %s at %#x: decoded %r, expected %r" % (labs[i], at, got, want))
            used.update(range(at, at + ins.l))
            at += ins.l
        ends[i] = at
    for x, y in sorted(want_next.items()):
        if x in ends and ends[x] != final[y]:
            bad("fallthrough-not-contiguous", "block %s ends at %#x, its fall-through %s starts at %#x"
                % (labs[x], ends[x], labs[y], final[y]))
    stray = sorted(set(image) - used)
    if stray and len(ends) == len(prog["bodies"]):
        bad("stray-patch", "patched bytes outside every block: %s" % ", ".join(hex(x) for x in stray[:8]))
    return vs, "patches"


# ------------------------------------------------------------------------------------------------
# sharding

def _shard(args):
    tier, arch, idx = args
    par = BOUNDS[tier][arch]
    prog = programs(arch, par)[idx]
    st = {"n": 0, "nontrivial": 0, "feasible": 0, "raise": 0, "patches": 0, "feasible_and_patches": 0, "infeasible_and_raise": 0,
          "infeasible_but_patches": 0, "parse": 0, "pinned_mid_or_tail": 0, "two_pins_same_chain": 0, "bounded_interval": 0, "diverge": 0, "pin_refused_same_address": 0,
          "max_offset_updates": 0}
    vs = []
    try:
        pristine = parse(prog)
    except Exception:
        pristine = None
    for pins, ikind, itv, w in cases_of(prog, par):
        parsed = copy.deepcopy(pristine) if pristine is not None else None
        r, tag = evaluate(prog, pins, ikind, itv, w, parsed)
        st["n"] += 1
        st["nontrivial"] += 1 if (pins or itv) else 0
        st["feasible"] += 1 if w is not None else 0
        st["bounded_interval"] += 1 if itv else 0
        sk = pin_skeleton(prog, pins)
        st["pinned_mid_or_tail"] += 1 if ("mid" in sk or "tail" in sk) else 0
        st["two_pins_same_chain"] += 1 if "*" in sk else 0
        if tag == "raise":
            st["raise"] += 1
            st["infeasible_and_raise"] += 1 if w is None else 0
        elif tag == "patches":
            st["patches"] += 1
            st["feasible_and_patches"] += 1 if w is not None else 0
            st["infeasible_but_patches"] += 1 if w is None else 0
        elif tag == "diverge":
            st["diverge"] += 1
        elif tag == "pin-refused":
            st["pin_refused_same_address"] += 1
        else:
            st["parse"] += 1
        st["max_offset_updates"] = max(st["max_offset_updates"], _LAST_UPDATES[0])
        if len(vs) < 300:
            vs += r
    sample = {"arch": arch, "text": text_of(prog)} if idx % 37 == 5 else None
    return st, vs, sample


def run(ctx):
    tier = "quick" if ctx.quick else "thorough"
    shards = []
    nprog = {}
    for arch, par in BOUNDS[tier].items():
        _machine(arch)
        n = len(programs(arch, par))
        nprog[arch] = n
        shards += [(tier, arch, i) for i in range(n)]
    import gc
    gc.collect()
    gc.freeze()
    res = ctx.pmap(_shard, shards)
    tot = {}
    samples = []
    for st, vs, sample in res:
        for k, v in st.items():
            tot[k] = max(tot.get(k, 0), v) if k.startswith("max_") else tot.get(k, 0) + v
        ctx.add_violations(vs)
        if sample and len(samples) < 5:
            samples.append(sample)
    cov = {
        "evaluations": tot.pop("n"),
        "distinct_nontrivial": tot.pop("nontrivial"),
        "samples": samples,
        "exhaustive": True,
        "bounds": {"tier": tier, "parameters": BOUNDS[tier], "program_texts": nprog,
                   "address_menu_relative_to_0x100": {a: ARCHS[a]["menu"] for a in BOUNDS[tier]}},
        "program_texts": sum(nprog.values()),
    }
    cov.update(tot)
    return cov


def replay(case):
    prog = case["prog"]
    prog = dict(prog, bodies=list(prog["bodies"]))
    pins = {int(k): v for k, v in case["pins"].items()}
    itv = case.get("itv") or None
    if itv:
        itv = tuple(itv) if isinstance(itv[0], int) else tuple(tuple(w) for w in itv)
    w = search(prog, pins, itv)
    return evaluate(prog, pins, case["ikind"], itv, w)[0]
