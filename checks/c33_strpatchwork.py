"""C33 - StrPatchwork behaves like a zero-padded growable byte string.

Engine E1 (explicit-state BFS over the real object), reference model: bytearray + padding.

Events: item write, same-size slice write, append, find/rfind (they populate the search cache, so they
are transitions, not observations). After every event a side-effect-free probe compares len, bytes,
every index 0..len+2, every slice (i, j) over a grid reaching past the end (open-ended included) and
`in` for a pattern menu with the model. The canonical state keeps the content *and* the status of the
private search cache (absent / fresh / stale) because the cache changes futures.
"""
from mc import bfs

PROP = "C33"
LEVEL = "model_checking"
ENGINE = "bfs"
RULE = ("BFS over histories of writes / slice writes / appends / searches on the real StrPatchwork, content capped; "
        "a state is non-trivial/distinct by (content, cache status)")
LEVEL_TEXT = ("Explicit-state search of every history up to the depth bound over a small alphabet of writes, slice writes, "
              "appends and searches, on the real StrPatchwork object, with a bytearray reference model in lock step and a "
              "full read probe (every index and slice at/past the end, membership, searches) in every reached state.")
LEVEL_NOTE = ("Trusted: CPython bytearray/bytes.find. Content capped at 8 bytes, byte alphabet of 4 letters, slice writes of "
              "equal length only (a length-changing slice assignment has no meaning in the property), no negative indexes or steps.")
TECHNIQUE = "explicit-state BFS over operation histories on the real object against a bytearray reference model"
ASSUMPTIONS = ["the buffer's behaviour does not depend on byte values beyond equality (alphabet of 4 letters + padding)"]

CAP = 8
PAD = b"\x00"
PATTERNS = [b"A", b"AB", b"D", b"\x00", b"BC", b""]


class State(object):
    pass


def make(seed):
    from miasm.loader.strpatchwork import StrPatchwork
    st = State()
    init = seed or b""
    st.impl = StrPatchwork(init)
    st.model = bytearray(init)
    return st


MODS = [("set", 1, "A"), ("set", 5, "BC"), ("iadd", "D")]
SEARCHES = [("find", "A", -2, None), ("find", "", -9, None), ("find", "", 9, 9), ("find", "A", -5, -1),
            ("rfind", "A", -3, None), ("find", "D", 2, None), ("rfind", "B", -4, -1), ("find", "A", 1, -1),
            ("rfind", "", 9, None), ("find", "BC", -3, 7)]


def events(st):
    n = len(st.model)
    evs = []
    for i in range(0, CAP):
        for b in (b"A", b"BC"):
            if i + len(b) <= CAP:
                evs.append(("set", i, b.decode()))
    for i in (0, 1, 3, 5, 6):
        for b in (b"D", b"AB"):
            if i + len(b) <= CAP:
                evs.append(("setslice", i, i + len(b), b.decode()))
    for b in (b"D", b"AB"):
        if n + len(b) <= CAP:
            evs.append(("iadd", b.decode()))
    for p in (b"A", b"D", b"AB"):
        evs.append(("find", p.decode(), 0, None))
        evs.append(("rfind", p.decode(), 0, None))
    evs.append(("find", "A", 1, 3))
    evs.append(("rfind", "B", 1, 6))
    # a search with unusual bounds as the FIRST operation after a modification (the state probes below search
    # from 0 and would otherwise always repair the search cache before such a search runs)
    for mi in range(len(MODS)):
        if MODS[mi][0] == "iadd" and n + len(MODS[mi][1]) > CAP:
            continue
        for si in range(len(SEARCHES)):
            evs.append(("mod+search", mi, si))
    return evs


def apply(st, ev):
    if ev[0] == "mod+search":
        probs = apply(st, MODS[ev[1]])
        sr = SEARCHES[ev[2]]
        for name, what in apply(st, sr):
            probs.append((name + ":first-after-modification:%s" % _bounds_class(sr[2], sr[3]), what))
        return probs
    probs = []
    kind = ev[0]
    s, m = st.impl, st.model
    try:
        if kind == "set":
            _, i, b = ev
            b = b.encode()
            s[i] = b
            if len(m) < i + len(b):
                m.extend(PAD * (i + len(b) - len(m)))
            m[i:i + len(b)] = b
        elif kind == "setslice":
            _, i, j, b = ev
            b = b.encode()
            s[i:j] = b
            if len(m) < j:
                m.extend(PAD * (j - len(m)))
            m[i:j] = b
        elif kind == "iadd":
            b = ev[1].encode()
            s += b
            st.impl = s
            m.extend(b)
        elif kind in ("find", "rfind"):
            _, p, a, e = ev
            p = p.encode()
            got = getattr(s, kind)(p, a, e)
            want = getattr(bytes(m), kind)(p, a, e)
            if got != want:
                probs.append(("%s:stale-or-wrong" % kind,
                              "%s(%r, %r, %r) = %r but content is %r (expected %r)" % (kind, p, a, e, got, bytes(m), want)))
    except Exception as e:
        probs.append(("%s:raise:%s" % (kind, type(e).__name__), "event %r raised %r on content %r" % (ev, e, bytes(m))))
    return probs


def _bounds_class(a, e):
    return "start%s,end%s" % ("<0" if a < 0 else "=0" if a == 0 else ">0", "=None" if e is None else "<0" if e < 0 else ">=0")


def _padded(m, end):
    if end is not None and end > len(m):
        return bytes(m) + PAD * (end - len(m))
    return bytes(m)


def invariant(st):
    s, m = st.impl, st.model
    probs = []
    n = len(m)

    def probe(name, f, want):
        try:
            got = f()
        except Exception as e:
            probs.append(("read:%s:raise:%s" % (name.split("(")[0], type(e).__name__), "%s raised %r, content %r, expected %r" % (name, e, bytes(m), want)))
            return
        if got != want:
            probs.append(("read:%s:wrong" % name.split("(")[0], "%s = %r, content %r, expected %r" % (name, got, bytes(m), want)))

    probe("len", lambda: len(s), n)
    probe("bytes", lambda: bytes(s), bytes(m))
    for i in range(0, n + 3):
        want = bytes(m[i:i + 1]) if i < n else PAD
        probe("getitem(%s)" % ("at-end" if i == n else "past-end" if i > n else "inside"), lambda i=i: s[i], want)
    for i in range(0, n + 2):
        for j in list(range(i, n + 3)) + [None]:
            want = _padded(m, j)[i:j]
            cls = "open" if j is None else ("past-end" if j > n else "inside")
            probe("getslice(%s)" % cls, lambda i=i, j=j: s[i:j], want)
    for p in PATTERNS:
        probe("contains", lambda p=p: p in s, p in bytes(m))
    return probs


def canon(st):
    c = st.impl.s_cache
    if not c:
        cs = "none"
    elif c == bytes(st.model):
        cs = "fresh"
    else:
        cs = "stale"
    return (bytes(st.model), cs)


def outcome(st, ev):
    return (len(st.model), ev[0])


SEEDS = [b"", b"AB", b"A\x00B", b"ABABAB"]


def run(ctx):
    import sys
    depth = 4 if ctx.quick else 6
    cov = bfs.explore(ctx, sys.modules[__name__], max_depth=depth, seeds=SEEDS, chunk=16)
    cov["bounds"] = {"depth": depth, "content_cap": CAP, "seeds": [repr(s) for s in SEEDS]}
    return cov


def replay(case):
    import sys
    return bfs.replay(sys.modules[__name__], SEEDS, case)
