"""C34 - typed memory views (miasm.core.types) read back what they write and stay in bounds.

Engine E2 (complete enumeration of an explicitly described lattice of type definitions x boundary values),
oracle: an independent byte-level reference model (struct.pack on a bytearray image of the page).

Lattice (specs are json lists, see `build`):
  leaves      Num(B,H,I,Q,<I,>I,b,h), Ptr("I", Num("B")), three representative BitFields
  depth 0     every leaf alone; EVERY BitField over B/H/I whose <=3 positive widths sum to <= the backing
              width (alone and as an anonymous member between two byte fields); Str(ansi/utf16/utf8) x every
              string of <= STR_LEN characters over a per-encoding boundary alphabet
  depth 1     Array(leaf, n in 0..3), Struct of <=3 leaf fields (BitFields named and anonymous),
              Union of <=2 leaf members
  depth 2     Struct/Union of <=2 members (thorough: Struct of 3) over a reduced child alphabet R0 u R1
              (R0 = one leaf per size class + Ptr + BitField, R1 = all arrays/structs/unions over R0), composite
              children named and anonymous; Array(R1, n in 0..3)
For every type: a fresh Vm page filled with 0xAA, the object in the middle (guard bytes on both sides).
Every leaf slot is written with every value of its boundary set through every spelling the API offers
(attribute / item / .val / set_field for twice-lifted names); after EVERY operation the whole page is compared
with the model image and the value is read back, together with every slot that aliases the written bytes
(union members, sibling bits). Arrays additionally: negative indexes, index == len and index == -len-1
(must not change a byte outside the array), slices, list assignment. Composite members: whole-object
assignment from a second object, memset, sizeof/len/bytes, reported addresses and offsets.
"""
import glob
import itertools
import struct

from mc.runner import violation

PROP = "C34"
LEVEL = "exploration"
ENGINE = "enum"
RULE = ("every type of the depth<=2 grammar (see bounds) x every leaf slot x every value of the slot's boundary set "
        "(0,1,max,msb,0x55..,min/-1 for signed, overflow and -1 for bit fields; depth-2 types: 0, all-ones, 0x55..) "
        "x every write spelling; a type case is "
        "non-trivial when it has >=2 slots (a write has a neighbour or an alias it could damage) - string cases when "
        "the string is not empty")
LEVEL_TEXT = ("Bounded-exhaustive: every type definition of an explicit depth<=2 grammar over all Num formats, Ptr, "
              "every <=3-field BitField partition, arrays 0..3, structs <=3, unions <=2 (named and anonymous members), "
              "every boundary value through every write spelling; after each single operation the complete page "
              "(object + guard bytes) is compared with a byte-level reference image and the value, plus every aliasing "
              "slot, is read back.")
LEVEL_NOTE = ("Trusted: struct.pack/unpack and str.encode of CPython, and the installed VmMngr extension as a plain byte "
              "container (get_mem/set_mem on one page). Depth-2 composites draw their children from a reduced leaf "
              "alphabet (one Num per size class, signed and big-endian included). Not covered: RawStruct, Self/Void "
              "pointers, unsized arrays, the allocator, Str inside composites (unsized: construction is rejected, counted).")
TECHNIQUE = "complete enumeration of a type-definition lattice x boundary values against a byte-level reference image"
ASSUMPTIONS = ["struct.pack is the definition of a Num's byte encoding (documented: 'encoded with a struct-style format')",
               "VmMngr get_mem/set_mem on a single RW page behave as a byte array",
               "values outside a Num's range are out of scope (struct.error); Bits truncate binarily as documented",
               "strings are NUL terminated: values contain no NUL"]

PAGE = 0x10000
PAGE_SIZE = 0x200
BASE = PAGE + 0x40          # object under test
SRC = PAGE + 0x140          # second object used as the source of whole-object assignments
TARGET = PAGE + 0x1F0       # byte a Ptr is pointed to
FILL = 0xAA

NUMS = ["B", "H", "I", "Q", "<I", ">I", "b", "h"]
NSIZE = {"B": 1, "H": 2, "I": 4, "Q": 8, "<I": 4, ">I": 4, "b": 1, "h": 2}
SIGNED = {"b", "h"}
LEAF_BASIC = [["num", f] for f in NUMS] + [["ptr"]]
BF_REP = [["bf", "B", [3, 5]], ["bf", "H", [1, 5, 8]], ["bf", "I", [31, 1]]]
LEAVES = LEAF_BASIC + BF_REP
R0 = [["num", "B"], ["num", "h"], ["num", ">I"], ["num", "Q"], ["ptr"], ["bf", "B", [3, 5]]]
ARRAY_LENS = [0, 1, 2, 3]

STR_ALPHABET = {
    "ansi": [u"a", u"\x01", u"\x7f", u"\x80", u"\xe9", u"\xff"],
    "utf8": [u"a", u"\x7f", u"\x80", u"\xe9", u"\u07ff", u"\u0800", u"\u20ac", u"\U0001F600"],
    "utf16": [u"a", u"\xff", u"\u0100", u"\uff00", u"\u6100", u"\u20ac", u"\U0001F600"],
}
STR_CODEC = {"ansi": "latin1", "utf8": "utf8", "utf16": "utf-16le"}


# ------------------------------------------------------------------ environment

_ENV = {}


def _env():
    if not _ENV:
        try:
            from miasm.jitter.VmMngr import Vm
        except ImportError:
            # scratch checkout without built extensions: the extension is only a byte container here,
            # take the installed one
            import importlib.machinery
            import importlib.util
            path = sorted(glob.glob("/repo/miasm/jitter/VmMngr*.so"))[0]
            loader = importlib.machinery.ExtensionFileLoader("miasm.jitter.VmMngr", path)
            spec = importlib.util.spec_from_loader("miasm.jitter.VmMngr", loader)
            mod = importlib.util.module_from_spec(spec)
            loader.exec_module(mod)
            Vm = mod.Vm
        from miasm.jitter.csts import PAGE_READ, PAGE_WRITE
        import miasm.core.types as T
        _ENV.update(Vm=Vm, acc=PAGE_READ | PAGE_WRITE, T=T)
    return _ENV


def new_vm():
    env = _env()
    vm = env["Vm"]()
    vm.add_memory_page(PAGE, env["acc"], bytes([FILL]) * PAGE_SIZE)
    return vm


# ------------------------------------------------------------------ specs -> types, reference layout

def fname(path, i):
    return "f%s%d" % (path, i)


def bname(path, j):
    return "b%s_%d" % (path, j)


def build(spec, path, T):
    k = spec[0]
    if k == "num":
        return T.Num(spec[1])
    if k == "ptr":
        return T.Ptr("I", T.Num("B"))
    if k == "str":
        return T.Str(spec[1])
    if k == "bf":
        return T.BitField(T.Num(spec[1]), [(bname(path, j), w) for j, w in enumerate(spec[2])])
    if k == "arr":
        return T.Array(build(spec[1], path + "e", T), spec[2])
    fields = []
    for i, (anon, fs) in enumerate(spec[1]):
        fields.append(("" if anon else fname(path, i), build(fs, path + str(i), T)))
    if k == "struct":
        return T.Struct("S" + path, fields)
    return T.Union(fields)


def msize(spec):
    k = spec[0]
    if k == "num":
        return NSIZE[spec[1]]
    if k == "ptr":
        return 4
    if k == "bf":
        return NSIZE[spec[1]]
    if k == "arr":
        return msize(spec[1]) * spec[2]
    if k == "struct":
        return sum(msize(fs) for _, fs in spec[1])
    return max(msize(fs) for _, fs in spec[1])


def skel(spec):
    """Short skeleton of a spec for signatures/samples."""
    k = spec[0]
    if k == "num":
        return "Num(%s)" % spec[1]
    if k == "ptr":
        return "Ptr"
    if k == "str":
        return "Str(%s)" % spec[1]
    if k == "bf":
        return "BitField(%s:%s)" % (spec[1], "+".join(str(w) for w in spec[2]))
    if k == "arr":
        return "Array(%s,%d)" % (skel(spec[1]), spec[2])
    return "%s{%s}" % ("Struct" if k == "struct" else "Union",
                       ",".join(("anon " if a else "") + skel(fs) for a, fs in spec[1]))


def depth(spec):
    """Nesting of arrays/structs/unions above the leaves (a BitField is a leaf)."""
    k = spec[0]
    if k == "arr":
        return 1 + depth(spec[1])
    if k in ("struct", "union"):
        return 1 + max(depth(fs) for _, fs in spec[1])
    return 0


def values_for(kind, fmt=None, width=None, full=True):
    """Boundary values of a slot. @full: the complete set (types of depth <= 1, where the leaf encodings are
    decided); deeper types, which add nothing but layout, use {0, all-ones, 0x55..}."""
    if kind == "bits":
        m = (1 << width) - 1
        vs = [0, 1, m, 1 << (width - 1), 0x5555555555555555 & m, 1 << width, (1 << width) | 1, -1]
        if not full:
            vs = [0, m, 0x5555555555555555 & m]
    else:
        w = 8 * NSIZE[fmt]
        if fmt in SIGNED:
            vs = [0, 1, (1 << (w - 1)) - 1, -(1 << (w - 1)), -1, 0x5555555555555555 & ((1 << (w - 1)) - 1)]
            if not full:
                vs = [0, -1, 0x5555555555555555 & ((1 << (w - 1)) - 1)]
        else:
            m = (1 << w) - 1
            vs = [0, 1, m, 1 << (w - 1), 0x5555555555555555 & m]
            if not full:
                vs = [0, m, 0x5555555555555555 & m]
    out = []
    for v in vs:
        if v not in out:
            out.append(v)
    return out


# ------------------------------------------------------------------ slots

class Slot(object):
    """One scalar reachable through the view: a Num, a Ptr's numeric value or one bit range of a BitField."""
    __slots__ = ("kind", "fmt", "off", "size", "holder", "key", "ctx", "bitoff", "width", "name")

    def __init__(self, kind, fmt, off, holder, key, ctx, bitoff=0, width=0, name=None):
        self.kind = kind        # "num" | "ptr" | "bits"
        self.fmt = fmt          # struct format of the backing number
        self.off = off          # model offset of the backing number inside the page
        self.size = NSIZE[fmt]
        self.holder = holder
        self.key = key
        self.ctx = ctx
        self.bitoff = bitoff
        self.width = width
        self.name = name

    def label(self):
        if self.kind == "bits":
            return "bits-%s" % self.fmt
        if self.kind == "ptr":
            return "ptr"
        return "num-%s" % self.fmt

    def decode(self, image):
        raw = bytes(image[self.off:self.off + self.size])
        v = struct.unpack(self.fmt, raw)[0]
        if self.kind == "bits":
            return (v >> self.bitoff) & ((1 << self.width) - 1)
        return v

    def apply(self, image, v):
        """Update the model image with the documented effect of writing @v; return the value a read must give."""
        if self.kind == "bits":
            m = (1 << self.width) - 1
            old = struct.unpack(self.fmt, bytes(image[self.off:self.off + self.size]))[0]
            new = (old & ~(m << self.bitoff)) | ((v & m) << self.bitoff)
            image[self.off:self.off + self.size] = struct.pack(self.fmt, new)
            return v & m
        image[self.off:self.off + self.size] = struct.pack(self.fmt, v)
        return v

    def touched(self):
        """Byte extent a write of this slot may change."""
        if self.kind == "bits":
            # native order is little endian on the host this runs on (asserted in run)
            lo = self.bitoff // 8
            hi = (self.bitoff + self.width - 1) // 8 + 1
            return (self.off + lo, self.off + hi)
        return (self.off, self.off + self.size)


def reach(holder, key, stats=None):
    """Follow one access step from a view."""
    if key is None:
        return holder
    if key[0] == "idx":
        return holder[key[1]]
    name = key[1]
    if isinstance(getattr(type(holder), name, None), property):
        return getattr(holder, name)
    if stats is not None:
        stats["by_get_field"] = stats.get("by_get_field", 0) + 1
    return holder.get_field(name)


def store(holder, key, val, stats=None):
    if key[0] == "idx":
        holder[key[1]] = val
        return
    name = key[1]
    if isinstance(getattr(type(holder), name, None), property):
        setattr(holder, name, val)
    else:
        if stats is not None:
            stats["by_set_field"] = stats.get("by_set_field", 0) + 1
        holder.set_field(name, val)


class TypeCase(object):
    def __init__(self, spec):
        env = _env()
        self.T = env["T"]
        self.T.DYN_MEM_STRUCT_CACHE.clear()
        self.spec = spec
        self.full = depth(spec) <= 1
        self.case = {"k": "type", "spec": spec}
        self.vs = []
        self.seen = set()
        self.stats = {}
        self.slots = []
        self.nodes = []      # (spec, off, holder, key, ctx, view)
        self.arrays = []     # (spec, off, view, ctx, holder, key)
        self.vm = new_vm()
        self.image = bytearray([FILL]) * PAGE_SIZE
        self.top = None

    # -------------------------------------------------------------- reporting
    def bad(self, sig, what):
        if sig in self.seen:
            return
        self.seen.add(sig)
        self.vs.append(violation(sig, "%s [type %s]" % (what, skel(self.spec)), self.case))

    def count(self, name, n=1):
        self.stats[name] = self.stats.get(name, 0) + n

    def sync(self, op, ctx, extent, what):
        """Compare the whole page with the model image after one operation."""
        mem = self.vm.get_mem(PAGE, PAGE_SIZE)
        if mem == bytes(self.image):
            return True
        diff = [i for i in range(PAGE_SIZE) if mem[i] != self.image[i]]
        lo, hi = extent
        outside = [i for i in diff if not lo <= i < hi]
        if outside:
            first = outside[0]
            rel = "before" if first < lo else "after"
            self.bad("%s:%s:changes-bytes-%s-extent" % (op, ctx, rel),
                     "%s: extent is [+%#x,+%#x) of the page but byte +%#x became %#x (expected %#x); %d byte(s) "
                     "outside the extent changed" % (what, lo, hi, first, mem[first], self.image[first], len(outside)))
        else:
            first = diff[0]
            self.bad("%s:%s:stored-bytes-differ" % (op, ctx),
                     "%s: bytes at +%#x..+%#x are %s, the documented encoding is %s"
                     % (what, lo, hi, mem[lo:hi].hex(), bytes(self.image[lo:hi]).hex()))
        self.image[:] = mem
        return False

    # -------------------------------------------------------------- traversal
    def start(self):
        T = self.T
        try:
            t = build(self.spec, "", T)
            self.top = t.lval(self.vm, BASE)
        except Exception as e:
            self.bad("build:%s:raise:%s" % (self.spec[0], type(e).__name__),
                     "building the type / its view raised %r" % (e,))
            return False
        try:
            self.visit(self.spec, "", BASE - PAGE, self.top, None, [])
        except Exception as e:
            self.bad("navigate:%s:raise:%s" % (self.spec[0], type(e).__name__),
                     "navigating the view raised %r" % (e,))
            return False
        return True

    def node_checks(self, spec, off, holder, key, ctx, view):
        cs = "/".join(ctx + [spec[0]])
        size = msize(spec)
        # reported address
        try:
            if key is None:
                rep = view.get_addr()
            else:
                rep = holder.get_addr(key[1])
                if view.get_addr() != rep:
                    self.bad("addr:%s:view-vs-parent" % cs, "child view address %#x != parent.get_addr(%r) %#x"
                             % (view.get_addr(), key[1], rep))
            if rep != PAGE + off:
                self.bad("addr:%s:offset-model" % cs, "reported address +%#x, reference layout says +%#x"
                         % (rep - PAGE, off))
        except Exception as e:
            self.bad("addr:%s:raise:%s" % (cs, type(e).__name__), "get_addr raised %r" % (e,))
        try:
            got = (view.get_size(), len(view), type(view).sizeof())
            if got != (size, size, size):
                self.bad("sizeof:%s" % cs, "get_size/len/sizeof = %r, reference layout says %d" % (got, size))
            raw = bytes(view)
            if raw != bytes(self.image[off:off + size]):
                self.bad("bytes:%s" % cs, "bytes(view) = %s, memory holds %s"
                         % (raw.hex(), bytes(self.image[off:off + size]).hex()))
        except Exception as e:
            self.bad("sizeof:%s:raise:%s" % (cs, type(e).__name__), "size query raised %r" % (e,))
        self.nodes.append((spec, off, holder, key, ctx, view))

    def visit(self, spec, path, off, holder, key, ctx):
        k = spec[0]
        if k in ("num", "ptr"):
            fmt = spec[1] if k == "num" else "I"
            self.slots.append(Slot(k, fmt, off, holder, key, "/".join(ctx)))
            return
        view = reach(holder, key, self.stats)
        self.node_checks(spec, off, holder, key, ctx, view)
        if k == "bf":
            self.bits(spec, path, off, view, ctx + ["bf"])
        elif k == "arr":
            esz = msize(spec[1])
            self.arrays.append((spec, off, view, ctx, holder, key))
            for i in range(spec[2]):
                try:
                    rep = view.get_addr(i)
                    if rep != PAGE + off + i * esz:
                        self.bad("addr:%s:element-offset" % "/".join(ctx + ["arr"]),
                                 "get_addr(%d) = +%#x, element must live at +%#x (i*elem_size)"
                                 % (i, rep - PAGE, off + i * esz))
                except Exception as e:
                    self.bad("addr:%s:raise:%s" % ("/".join(ctx + ["arr"]), type(e).__name__),
                             "get_addr(%d) raised %r" % (i, e))
                try:
                    self.visit(spec[1], path + "e", off + i * esz, view, ("idx", i), ctx + ["arr"])
                except IndexError as e:
                    self.bad("array-load:index<len:%s:raise:IndexError"
                             % ("elem1" if esz == 1 else ("elem0" if esz == 0 else "elemN")),
                             "element %d of an array of %d element(s) of %d byte(s) raised %r" % (i, spec[2], esz, e))
        else:
            self.fields(spec, path, off, view, ctx)

    def bits(self, spec, path, off, holder, ctx):
        bo = 0
        for j, w in enumerate(spec[2]):
            self.slots.append(Slot("bits", spec[1], off, holder, ("attr", bname(path, j)), "/".join(ctx),
                                   bitoff=bo, width=w, name=bname(path, j)))
            bo += w

    def fields(self, spec, path, off, view, ctx):
        """@view gives access by name to the fields of @spec (its own view, or a parent that lifted them)."""
        k = spec[0]
        rel = 0
        for i, (anon, fs) in enumerate(spec[1]):
            foff = off + (rel if k == "struct" else 0)
            p = path + str(i)
            if anon:
                c2 = ctx + [k + "-anon"]
                if fs[0] == "bf":
                    self.bits(fs, p, foff, view, c2 + ["bf"])
                    names = [bname(p, j) for j in range(len(fs[2]))]
                else:
                    self.fields(fs, p, foff, view, c2)
                    names = []
                base_off = view.get_addr() - PAGE
                for nm in names:
                    try:
                        if view.get_addr(nm) != PAGE + foff or type(view).get_offset(nm) != foff - base_off:
                            self.bad("addr:%s:lifted-offset" % "/".join(c2),
                                     "lifted field %r reported at +%#x, reference layout says +%#x"
                                     % (nm, view.get_addr(nm) - PAGE, foff))
                    except Exception as e:
                        self.bad("addr:%s:raise:%s" % ("/".join(c2), type(e).__name__),
                                 "get_addr(%r) raised %r" % (nm, e))
            else:
                nm = fname(path, i)
                try:
                    base_off = view.get_addr() - PAGE
                    rep = view.get_addr(nm)
                    if rep != PAGE + foff or type(view).get_offset(nm) != foff - base_off:
                        self.bad("addr:%s:field-offset" % "/".join(ctx + [k]),
                                 "field #%d reported at +%#x (get_offset %d), reference layout says +%#x"
                                 % (i, rep - PAGE, type(view).get_offset(nm), foff))
                except Exception as e:
                    self.bad("addr:%s:raise:%s" % ("/".join(ctx + [k]), type(e).__name__),
                             "get_addr(%r) raised %r" % (nm, e))
                self.visit(fs, p, foff, view, ("attr", nm), ctx + [k])
            rel += msize(fs)

    # -------------------------------------------------------------- slot access
    def read_slot(self, s):
        v = reach(s.holder, s.key, self.stats)
        if s.key is None or s.kind == "ptr":
            v = v.val
        return v

    def write_slot(self, s, v, spelling):
        if s.key is None:
            s.holder.val = v
        elif s.kind == "ptr" and spelling == 1:
            reach(s.holder, s.key, self.stats).val = v
        else:
            store(s.holder, s.key, v, self.stats)

    def check_read(self, s, op, what):
        want = s.decode(self.image)
        try:
            got = self.read_slot(s)
        except Exception as e:
            self.bad("%s:%s:%s:read-raise:%s" % (op, s.label(), s.ctx, type(e).__name__),
                     "%s: reading the slot at +%#x raised %r" % (what, s.off, e))
            return
        self.count("reads")
        if got != want:
            self.bad("%s:%s:%s:readback" % (op, s.label(), s.ctx),
                     "%s: slot at +%#x reads %r, memory/model says %r" % (what, s.off, got, want))

    def overlapping(self, s):
        lo, hi = s.off, s.off + s.size
        return [o for o in self.slots if o is not s and o.off < hi and lo < o.off + o.size]

    def slot_ops(self):
        for s in self.slots:
            self.check_read(s, "read", "initial read of 0xAA-filled memory")
        for s in self.slots:
            if s.kind == "bits":
                values = values_for("bits", width=s.width, full=self.full)
            else:
                values = values_for("num", fmt=s.fmt, full=self.full)
            spellings = (0, 1) if (s.kind == "ptr" and s.key is not None) else (0,)
            alias = self.overlapping(s)
            for sp in spellings:
                op = "write" if sp == 0 else "write-ptr.val"
                for v in values:
                    what = "write %#x to %s at +%#x%s" % (v, s.label(), s.off,
                                                          (" bits %d..%d" % (s.bitoff, s.bitoff + s.width - 1))
                                                          if s.kind == "bits" else "")
                    try:
                        self.write_slot(s, v, sp)
                    except Exception as e:
                        self.bad("%s:%s:%s:raise:%s" % (op, s.label(), s.ctx, type(e).__name__),
                                 "%s raised %r" % (what, e))
                        self.image[:] = self.vm.get_mem(PAGE, PAGE_SIZE)
                        continue
                    self.count("writes")
                    s.apply(self.image, v)
                    self.sync("%s:%s" % (op, s.label()), s.ctx, s.touched(), what)
                    self.check_read(s, op, what)
                    for o in alias:
                        self.count("alias_reads")
                        self.check_read(o, "alias-read-after-" + op, what + ", then read the aliasing %s" % o.label())
            if s.kind == "ptr":
                self.deref_ops(s)

    def deref_ops(self, s):
        T = self.T
        try:
            self.write_slot(s, TARGET, 0)
            s.apply(self.image, TARGET)
            p = reach(s.holder, s.key, self.stats)
            p.deref.val = 0x5A
            self.image[TARGET - PAGE] = 0x5A
            self.sync("deref-write:ptr", s.ctx, (TARGET - PAGE, TARGET - PAGE + 1), "ptr.deref.val = 0x5a")
            if p.deref.val != 0x5A or p.deref.get_addr() != TARGET:
                self.bad("deref-read:ptr:%s" % s.ctx, "ptr.deref reads %r at %#x" % (p.deref.val, p.deref.get_addr()))
            self.vm.set_mem(SRC, b"\x77")
            self.image[SRC - PAGE] = 0x77
            p.deref = T.Num("B").lval(self.vm, SRC)
            self.image[TARGET - PAGE] = 0x77
            self.sync("deref-assign:ptr", s.ctx, (TARGET - PAGE, TARGET - PAGE + 1), "ptr.deref = <Num(B) view>")
            self.count("deref_ops")
        except Exception as e:
            self.bad("deref:ptr:%s:raise:%s" % (s.ctx, type(e).__name__), "pointer dereference raised %r" % (e,))
            self.image[:] = self.vm.get_mem(PAGE, PAGE_SIZE)

    # -------------------------------------------------------------- arrays
    def elem_value(self, espec, view):
        """A value assignable to an element of type @espec (ints, or a view of the same type located at SRC)."""
        k = espec[0]
        if k == "num":
            return values_for("num", fmt=espec[1])[2]
        if k == "ptr":
            return 0x55555555
        if k == "bf":
            return 0x5555555555555555 & ((1 << (8 * NSIZE[espec[1]])) - 1)
        return self.src_view(type(view[0]), msize(espec))

    def src_view(self, cls, size):
        pat = bytes((0x10 + j) & 0xFF for j in range(size))
        self.vm.set_mem(SRC, pat)
        self.image[SRC - PAGE:SRC - PAGE + size] = pat
        return cls(self.vm, SRC)

    def array_ops(self):
        for spec, off, view, ctx, holder, key in self.arrays:
            espec, n = spec[1], spec[2]
            esz = msize(espec)
            cs = "elem1" if esz == 1 else ("elem0" if esz == 0 else "elemN")
            ext = (off, off + esz * n)
            scalar = espec[0] == "num"
            # ---- indexes just outside: must not change anything outside the array
            for tag, idx in (("index==len", n), ("index==-len-1", -n - 1)):
                try:
                    if espec[0] not in ("num", "ptr", "bf") and not n:
                        continue
                    item = self.elem_value(espec, view)
                    view[idx] = item
                    self.count("oob_index_accepted")
                except IndexError:
                    self.count("oob_index_rejected")
                except Exception as e:
                    self.count("oob_index_other_exception")
                self.sync("array-store:%s" % tag, cs, ext,
                          "array of %d element(s) of %d byte(s): store at index %d" % (n, esz, idx))
            if not n:
                continue
            # ---- negative indexes
            if scalar:
                vals = values_for("num", fmt=espec[1])
                for idx in (-1, -n):
                    v = vals[2]
                    pos = off + (n + idx) * esz
                    try:
                        view[idx] = v
                        self.image[pos:pos + esz] = struct.pack(espec[1], v)
                        self.sync("array-store:index<0", cs, (pos, pos + esz), "store at index %d of %d" % (idx, n))
                        if view[idx] != v or view[n + idx] != v:
                            self.bad("array-load:index<0:%s:readback" % cs,
                                     "view[%d] = %r, view[%d] = %r after storing %r" % (idx, view[idx], n + idx,
                                                                                    view[n + idx], v))
                        self.count("neg_index_ops")
                    except Exception as e:
                        self.bad("array-store:index<0:%s:raise:%s" % (cs, type(e).__name__),
                                 "store at index %d of an array of %d raised %r" % (idx, n, e))
                        self.image[:] = self.vm.get_mem(PAGE, PAGE_SIZE)
                # ---- slices
                shapes = [("[0:len]", slice(0, n)), ("[:]", slice(None, None)), ("[1:]", slice(1, None)),
                          ("[0:len-1]", slice(0, n - 1)), ("[::2]", slice(None, None, 2))]
                for tag, sl in shapes:
                    idxs = list(range(n))[sl]
                    items = [vals[(1 + j) % len(vals)] for j in range(len(idxs))]
                    try:
                        view[sl] = items
                        for j, it in zip(idxs, items):
                            self.image[off + j * esz:off + (j + 1) * esz] = struct.pack(espec[1], it)
                        self.sync("array-store:slice%s" % tag, cs, ext, "store %r to slice %s of %d" % (items, tag, n))
                        got = view[sl]
                        if got != items:
                            self.bad("array-load:slice%s:%s:readback" % (tag, cs),
                                     "slice %s of %d reads %r after storing %r" % (tag, n, got, items))
                        self.count("slice_ops")
                    except Exception as e:
                        self.bad("array-store:slice%s:%s:raise:%s" % (tag, cs, type(e).__name__),
                                 "slice %s of an in-bounds array of %d element(s) of %d byte(s) raised %r"
                                 % (tag, n, esz, e))
                        self.image[:] = self.vm.get_mem(PAGE, PAGE_SIZE)
                # ---- list assignment through the parent
                if key is not None:
                    items = [vals[(3 + j) % len(vals)] for j in range(n)]
                    try:
                        store(holder, key, items, self.stats)
                        for j, it in enumerate(items):
                            self.image[off + j * esz:off + (j + 1) * esz] = struct.pack(espec[1], it)
                        self.sync("array-assign:list", cs, ext, "assign list %r to the array member" % (items,))
                        if list(view) != items:
                            self.bad("array-assign:list:%s:readback" % cs, "array reads %r after assigning %r"
                                     % (list(view), items))
                        self.count("list_assign_ops")
                    except Exception as e:
                        self.bad("array-assign:list:%s:raise:%s" % (cs, type(e).__name__),
                                 "list assignment raised %r" % (e,))
                        self.image[:] = self.vm.get_mem(PAGE, PAGE_SIZE)

    # -------------------------------------------------------------- whole objects
    def whole_ops(self):
        for spec, off, holder, key, ctx, view in self.nodes:
            if key is None:
                continue
            size = msize(spec)
            cs = "/".join(ctx + [spec[0]])
            try:
                if spec[0] == "bf":
                    for v in (0x5555555555555555 & ((1 << (8 * size)) - 1), 0):
                        store(holder, key, v, self.stats)
                        self.image[off:off + size] = struct.pack(spec[1], v)
                        self.sync("assign:bf-int", cs, (off, off + size), "assign %#x to the whole bit field" % v)
                else:
                    if not size:
                        continue
                    src = self.src_view(type(view), size)
                    store(holder, key, src, self.stats)
                    self.image[off:off + size] = self.image[SRC - PAGE:SRC - PAGE + size]
                    self.sync("assign:view", cs, (off, off + size), "assign a %d-byte %s view to the member"
                              % (size, spec[0]))
                    if not (reach(holder, key, self.stats) == src):
                        self.bad("assign:view:%s:not-equal" % cs, "member != source view after assignment")
                self.count("whole_assign_ops")
            except Exception as e:
                self.bad("assign:%s:raise:%s" % (cs, type(e).__name__), "whole-member assignment raised %r" % (e,))
                self.image[:] = self.vm.get_mem(PAGE, PAGE_SIZE)
        # memset of the top-level object: exactly sizeof bytes
        if self.spec[0] not in ("num", "ptr"):
            size = msize(self.spec)
            off = BASE - PAGE
            for byte in (0x00, 0xFF):
                try:
                    self.top.memset(bytes([byte]))
                    self.image[off:off + size] = bytes([byte]) * size
                    self.sync("memset", self.spec[0], (off, off + size), "memset(%#x) of a %d-byte object" % (byte, size))
                    self.count("memset_ops")
                except Exception as e:
                    self.bad("memset:%s:raise:%s" % (self.spec[0], type(e).__name__), "memset raised %r" % (e,))
                    self.image[:] = self.vm.get_mem(PAGE, PAGE_SIZE)
            for s in self.slots:
                self.check_read(s, "read-after-memset", "read after memset(0xff)")

    def run(self):
        if self.start():
            self.slot_ops()
            self.array_ops()
            self.whole_ops()
        return self


def check_type(spec):
    return TypeCase(spec).run()


# ------------------------------------------------------------------ strings

def check_str(enc, s):
    env = _env()
    T = env["T"]
    T.DYN_MEM_STRUCT_CACHE.clear()
    vs = []
    case = {"k": "str", "enc": enc, "s": s}
    cls = "empty" if not s else ("1char" if len(s) == 1 else "nchar")
    vm = new_vm()
    image = bytearray([FILL]) * PAGE_SIZE
    try:
        ms = T.Str(enc).lval(vm, BASE)
        for val in (s, s[:1]):
            raw = val.encode(STR_CODEC[enc]) + u"\x00".encode(STR_CODEC[enc])
            ms.val = val
            off = BASE - PAGE
            image[off:off + len(raw)] = raw
            mem = vm.get_mem(PAGE, PAGE_SIZE)
            if mem != bytes(image):
                diff = [i for i in range(PAGE_SIZE) if mem[i] != image[i]]
                out = [i for i in diff if not off <= i < off + len(raw)]
                vs.append(violation("str-write:%s:%s:%s" % (enc, cls, "changes-bytes-outside-extent" if out else
                                                           "stored-bytes-differ"),
                                    "Str(%s).val = %r wrote %s, expected %s at +%#x (first differing byte +%#x)"
                                    % (enc, val, mem[off:off + len(raw) + 2].hex(), raw.hex(), off, diff[0]), case))
                image[:] = mem
            got = ms.val
            if got != val:
                vs.append(violation("str-read:%s:%s:readback" % (enc, cls),
                                    "Str(%s) reads %r after writing %r" % (enc, got, val), case))
            if ms.get_size() != len(raw) or bytes(ms) != raw:
                vs.append(violation("str-size:%s:%s" % (enc, cls),
                                    "Str(%s) %r: get_size() = %r, bytes = %s, encoded length is %d"
                                    % (enc, val, ms.get_size(), bytes(ms).hex(), len(raw)), case))
    except Exception as e:
        vs.append(violation("str:%s:%s:raise:%s" % (enc, cls, type(e).__name__),
                            "Str(%s) with %r raised %r" % (enc, s, e), case))
    return vs


def check_unsized(kind):
    """Str has no static size: composing it must be rejected, never mis-laid-out."""
    T = _env()["T"]
    T.DYN_MEM_STRUCT_CACHE.clear()
    try:
        if kind == "struct":
            t = T.Struct("U", [("a", T.Num("B")), ("s", T.Str("ansi")), ("b", T.Num("B"))])
            t.size
        elif kind == "union":
            t = T.Union([("a", T.Num("B")), ("s", T.Str("ansi"))])
            t.size
        else:
            t = T.Array(T.Str("ansi"), 2)
            t.size
    except ValueError:
        return []
    except Exception as e:
        return [violation("unsized:%s:raise:%s" % (kind, type(e).__name__),
                          "composing Str in a %s raised %r" % (kind, e), {"k": "unsized", "kind": kind})]
    return [violation("unsized:%s:accepted" % kind, "a %s containing an unsized Str reports size %r" % (kind, t.size),
                      {"k": "unsized", "kind": kind})]


def check_bf_oversize(fmt, widths):
    T = _env()["T"]
    T.DYN_MEM_STRUCT_CACHE.clear()
    try:
        T.BitField(T.Num(fmt), [("x%d" % i, w) for i, w in enumerate(widths)])
    except ValueError:
        return []
    except Exception as e:
        return [violation("bf-oversize:raise:%s" % type(e).__name__, "BitField(%s, %r) raised %r" % (fmt, widths, e),
                          {"k": "bfover", "fmt": fmt, "widths": widths})]
    return [violation("bf-oversize:accepted", "BitField(%s, %r) exceeds the backing width and was accepted"
                      % (fmt, widths), {"k": "bfover", "fmt": fmt, "widths": widths})]


# ------------------------------------------------------------------ the lattice

def bf_family(fmt, exact_only):
    w = 8 * NSIZE[fmt]
    for k in (1, 2, 3):
        for parts in itertools.product(range(1, w + 1), repeat=k):
            s = sum(parts)
            if s > w or (exact_only and s != w):
                continue
            yield ["bf", fmt, list(parts)]


def field_alpha(items, anon_ok):
    out = [[0, x] for x in items]
    out += [[1, x] for x in items if anon_ok(x)]
    return out


def r1_types():
    out = []
    for r in R0:
        for n in ARRAY_LENS:
            out.append(["arr", r, n])
    for kind in ("struct", "union"):
        for k in (1, 2):
            for combo in itertools.product(R0, repeat=k):
                out.append([kind, [[0, c] for c in combo]])
    return out


def lattice(bounds):
    """Yield every type spec of the lattice, simplest first."""
    # depth 0
    for l in LEAVES:
        yield l
    for fmt in ("B", "H", "I"):
        for bf in bf_family(fmt, fmt in bounds["bf_exact_only"]):
            if bf in BF_REP:
                continue        # enumerated as a leaf above and as an anonymous member at depth 1
            yield bf
            yield ["struct", [[0, ["num", "B"]], [1, bf], [0, ["num", "B"]]]]
    # depth 1
    for l in LEAVES:
        for n in ARRAY_LENS:
            yield ["arr", l, n]
    fa = field_alpha(LEAVES, lambda x: x[0] == "bf")
    for k in range(1, bounds["struct_fields"] + 1):
        for combo in itertools.product(fa, repeat=k):
            yield ["struct", [list(c) for c in combo]]
    for k in range(1, bounds["union_members"] + 1):
        for combo in itertools.product(fa, repeat=k):
            yield ["union", [list(c) for c in combo]]
    # depth 2
    r1 = r1_types()
    for x in r1:
        for n in ARRAY_LENS:
            yield ["arr", x, n]
    ch = field_alpha(R0 + r1, lambda x: x[0] in ("bf", "struct", "union"))
    leafish = lambda c: c[1][0] in ("num", "ptr", "bf")
    for kind, kmax in (("struct", bounds["d2_struct_fields"]), ("union", bounds["d2_union_members"])):
        for k in range(1, kmax + 1):
            for combo in itertools.product(ch, repeat=k):
                if all(leafish(c) for c in combo):
                    continue        # already a depth-1 type
                yield [kind, [list(c) for c in combo]]
    if bounds["d2_struct3"]:
        ch3 = [[0, x] for x in R0 + r1]
        for combo in itertools.product(ch3, repeat=3):
            if all(leafish(c) for c in combo):
                continue
            yield ["struct", [list(c) for c in combo]]


def str_cases(maxlen):
    for enc in ("ansi", "utf16", "utf8"):
        for n in range(maxlen + 1):
            for t in itertools.product(STR_ALPHABET[enc], repeat=n):
                yield enc, u"".join(t)


def bounds_for(quick):
    return {
        "bf_exact_only": ["I"] if quick else [],
        "struct_fields": 3,
        "union_members": 2,
        "d2_struct_fields": 2,
        "d2_union_members": 2,
        "d2_struct3": not quick,
        "array_lens": ARRAY_LENS,
        "str_len": 2 if quick else 3,
        "values": "depth<=1: 0,1,max,msb/min,-1,0x55.. (+ overflow and -1 for bits); depth 2: 0, all-ones, 0x55..",
        "page": [PAGE, PAGE_SIZE, BASE - PAGE],
    }


def _shard(args):
    quick, idx, nsh = args
    bounds = bounds_for(quick)
    n = nt = 0
    by_sig = {}
    stats = {}
    extents = set()
    ctxs = set()
    sample = None
    for i, spec in enumerate(lattice(bounds)):
        if i % nsh != idx:
            continue
        tc = check_type(spec)
        n += 1
        if len(tc.slots) >= 2:
            nt += 1
        for k, v in tc.stats.items():
            stats[k] = stats.get(k, 0) + v
        stats["slots"] = stats.get("slots", 0) + len(tc.slots)
        for s in tc.slots:
            extents.add((s.off, s.size, s.bitoff, s.width))
            ctxs.add((s.label(), s.ctx))
        for v in tc.vs:
            ent = by_sig.setdefault(v["sig"], [0, v])
            ent[0] += 1
        if sample is None and spec[0] == "struct" and len(tc.slots) >= 5:
            sample = {"type": skel(spec), "slots": len(tc.slots), "sizeof": msize(spec)}
    return n, nt, by_sig, stats, sorted(extents), sorted(ctxs), sample


def _str_shard(args):
    quick, idx, nsh = args
    n = nt = 0
    vs = []
    for i, (enc, s) in enumerate(str_cases(bounds_for(quick)["str_len"])):
        if i % nsh != idx:
            continue
        n += 1
        nt += 1 if s else 0
        vs += check_str(enc, s)
    return n, nt, vs[:20]


def run(ctx):
    import sys
    assert sys.byteorder == "little"
    quick = ctx.quick
    nsh = 32 if quick else 64
    res = ctx.pmap(_shard, [(quick, i, nsh) for i in range(nsh)])
    sres = ctx.pmap(_str_shard, [(quick, i, 16) for i in range(16)])
    n = sum(r[0] for r in res)
    nt = sum(r[1] for r in res)
    stats = {}
    extents = set()
    ctxs = set()
    sig_cases = {}
    first = {}
    for r in res:
        for k, v in r[3].items():
            stats[k] = stats.get(k, 0) + v
        extents.update(tuple(e) for e in r[4])
        ctxs.update(tuple(c) for c in r[5])
    # shards are strided over a simplest-first enumeration: the first record of a signature in the lowest shard
    # of the lowest index is (nearly) the smallest witness
    for r in res:
        for sig, (cnt, v) in r[2].items():
            sig_cases[sig] = sig_cases.get(sig, 0) + cnt
            if sig not in first or len(repr(v["case"])) < len(repr(first[sig]["case"])):
                first[sig] = v
    for sig in sorted(first):
        ctx.add_violations([first[sig]])
    for r in sres:
        ctx.add_violations(r[2])
    for kind in ("struct", "union", "array"):
        ctx.add_violations(check_unsized(kind))
    over = 0
    for fmt, widths in (("B", [5, 4]), ("B", [9]), ("H", [8, 8, 1]), ("I", [16, 16, 1]), ("I", [33])):
        over += 1
        ctx.add_violations(check_bf_oversize(fmt, widths))
    nstr = sum(r[0] for r in sres)
    cov = {
        "evaluations": n + nstr + 3 + over,
        "distinct_nontrivial": nt + sum(r[1] for r in sres),
        "type_definitions": n,
        "string_cases": nstr,
        "samples": [r[6] for r in res if r[6]][:4],
        "exhaustive": True,
        "bounds": bounds_for(quick),
        "distinct_slot_extents": len(extents),
        "distinct_leaf_contexts": len(ctxs),
        "cases_per_violation_signature": sig_cases,
        "unsized_compositions_rejected": 3,
        "oversized_bitfields_checked": over,
    }
    for k, v in stats.items():
        cov["ops_" + k] = v
    return cov


def replay(case):
    k = case["k"]
    if k == "type":
        return check_type(case["spec"]).vs
    if k == "str":
        return check_str(case["enc"], case["s"])
    if k == "unsized":
        return check_unsized(case["kind"])
    if k == "bfover":
        return check_bf_oversize(case["fmt"], case["widths"])
    return []
