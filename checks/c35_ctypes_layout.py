"""C35 - C type layout (miasm.core.objc / ctypesmngr / arch.x86.ctype) matches the x86-64 System V ABI.

Engine E2 (complete enumeration of a declaration lattice), oracle: the local gcc used purely as an evaluator of
sizeof / _Alignof / offsetof (one generated C file per shard, natural layout and __attribute__((packed)) layout).

Declaration specs (json lists): ["leaf", ctype] | ["arr", spec, n] | ["struct", [member specs]] | ["union", [...]].
Lattice (top-level declarations are structs and unions, members named m0, m1, ...):
  A   members from all 14 leaf types (char, short, int, long, long long, float, double, long double, void*,
      unsigned variants) and their arrays [1..3]        (quick: arrays of the 5 core types only)
  B   members from core leaves {char, short, int, long, long double} (one per alignment class 1/2/4/8/16; quick:
      nested core {char, int, long, long double}), their arrays [1..3], nested struct/union of <= 2 members
      (thorough: nested members may also be char[3] / short[3]) and arrays [2] of those nested aggregates
  quick: <= 2 members; thorough: <= 3 members (3 members over A-quick, over core u nested{char,long,long double},
  and the sandwich core / B-member / core).
For every declaration and both managers (CTypesManagerNotPacked vs gcc natural layout, CTypesManagerPacked vs gcc
packed layout): size and alignment of the declaration and of every nested aggregate, offset and size of EVERY
field path (all array elements, all nested members). Second oracle, for every field path p: c_to_expr("ptr->p")
must be a memory access (scalars) / an address (aggregates, arrays) at the layout offset with the member's type;
expr_to_c on the simplified expression must give accesses that all translate back to the same expression and,
for scalars, at least one with the original type.

Incremental-declaration histories (one CAstTypes + ONE long-lived manager of each kind per history): a header made of
four chunks - U1 (struct/union holding a pointer to tag N: plain, through a typedef of the incomplete tag, through
a pointer typedef, array of pointers; with or without a forward declaration), N (struct/union, optionally
self-referential), U2 (struct embedding N, U1 and N[2] by value, through the typedef when there is one), U3 (union
embedding N) - in both orders (U1 before N, N before U1), cut into every 1..3 consecutive parts loaded one after the
other. After every part: get_objc of every type mentioned so far (complete or not, typedef names included) and
pointer-chasing accesses (ptr->head->m0, ptr->owner.head->m0, ptr->next->next->m, ...); after the last part also
the way back. Oracles: gcc's numbers for every complete aggregate (they do not depend on the cut), and the same
structural answer as a fresh manager built on the text loaded so far. A violation case carries the history (parts,
queries, accesses); replay recompiles the expectations with gcc.
"""
import itertools
import os
import shutil
import subprocess
import tempfile
import warnings

from mc.runner import violation

PROP = "C35"
LEVEL = "exploration"
ENGINE = "enum"
RULE = ("every struct/union declaration of the depth<=2 grammar (see bounds) x {natural, packed} x every nested "
        "aggregate x every field path; a declaration is non-trivial when gcc's natural layout differs from its packed "
        "layout (alignment inserts padding) or it contains a union (members alias); plus every incremental-loading "
        "history of the scenario grammar (see module doc) x 2 orders x 7 cuts x {natural, packed}, non-trivial when the "
        "pointed-to tag is completed in a later part than a part whose queries already reached it")
LEVEL_TEXT = ("Bounded-exhaustive: every declaration of an explicit grammar over all supported scalar types (long double included: the only 16-byte-aligned leaf), arrays [1..3] "
              "and nested structs/unions, with <=3 members, compared with the numbers gcc computes for x86-64 (natural and "
              "packed), for every nested aggregate and every field path; plus the C-access <-> expression round trip on "
              "every field path.")
LEVEL_NOTE = ("Trusted: gcc -m64 as evaluator of sizeof/_Alignof/offsetof, pycparser, expr_simp (used to normalise "
              "addresses before comparing them). Nested aggregates at depth 2 draw members from the core types "
              "(one per (size, align) class 1/2/4/8/16; quick leaves the 2-byte class to the un-nested products). "
              "Not covered: bit-fields, enums, function pointers, "
              "typedef chains, anonymous members, flexible arrays, pointer-to-pointer chains; typedef names used in a later "
              "add_c_decl than the one declaring them (pycparser forgets them between calls: the histories re-declare).")
TECHNIQUE = "complete enumeration of C declarations; layout compared with gcc; access translation round trip per field path"
ASSUMPTIONS = ["the local gcc targeting x86-64 implements the System V ABI layout and GNU packed layout",
               "for the packed manager every struct/union of the declaration carries __attribute__((packed))",
               "expressions are compared after expr_simp"]

LEAVES = ["char", "short", "int", "long", "long long", "float", "double", "long double", "void*", "unsigned char",
          "unsigned short", "unsigned int", "unsigned long", "unsigned long long"]
CORE = ["char", "short", "int", "long", "long double"]
NESTED_CORE = ["char", "int", "long", "long double"]
GCC = ["gcc", "-m64", "-O0", "-w", "-std=gnu11"]


# ------------------------------------------------------------------ specs

def leaf(n):
    return ["leaf", n]


def kind_of(spec):
    return spec[0]


def skel(spec):
    k = spec[0]
    if k == "leaf":
        return spec[1]
    if k == "arr":
        return "%s[%d]" % (skel(spec[1]), spec[2])
    return "%s{%s}" % (k, "; ".join(skel(m) for m in spec[1]))


def c_decl(spec, name, tag, packed):
    k = spec[0]
    if k == "leaf":
        if spec[1] == "void*":
            return "void *%s" % name
        return "%s %s" % (spec[1], name)
    if k == "arr":
        return c_decl(spec[1], "%s[%d]" % (name, spec[2]), tag, packed)
    body = " ".join(c_decl(ms, "m%d" % i, "%s_%d" % (tag, i), packed) + ";" for i, ms in enumerate(spec[1]))
    attr = " __attribute__((packed))" if packed else ""
    return "%s%s %s { %s } %s" % (k, attr, tag, body, name)


def top_decl(spec, tag, packed):
    return c_decl(spec, "", tag, packed).rstrip() + ";"


def aggregates(spec, tag, steps, out):
    """Post-order list of (ctype name, kind, steps to reach an instance from the top, spec)."""
    k = spec[0]
    if k == "arr":
        if spec[2]:
            aggregates(spec[1], tag, steps + [["i", 0]], out)
        return out
    if k == "leaf":
        return out
    for i, ms in enumerate(spec[1]):
        aggregates(ms, "%s_%d" % (tag, i), steps + [["f", "m%d" % i]], out)
    out.append(("%s %s" % (k, tag), k, steps, spec))
    return out


def paths(spec, prefix, steps, chain, member, out):
    """Pre-order list of (c path, steps, skeleton chain, target spec, index of the top-level member)."""
    k = spec[0]
    if k == "arr":
        for j in range(spec[2]):
            p = "%s[%d]" % (prefix, j)
            st = steps + [["i", j]]
            ch = chain + "[]" + spec[1][0]
            out.append((p, st, ch, spec[1], member))
            paths(spec[1], p, st, ch, member, out)
    elif k in ("struct", "union"):
        for i, ms in enumerate(spec[1]):
            p = ("%s.m%d" % (prefix, i)) if prefix else "m%d" % i
            st = steps + [["f", "m%d" % i]]
            ch = chain + ">" + ms[0]
            mem = i if member is None else member
            out.append((p, st, ch, ms, mem))
            paths(ms, p, st, ch, mem, out)
    return out


# ------------------------------------------------------------------ the lattice

def arrays_of(items, lens):
    return [["arr", x, n] for x in items for n in lens]


def tops(alpha, ks, need_nested=False):
    for kind in ("struct", "union"):
        for k in ks:
            for combo in itertools.product(alpha, repeat=k):
                if need_nested and not any(has_agg(c) for c in combo):
                    continue
                yield [kind, list(combo)]


def has_agg(spec):
    return spec[0] in ("struct", "union") or (spec[0] == "arr" and has_agg(spec[1]))


def nested_aggs(members, kmax):
    out = []
    for kind in ("struct", "union"):
        for k in range(1, kmax + 1):
            for combo in itertools.product(members, repeat=k):
                out.append([kind, list(combo)])
    return out


def lattice(quick):
    leaves = [leaf(n) for n in LEAVES]
    core = [leaf(n) for n in CORE]          # one type per (size, align) class 1, 2, 4, 8, 16
    ncore = [leaf(n) for n in NESTED_CORE]  # members of the small nested aggregates
    a_quick = leaves + arrays_of(core, (1, 2, 3))
    nq = nested_aggs(ncore, 2)
    if quick:
        for d in tops(a_quick, (1, 2)):
            yield d
        mb = ncore + arrays_of(ncore, (1, 3)) + nq + arrays_of(nq, (2,))
        for d in tops(mb, (1, 2), need_nested=True):
            yield d
        return
    a_full = leaves + arrays_of(leaves, (1, 2, 3))
    for d in tops(a_full, (1, 2)):
        yield d
    for d in tops(a_quick, (3,)):
        yield d
    e7 = core + [["arr", leaf("char"), 3], ["arr", leaf("short"), 3]]
    nt = nested_aggs(e7, 2)
    mb = core + arrays_of(core, (1, 2, 3)) + nt + arrays_of(nt, (2,))
    for d in tops(mb, (1, 2), need_nested=True):
        yield d
    nq3 = nested_aggs([leaf(n) for n in ("char", "long", "long double")], 2)
    for d in tops(core + nq3, (3,), need_nested=True):
        yield d
    for kind in ("struct", "union"):
        for a in core:
            for mid in mb:
                if not has_agg(mid) or mid in nq3:
                    continue        # nested{char,long,long double} in the middle: part of the 3-member product above
                for b in core:
                    yield [kind, [a, mid, b]]


def bounds_for(quick):
    return {
        "leaf_types": LEAVES,
        "core_types": CORE,
        "nested_core_types": NESTED_CORE,
        "array_lengths": [1, 2, 3],
        "nested_aggregate_array_length": 2,
        "max_members": 2 if quick else 3,
        "nested_members": 2,
        "nested_member_alphabet": "nested core" if quick else "core + char[3] + short[3]",
        "managers": ["CTypesManagerNotPacked", "CTypesManagerPacked"],
        "history_scenarios": sum(1 for _ in hist_scenarios(quick)),
        "history_orders": HIST_ORDERS,
        "history_cuts": HIST_SPLITS,
        "history_pointer_forms": HIST_FORMS,
        "history_tag_bodies": "{char,long}, {long double}" if quick else "every <=2 members over the nested core",
    }


# ------------------------------------------------------------------ gcc side

def gen_c(decls):
    """decls: list of (tag index, spec). Returns C text; the program prints one integer per line in plan order."""
    out = ["#include <stddef.h>", "#include <stdio.h>"]
    tab = []
    for idx, spec in decls:
        for pre, packed in (("S", False), ("P", True)):
            tag = "%s%d" % (pre, idx)
            out.append(top_decl(spec, tag, packed))
            top = "%s %s" % (spec[0], tag)
            for cname, _, _, _ in aggregates(spec, tag, [], []):
                tab.append("sizeof(%s)" % cname)
                tab.append("_Alignof(%s)" % cname)
            for p, _, _, _, _ in paths(spec, "", [], spec[0], None, []):
                tab.append("offsetof(%s, %s)" % (top, p))
                tab.append("sizeof(((%s *)0)->%s)" % (top, p))
    out.append("static const unsigned long T[] = {\n%s\n};" % ",\n".join(tab))
    out.append('int main(void) { unsigned long i; for (i = 0; i < sizeof(T) / sizeof(T[0]); i++) '
               'printf("%lu\\n", T[i]); return 0; }')
    return "\n".join(out) + "\n", len(tab)


def run_gcc(decls, workdir, name):
    text, n = gen_c(decls)
    src = os.path.join(workdir, name + ".c")
    exe = os.path.join(workdir, name)
    with open(src, "w") as fd:
        fd.write(text)
    p = subprocess.run(GCC + ["-o", exe, src], stdout=subprocess.PIPE, stderr=subprocess.STDOUT)
    if p.returncode != 0:
        raise RuntimeError("gcc failed: %s" % p.stdout.decode(errors="replace")[-2000:])
    r = subprocess.run([exe], stdout=subprocess.PIPE, stderr=subprocess.STDOUT)
    if r.returncode != 0:
        raise RuntimeError("layout program failed (%d)" % r.returncode)
    vals = [int(x) for x in r.stdout.split()]
    if len(vals) != n:
        raise RuntimeError("layout program printed %d values, expected %d" % (len(vals), n))
    os.unlink(src)
    os.unlink(exe)
    return vals


# ------------------------------------------------------------------ miasm side

_ENV = {}


def _env():
    if not _ENV:
        from miasm.core.ctypesmngr import CTypeStruct, CTypeUnion, CAstTypes, CTypePtr
        from miasm.arch.x86.ctype import CTypeAMD64_unk
        from miasm.core import objc
        from miasm.expression.expression import ExprId, ExprInt, ExprMem, ExprOp
        from miasm.expression.simplifications import expr_simp
        _ENV.update(CTypeStruct=CTypeStruct, CTypeUnion=CTypeUnion, CAstTypes=CAstTypes, CTypePtr=CTypePtr,
                    leafs=CTypeAMD64_unk, objc=objc, ExprId=ExprId, ExprInt=ExprInt, ExprMem=ExprMem, ExprOp=ExprOp,
                    expr_simp=expr_simp)
    return _ENV


_ACCESS_CACHE = {}


def c2e(objc_mod, handler, c_str):
    """CHandler.c_to_expr_and_type. The first use of every spelling goes through the public entry point;
    later uses (the same spelling under another declaration) reuse the parsed access and run the same two steps
    the entry point runs after parsing (pycparser dominates the run time otherwise)."""
    acc = _ACCESS_CACHE.get(c_str)
    if acc is None:
        res = handler.c_to_expr_and_type(c_str)
        _ACCESS_CACHE[c_str] = objc_mod.ast_get_c_access_expr(objc_mod.parse_access(c_str), handler.C_types)
        return res
    return handler.exprc2expr.get_expr(acc, handler.C_types)


def walk(objc_mod, top, steps):
    off = 0
    cur = top
    for st in steps:
        if st[0] == "f":
            for name, sub, o, sz in cur.fields:
                if name == st[1]:
                    if sz != sub.size:
                        raise ValueError("field tuple size %r != type size %r" % (sz, sub.size))
                    off += o
                    cur = sub
                    break
            else:
                raise KeyError(st[1])
        else:
            if not isinstance(cur, objc_mod.ObjCArray):
                raise TypeError("not an array: %r" % (cur,))
            if not 0 <= st[1] < cur.elems:
                raise IndexError(st[1])
            off += st[1] * cur.objtype.size
            cur = cur.objtype
    return off, cur


def split_addr(env, e, ptr):
    """Return (is_mem, offset, mem size) of an expression `ptr + off` / `@N[ptr + off]`, or None."""
    is_mem = False
    size = None
    if e.is_mem():
        is_mem = True
        size = e.size
        e = e.ptr
    if e == ptr:
        return is_mem, 0, size
    if e.is_op("+") and len(e.args) == 2 and e.args[0] == ptr and e.args[1].is_int():
        return is_mem, int(e.args[1]), size
    return None


class DeclCheck(object):
    """All comparisons for one declaration, given gcc's numbers for both variants."""

    def __init__(self, spec, ast, tag, gcc_nat, gcc_packed):
        self.spec = spec
        self.case = {"k": "decl", "spec": spec}
        self.vs = []
        self.seen = set()
        self.stats = {}
        self.ast = ast
        self.tag = tag
        self.gcc = {"notpacked": gcc_nat, "packed": gcc_packed}
        self.aggs = aggregates(spec, tag, [], [])
        self.paths = paths(spec, "", [], spec[0], None, [])

    def bad(self, sig, what):
        if sig in self.seen:
            return
        self.seen.add(sig)
        self.vs.append(violation(sig, "%s [declaration %s]" % (what, skel(self.spec)), self.case))

    def count(self, k, n=1):
        self.stats[k] = self.stats.get(k, 0) + n

    def run(self):
        env = _env()
        objc_mod = env["objc"]
        tid = (env["CTypeStruct"] if self.spec[0] == "struct" else env["CTypeUnion"])(self.tag)
        for mname, cls in (("notpacked", objc_mod.CTypesManagerNotPacked), ("packed", objc_mod.CTypesManagerPacked)):
            try:
                mngr = cls(self.ast, env["leafs"]())
                top = mngr.get_objc(tid)
            except Exception as e:
                self.bad("get_objc:%s:%s:raise:%s" % (mname, self.spec[0], type(e).__name__),
                         "get_objc raised %r" % (e,))
                continue
            self.layout(objc_mod, mname, top)
            self.access(env, objc_mod, mname, mngr, tid, top)
        return self

    # -------------------------------------------------------------- layout vs gcc
    def layout(self, objc_mod, mname, top):
        vals = self.gcc[mname]
        pos = 0
        # nested aggregates first (post-order): the innermost discrepancy is the one reported
        for cname, kind, steps, aspec in self.aggs:
            gsize, galign = vals[pos], vals[pos + 1]
            pos += 2
            try:
                _, o = walk(objc_mod, top, steps)
            except Exception as e:
                self.bad("layout:%s:%s:walk-raise:%s" % (mname, kind, type(e).__name__),
                         "cannot reach %s in the ObjC tree: %r" % (cname, e))
                return
            self.count("aggregates_compared")
            if kind == "union":
                msz = [walk(objc_mod, o, [["f", "m%d" % i]])[1].size for i in range(len(aspec[1]))]
                cls = "largest-member-multiple-of-align" if max(msz) % max(galign, 1) == 0 else \
                    "largest-member-not-multiple-of-align"
            else:
                raw = sum(walk(objc_mod, o, [["f", "m%d" % i]])[1].size for i in range(len(aspec[1])))
                cls = "no-padding" if raw == gsize else "with-padding"
            if o.size != gsize:
                self.bad("sizeof:%s:%s:%s" % (mname, kind, cls),
                         "%s manager: sizeof(%s) = %d, gcc says %d (align %d)" % (mname, cname, o.size, gsize, galign))
                return
            if o.align != galign:
                self.bad("alignof:%s:%s:%s" % (mname, kind, cls),
                         "%s manager: alignment of %s = %d, gcc says %d" % (mname, cname, o.align, galign))
                return
        for p, steps, chain, tspec, _ in self.paths:
            goff, gsz = vals[pos], vals[pos + 1]
            pos += 2
            try:
                off, o = walk(objc_mod, top, steps)
            except Exception as e:
                self.bad("layout:%s:%s:walk-raise:%s" % (mname, chain, type(e).__name__),
                         "cannot reach member %s: %r" % (p, e))
                return
            self.count("paths_compared")
            if off != goff:
                self.bad("offsetof:%s:%s" % (mname, chain),
                         "%s manager: offset of %s = %d, gcc says %d" % (mname, p, off, goff))
                return
            if o.size != gsz:
                self.bad("member-size:%s:%s" % (mname, chain),
                         "%s manager: size of member %s = %d, gcc says %d" % (mname, p, o.size, gsz))
                return

    # -------------------------------------------------------------- access translation round trip
    def access(self, env, objc_mod, mname, mngr, tid, top):
        expr_simp = env["expr_simp"]
        ptr = env["ExprId"]("ptr", 64)
        try:
            pt = mngr.get_objc(env["CTypePtr"](tid))
            handler = objc_mod.CHandler(mngr, expr_types={ptr: set([pt])}, C_types={"ptr": pt})
        except Exception as e:
            self.bad("access:handler:%s:raise:%s" % (self.spec[0], type(e).__name__), "CHandler setup raised %r" % (e,))
            return
        failed_members = set()
        for p, steps, chain, tspec, member in self.paths:
            if member in failed_members:
                continue        # report the outermost failing access of a member subtree only
            c_str = "ptr->" + p
            scalar = tspec[0] == "leaf"
            try:
                off, o = walk(objc_mod, top, steps)
            except Exception:
                continue        # already reported by layout()
            where = "%s manager, %s" % (mname, c_str)
            try:
                e, ty = c2e(objc_mod, handler, c_str)
            except (Exception, AssertionError) as ex:
                self.bad("access:c_to_expr:%s:raise:%s" % (chain, type(ex).__name__),
                         "%s: c_to_expr_and_type raised %r" % (where, ex))
                failed_members.add(member)
                continue
            self.count("c_to_expr")
            if e is None:
                self.bad("access:c_to_expr:%s:no-result" % chain, "%s: no expression" % where)
                failed_members.add(member)
                continue
            es = expr_simp(e)
            sp = split_addr(env, es, ptr)
            if sp is None:
                self.bad("access:c_to_expr:%s:not-base-plus-offset" % chain,
                         "%s: expression %s is not ptr+offset / @[ptr+offset]" % (where, es))
                failed_members.add(member)
                continue
            is_mem, eoff, esize = sp
            if scalar and not is_mem:
                self.bad("access:c_to_expr:%s:scalar-not-a-memory-access" % chain, "%s: expression %s" % (where, es))
                failed_members.add(member)
                continue
            if not scalar and is_mem:
                self.bad("access:c_to_expr:%s:aggregate-is-a-memory-access" % chain,
                         "%s names a %s; expression %s dereferences it instead of giving its address"
                         % (where, tspec[0], es))
                failed_members.add(member)
                continue
            if eoff != off or (scalar and esize != 8 * o.size):
                self.bad("access:c_to_expr:%s:offset-or-size" % chain,
                         "%s: expression %s, layout says offset %d size %d" % (where, es, off, o.size))
                failed_members.add(member)
                continue
            if ty != o:
                self.bad("access:c_to_expr:%s:type" % chain, "%s: type %s, layout says %s" % (where, ty, o))
                failed_members.add(member)
                continue
            # and back
            try:
                accs = handler.expr_to_c_and_types(es)
            except (Exception, AssertionError) as ex:
                self.bad("access:expr_to_c:%s:raise:%s" % (chain, type(ex).__name__),
                         "%s = %s: expr_to_c_and_types raised %r" % (where, es, ex))
                failed_members.add(member)
                continue
            self.count("expr_to_c")
            if len(accs) > 1:
                self.count("multi_access_results")
            if scalar and not accs:
                self.bad("access:expr_to_c:%s:no-access" % chain, "%s = %s: no C access generated" % (where, es))
                failed_members.add(member)
                continue
            same_type = False
            ok = True
            for c2, t2 in sorted(accs, key=lambda a: a[0]):
                try:
                    e2, ty2 = c2e(objc_mod, handler, c2)
                    es2 = expr_simp(e2)
                except (Exception, AssertionError) as ex:
                    self.bad("access:reparse:%s:raise:%s" % (chain, type(ex).__name__),
                             "%s = %s gives %r which does not translate back: %r" % (where, es, c2, ex))
                    ok = False
                    break
                if es2 != es:
                    self.bad("access:expr_to_c:%s:not-equivalent" % chain,
                             "%s = %s gives %r which is %s" % (where, es, c2, es2))
                    ok = False
                    break
                if t2 != ty2:
                    self.bad("access:expr_to_c:%s:reported-type-differs" % chain,
                             "%s = %s gives %r reported as %s but typed %s when parsed" % (where, es, c2, t2, ty2))
                    ok = False
                    break
                if scalar and ty2 == ty:
                    same_type = True
            if not ok:
                failed_members.add(member)
                continue
            if scalar:
                self.count("scalar_round_trips")
                if not same_type:
                    self.bad("access:expr_to_c:%s:type-lost" % chain,
                             "%s = %s of type %s comes back as %s" % (where, es, ty,
                                                                      sorted((a, str(b)) for a, b in accs)))
                    failed_members.add(member)
            else:
                self.count("aggregate_round_trips")


# ------------------------------------------------------------------ shards

def split_vals(spec, tag_idx, vals, pos):
    """Slice gcc's values for one declaration: (natural, packed, new position)."""
    n = 2 * len(aggregates(spec, "T", [], [])) + 2 * len(paths(spec, "", [], spec[0], None, []))
    return vals[pos:pos + n], vals[pos + n:pos + 2 * n], pos + 2 * n


def check_decls(decls, workdir, name):
    """decls: list of (index, spec). Returns list of DeclCheck."""
    env = _env()
    vals = run_gcc(decls, workdir, name)
    text = "\n".join(top_decl(spec, "S%d" % idx, False) for idx, spec in decls)
    ast = env["CAstTypes"]()
    ast.add_c_decl(text)
    out = []
    pos = 0
    for idx, spec in decls:
        nat, pk, pos = split_vals(spec, idx, vals, pos)
        out.append(DeclCheck(spec, ast, "S%d" % idx, nat, pk).run())
    return out


# ------------------------------------------------------------------ incremental-declaration histories
#
# One CAstTypes + ONE long-lived manager per history; the header is loaded in 1..3 parts and after every part
# every type mentioned so far is queried (complete or not) and member accesses are translated. Oracles: gcc's
# numbers for the complete aggregates (a complete aggregate's layout does not depend on how the header was cut)
# and "same answer as a fresh manager built on the text loaded so far".

HIST_FORMS = ["ptr", "tdinc", "tdptr", "arr"]


def hist_scenarios(quick):
    """Yield (sid, params). N is the tag that may be completed late, U1 points to it, U2/U3 embed it by value."""
    ncore = NESTED_CORE
    if quick:
        bodies = [["char", "long"], ["long double"]]
        selfs = [0, 1, 2]           # no self pointer / `N *next` as first / last member
        u1kinds = ["struct"]
    else:
        bodies = [[a] for a in ncore] + [[a, b] for a in ncore for b in ncore]
        selfs = [0, 1, 2]
        u1kinds = ["struct", "union"]
    sid = 0
    for nkind in ("struct", "union"):
        for body in bodies:
            for selfp in selfs:
                for form in HIST_FORMS:
                    for fwd in (0, 1):
                        for u1kind in u1kinds:
                            yield sid, {"nkind": nkind, "body": body, "self": selfp, "form": form, "fwd": fwd,
                                        "u1kind": u1kind}
                            sid += 1


def hist_items(sid, P):
    """The four declaration chunks of a scenario, what they define/mention and the accesses they enable."""
    n, l, p, e, nt, np_ = ("n%d" % sid, "l%d" % sid, "p%d" % sid, "e%d" % sid, "nt%d" % sid, "np%d" % sid)
    kn = P["nkind"]
    form = P["form"]
    members = ["%s m%d;" % (t, i) for i, t in enumerate(P["body"])]
    nfields = ["m%d" % i for i in range(len(P["body"]))]
    if P["self"] == 1:
        members.insert(0, "%s %s *next;" % (kn, n))
        nfields.insert(0, "next")
    elif P["self"] == 2:
        members.append("%s %s *next;" % (kn, n))
        nfields.append("next")
    ntext = "%s %s { %s };" % (kn, n, " ".join(members))
    pre = ["%s %s;" % (kn, n)] if P["fwd"] else []
    mentions_u1 = [[kn, n, "tag"]]
    if form == "ptr":
        head = "%s %s *head;" % (kn, n)
    elif form == "tdinc":
        pre.append("typedef %s %s %s;" % (kn, n, nt))
        head = "%s *head;" % nt
        mentions_u1.append(["id", nt, "typedef"])
    elif form == "tdptr":
        pre.append("typedef %s %s *%s;" % (kn, n, np_))
        head = "%s head;" % np_
        mentions_u1.append(["id", np_, "typedef"])
    else:
        head = "%s %s *head[2];" % (kn, n)
    u1 = P["u1kind"]
    u1text = " ".join(pre + ["%s %s { char tag; %s int count; };" % (u1, l, head)])
    mentions_u1.append([u1, l, "pointer-user"])
    first = ("typedef %s %s %s; " % (kn, n, nt)) if form == "tdinc" else ""
    u2text = "%sstruct %s { char flag; %s first; %s %s owner; %s %s both[2]; };" % (
        first, p, nt if form == "tdinc" else "%s %s" % (kn, n), u1, l, kn, n)
    u3text = "union %s { %s %s n; char raw[3]; };" % (e, kn, n)
    items = {
        "U1": {"text": u1text, "aggs": [[u1, l, ["tag", "head", "count"]]], "mentions": mentions_u1},
        "N": {"text": ntext, "aggs": [[kn, n, nfields]], "mentions": [[kn, n, "tag"]]},
        "U2": {"text": u2text, "aggs": [["struct", p, ["flag", "first", "owner", "both"]]],
               "mentions": [["struct", p, "value-user"]]},
        "U3": {"text": u3text, "aggs": [["union", e, ["n", "raw"]]], "mentions": [["union", e, "value-user"]]},
    }
    hs = "head[1]" if form == "arr" else "head"
    hsteps = [["o", l, "head"]] + ([["p", 1]] if form == "arr" else [])
    last = "m%d" % (len(P["body"]) - 1)
    acc = [
        (["U1"], u1, l, "pointer-user", "ptr->count", [["o", l, "count"]], [l, "count"]),
        (["U1"], u1, l, "pointer-user", "ptr->" + hs, hsteps, 8),
        (["U1", "N"], u1, l, "pointer-user", "ptr->%s->m0" % hs, hsteps + [["d"], ["o", n, "m0"]], [n, "m0"]),
        (["N"], kn, n, "tag", "ptr->" + last, [["o", n, last]], [n, last]),
        (["N", "U2"], "struct", p, "value-user", "ptr->first.m0", [["o", p, "first"], ["o", n, "m0"]], [n, "m0"]),
        (["N", "U2"], "struct", p, "value-user", "ptr->both[1].%s" % last,
         [["o", p, "both"], ["e", n, 1], ["o", n, last]], [n, last]),
        (["U1", "N", "U2"], "struct", p, "value-user", "ptr->owner.%s->m0" % hs,
         [["o", p, "owner"]] + hsteps + [["d"], ["o", n, "m0"]], [n, "m0"]),
        (["N", "U3"], "union", e, "value-user", "ptr->n.m0", [["o", e, "n"], ["o", n, "m0"]], [n, "m0"]),
    ]
    if P["self"]:
        acc += [
            (["U1", "N"], u1, l, "pointer-user", "ptr->%s->next->m0" % hs,
             hsteps + [["d"], ["o", n, "next"], ["d"], ["o", n, "m0"]], [n, "m0"]),
            (["N"], kn, n, "tag", "ptr->next->next->" + last,
             [["o", n, "next"], ["d"], ["o", n, "next"], ["d"], ["o", n, last]], [n, last]),
        ]
    return items, acc, [n, l, p, e, nt, np_]


HIST_ORDERS = [["U1", "N", "U2", "U3"], ["N", "U1", "U2", "U3"]]
HIST_SPLITS = [[4], [1, 3], [2, 2], [3, 1], [1, 1, 2], [1, 2, 1], [2, 1, 1]]


def hist_cases(sid, P):
    """Every history of a scenario: 2 declaration orders x every cut into 1..3 consecutive parts."""
    items, acc, tags = hist_items(sid, P)
    for order in HIST_ORDERS:
        for split in HIST_SPLITS:
            parts, aggs, mentions, where = [], [], [], {}
            pos = 0
            for k, cnt in enumerate(split):
                names = order[pos:pos + cnt]
                pos += cnt
                for nm in names:
                    where[nm] = k
                parts.append("\n".join(items[nm]["text"] for nm in names))
                aggs.append([a for nm in names for a in items[nm]["aggs"]])
                ms = []
                for nm in names:
                    for m in items[nm]["mentions"]:
                        if m not in ms:
                            ms.append(m)
                mentions.append(ms)
            accesses = [[max(where[x] for x in needs), rk, rt, role, c_str, steps, lf]
                        for needs, rk, rt, role, c_str, steps, lf in acc]
            yield {"k": "hist", "parts": parts, "aggs": aggs, "mentions": mentions, "accesses": accesses,
                   "tags": tags, "late": where["N"] > where["U1"],
                   "scenario": "%s N{%s%s} %s-user form=%s fwd=%d order=%s split=%s" % (
                       P["nkind"], ",".join(P["body"]), ["", ",self*first", ",self*last"][P["self"]], P["u1kind"],
                       P["form"], P["fwd"], "-".join(order), split)}


def hist_c(text, aggs, tags):
    """C declarations (natural + a renamed copy under #pragma pack(1)) and the expressions to print."""
    import re
    ptext = text
    for t in sorted(tags, key=lambda x: (-len(x), x)):
        ptext = re.sub(r"\b%s\b" % re.escape(t), t + "p", ptext)
    decl = "%s\n#pragma pack(push, 1)\n%s\n#pragma pack(pop)\n" % (text, ptext)
    exprs = []
    for suffix in ("", "p"):
        for kind, tag, fields in aggs:
            ty = "%s %s%s" % (kind, tag, suffix)
            exprs += ["sizeof(%s)" % ty, "_Alignof(%s)" % ty]
            for f in fields:
                exprs += ["offsetof(%s, %s)" % (ty, f), "sizeof(((%s *)0)->%s)" % (ty, f)]
    return decl, exprs


def hist_parse(vals, pos, aggs):
    G = {}
    for mname in ("notpacked", "packed"):
        sizes, fields = {}, {}
        for kind, tag, fl in aggs:
            sizes[tag] = (vals[pos], vals[pos + 1])
            pos += 2
            for f in fl:
                fields[(tag, f)] = (vals[pos], vals[pos + 1])
                pos += 2
        G[mname] = (sizes, fields)
    return G, pos


def hist_gcc(blocks, workdir, name):
    """blocks: list of (text, aggs, tags). One compile; returns the list of G dictionaries."""
    out = ["#include <stddef.h>", "#include <stdio.h>"]
    tab = []
    for text, aggs, tags in blocks:
        decl, exprs = hist_c(text, aggs, tags)
        out.append(decl)
        tab += exprs
    out.append("static const unsigned long T[] = {\n%s\n};" % ",\n".join(tab))
    out.append('int main(void) { unsigned long i; for (i = 0; i < sizeof(T) / sizeof(T[0]); i++) '
               'printf("%lu\\n", T[i]); return 0; }')
    src = os.path.join(workdir, name + ".c")
    exe = os.path.join(workdir, name)
    with open(src, "w") as fd:
        fd.write("\n".join(out) + "\n")
    p = subprocess.run(GCC + ["-o", exe, src], stdout=subprocess.PIPE, stderr=subprocess.STDOUT)
    if p.returncode != 0:
        raise RuntimeError("gcc failed: %s" % p.stdout.decode(errors="replace")[-2000:])
    r = subprocess.run([exe], stdout=subprocess.PIPE, stderr=subprocess.STDOUT)
    vals = [int(x) for x in r.stdout.split()]
    if r.returncode != 0 or len(vals) != len(tab):
        raise RuntimeError("history layout program: exit %d, %d values for %d" % (r.returncode, len(vals), len(tab)))
    os.unlink(src)
    os.unlink(exe)
    res = []
    pos = 0
    for text, aggs, tags in blocks:
        G, pos = hist_parse(vals, pos, aggs)
        res.append(G)
    return res


def objc_dump(objc_mod, o, seen=()):
    """Structural dump of an ObjC tree (cut at recursion) used to compare two managers."""
    if isinstance(o, objc_mod.ObjCDecl):
        return ["decl", o.name, o.size, o.align]
    if isinstance(o, objc_mod.ObjCPtr):
        return ["ptr", o.size, o.align, objc_dump(objc_mod, o.objtype, seen)]
    if isinstance(o, objc_mod.ObjCArray):
        return ["arr", o.elems, o.size, o.align, objc_dump(objc_mod, o.objtype, seen)]
    if isinstance(o, (objc_mod.ObjCStruct, objc_mod.ObjCUnion)):
        key = (o.__class__.__name__, o.name)
        if key in seen:
            return ["ref", key[0], key[1], o.size, o.align]
        return [key[0], o.name, o.size, o.align,
                [[nm, off, sz, objc_dump(objc_mod, sub, seen + (key,))] for nm, sub, off, sz in o.fields]]
    return [o.__class__.__name__, o.size, o.align]


def hist_typeid(env, kind, tag):
    if kind == "id":
        from miasm.core.ctypesmngr import CTypeId
        return CTypeId(tag)
    return (env["CTypeStruct"] if kind == "struct" else env["CTypeUnion"])(tag)


def run_history(case, G):
    """Replay one history on one long-lived manager of each kind. Returns (violations, stats)."""
    env = _env()
    objc_mod = env["objc"]
    expr_simp = env["expr_simp"]
    ExprMem, ExprInt = env["ExprMem"], env["ExprInt"]
    vs, seen, stats = [], set(), {}
    rel = "tag-completed-after-query" if case["late"] else "tag-complete-at-first-query"

    def bad(sig, what):
        if sig not in seen:
            seen.add(sig)
            vs.append(violation(sig, "%s [history: %s; parts: %s]" % (what, case["scenario"],
                                                                     " || ".join(x.replace("\n", " ") for x in case["parts"])), case))

    def count(k, n=1):
        stats[k] = stats.get(k, 0) + n

    ptr = env["ExprId"]("ptr", 64)
    nparts = len(case["parts"])
    for mname, cls in (("notpacked", objc_mod.CTypesManagerNotPacked), ("packed", objc_mod.CTypesManagerPacked)):
        sizes, fields = G[mname]
        ast = env["CAstTypes"]()
        mngr = cls(ast, env["leafs"]())
        defined = set()
        mentioned = []
        for k in range(nparts):
            step = "%s manager, after part %d/%d" % (mname, k + 1, nparts)
            try:
                ast.add_c_decl(case["parts"][k])
                ref_ast = env["CAstTypes"]()
                ref_ast.add_c_decl("\n".join(case["parts"][:k + 1]))
                ref = cls(ref_ast, env["leafs"]())
            except Exception as ex:
                bad("history:load:%s:raise:%s" % (mname, type(ex).__name__), "%s: add_c_decl raised %r" % (step, ex))
                break
            count("steps")
            for a in case["aggs"][k]:
                defined.add(a[1])
            for m in case["mentions"][k]:
                if m not in mentioned:
                    mentioned.append(m)
            fl_of = dict((a[1], a) for kk in range(k + 1) for a in case["aggs"][kk])
            # ---- every type mentioned so far
            for kind, tag, role in mentioned:
                tid = hist_typeid(env, kind, tag)
                try:
                    o = mngr.get_objc(tid)
                    o_ref = ref.get_objc(tid)
                except Exception as ex:
                    bad("history:get_objc:%s:%s:%s:raise:%s" % (mname, role, rel, type(ex).__name__),
                        "%s: get_objc(%s %s) raised %r" % (step, kind, tag, ex))
                    continue
                count("type_queries")
                if tag in defined:
                    gs, ga = sizes[tag]
                    if (o.size, o.align) != (gs, ga):
                        bad("history:sizeof-alignof:%s:%s:%s" % (mname, role, rel),
                            "%s: %s %s has size/align %r, gcc says %r" % (step, kind, tag, (o.size, o.align), (gs, ga)))
                        continue
                    got = dict((nm, (off, sz)) for nm, _, off, sz in o.fields)
                    wrong = [(f, got.get(f), fields[(tag, f)]) for f in fl_of[tag][2] if got.get(f) != fields[(tag, f)]]
                    if wrong:
                        bad("history:offsetof:%s:%s:%s" % (mname, role, rel),
                            "%s: %s %s member %s has (offset, size) %r, gcc says %r" % ((step, kind, tag) + wrong[0]))
                        continue
                    count("gcc_compared")
                if objc_dump(objc_mod, o) != objc_dump(objc_mod, o_ref):
                    bad("history:differs-from-fresh-manager:%s:%s:%s" % (mname, role, rel),
                        "%s: get_objc(%s %s) = %r, a manager built on the same text gives %r"
                        % (step, kind, tag, objc_dump(objc_mod, o), objc_dump(objc_mod, o_ref)))
            # ---- member accesses through a pointer to the aggregates complete so far
            for first, rk, rt, role, c_str, steps, lf in case["accesses"]:
                if first > k:
                    continue
                acls = "%s:%s" % (role, "through-pointer" if ["d"] in steps else "direct")
                where = "%s: (%s %s *)ptr, %s" % (step, rk, rt, c_str)
                try:
                    expected = ptr
                    off = 0
                    for st in steps:
                        if st[0] == "o":
                            off += fields[(st[1], st[2])][0]
                        elif st[0] == "e":
                            off += st[2] * sizes[st[1]][0]
                        elif st[0] == "p":
                            off += 8 * st[1]
                        else:
                            expected = ExprMem(expected + ExprInt(off, 64), 64)
                            off = 0
                    lsize = lf if isinstance(lf, int) else fields[(lf[0], lf[1])][1]
                    expected = expr_simp(ExprMem(expected + ExprInt(off, 64), 8 * lsize))
                    pt = mngr.get_objc(env["CTypePtr"](hist_typeid(env, rk, rt)))
                    handler = objc_mod.CHandler(mngr, expr_types={ptr: set([pt])}, C_types={"ptr": pt})
                    e, ty = c2e(objc_mod, handler, c_str)
                    es = expr_simp(e)
                except (Exception, AssertionError) as ex:
                    bad("history:access:c_to_expr:%s:%s:%s:raise:%s" % (mname, acls, rel, type(ex).__name__),
                        "%s: C -> expression raised %r" % (where, ex))
                    continue
                count("accesses")
                if es != expected:
                    bad("history:access:c_to_expr:%s:%s:%s:wrong-expression" % (mname, acls, rel),
                        "%s: gives %s, gcc's layout gives %s" % (where, es, expected))
                    continue
                if k != nparts - 1:
                    continue
                try:
                    accs = handler.expr_to_c_and_types(es)
                    back = [(c2, t2) + tuple(c2e(objc_mod, handler, c2)) for c2, t2 in sorted(accs, key=lambda a: a[0])]
                except (Exception, AssertionError) as ex:
                    bad("history:access:expr_to_c:%s:%s:%s:raise:%s" % (mname, acls, rel, type(ex).__name__),
                        "%s = %s: expression -> C raised %r" % (where, es, ex))
                    continue
                count("round_trips")
                if not back or any(expr_simp(e2) != es for _, _, e2, _ in back) or \
                        not any(t2 == ty and ty2 == ty for _, t2, _, ty2 in back):
                    bad("history:access:expr_to_c:%s:%s:%s:no-equivalent-access" % (mname, acls, rel),
                        "%s = %s of type %s comes back as %s" % (where, es, ty, [(c2, str(t2)) for c2, t2, _, _ in back]))
    return vs, stats


def _hist_shard(args):
    quick, idx, nsh, workdir = args
    warnings.simplefilter("ignore")
    scen = [(sid, P) for sid, P in hist_scenarios(quick) if sid % nsh == idx]
    blocks = []
    for sid, P in scen:
        items, _, tags = hist_items(sid, P)
        order = HIST_ORDERS[0]
        blocks.append(("\n".join(items[nm]["text"] for nm in order), [a for nm in order for a in items[nm]["aggs"]],
                       tags))
    Gs = hist_gcc(blocks, workdir, "hist%d" % idx) if blocks else []
    n = nt = 0
    by_sig = {}
    stats = {}
    sample = None
    for (sid, P), G in zip(scen, Gs):
        for case in hist_cases(sid, P):
            vs, st = run_history(case, G)
            n += 1
            nt += 1 if case["late"] else 0
            for k, v in st.items():
                stats[k] = stats.get(k, 0) + v
            for v in vs:
                ent = by_sig.setdefault(v["sig"], [0, v])
                ent[0] += 1
            if sample is None and case["late"] and len(case["parts"]) == 3:
                sample = {"history": case["scenario"], "parts": case["parts"]}
    return n, nt, by_sig, stats, sample


def replay_history(case):
    warnings.simplefilter("ignore")
    workdir = tempfile.mkdtemp(prefix="c35_")
    try:
        aggs = [a for part in case["aggs"] for a in part]
        G = hist_gcc([("\n".join(case["parts"]), aggs, case["tags"])], workdir, "replay")[0]
    finally:
        shutil.rmtree(workdir, ignore_errors=True)
    return run_history(case, G)[0]


def _shard(args):
    quick, idx, nsh, workdir = args
    warnings.simplefilter("ignore")
    decls = [(i, spec) for i, spec in enumerate(lattice(quick)) if i % nsh == idx]
    # run_gcc unlinks its two files; the directory belongs to run(), which removes it in its finally
    res = check_decls(decls, workdir, "shard%d" % idx)
    n = nt = 0
    by_sig = {}
    stats = {}
    classes = set()
    sample = None
    for dc in res:
        n += 1
        nat, pk = dc.gcc["notpacked"], dc.gcc["packed"]
        # the top-level aggregate is the last of the post-order list
        k = 2 * (len(dc.aggs) - 1)
        if nat[k] != pk[k] or any(a[1] == "union" for a in dc.aggs):
            nt += 1
        classes.add((nat[k], nat[k + 1]))
        for kk, v in dc.stats.items():
            stats[kk] = stats.get(kk, 0) + v
        for v in dc.vs:
            ent = by_sig.setdefault(v["sig"], [0, v])
            ent[0] += 1
        if sample is None and len(dc.paths) >= 6 and nat[k] != pk[k]:
            sample = {"declaration": skel(dc.spec), "gcc_sizeof_alignof": [nat[k], nat[k + 1]], "gcc_packed_sizeof": pk[k],
                      "field_paths": len(dc.paths)}
    return n, nt, by_sig, stats, sorted(classes), sample


def run(ctx):
    quick = ctx.quick
    if shutil.which("gcc") is None:
        raise RuntimeError("gcc not found (needed as the layout evaluator)")
    nsh = 32 if quick else 128
    workdir = tempfile.mkdtemp(prefix="c35_")
    try:
        res = ctx.pmap(_shard, [(quick, i, nsh, workdir) for i in range(nsh)])
        nsh_h = 16 if quick else 64
        hres = ctx.pmap(_hist_shard, [(quick, i, nsh_h, workdir) for i in range(nsh_h)])
    finally:
        shutil.rmtree(workdir, ignore_errors=True)
    n = sum(r[0] for r in res)
    nt = sum(r[1] for r in res)
    stats = {}
    sig_cases = {}
    first = {}
    classes = set()
    for r in res:
        for k, v in r[3].items():
            stats[k] = stats.get(k, 0) + v
        classes.update(tuple(c) for c in r[4])
        for sig, (cnt, v) in r[2].items():
            sig_cases[sig] = sig_cases.get(sig, 0) + cnt
            if sig not in first or len(repr(v["case"])) < len(repr(first[sig]["case"])):
                first[sig] = v
    hstats = {}
    for r in hres:
        for k, v in r[3].items():
            hstats[k] = hstats.get(k, 0) + v
        for sig, (cnt, v) in r[2].items():
            sig_cases[sig] = sig_cases.get(sig, 0) + cnt
            if sig not in first or len(repr(v["case"])) < len(repr(first[sig]["case"])):
                first[sig] = v
    for sig in sorted(first):
        ctx.add_violations([first[sig]])
    nh = sum(r[0] for r in hres)
    nh_late = sum(r[1] for r in hres)
    cov = {
        "evaluations": n * 2 + nh * 2,
        "declarations": n,
        "histories": nh,
        "histories_tag_completed_after_a_query": nh_late,
        "distinct_nontrivial": nt + nh_late,
        "samples": [r[5] for r in res if r[5]][:3] + [r[4] for r in hres if r[4]][:2],
        "exhaustive": True,
        "bounds": bounds_for(quick),
        "distinct_size_align_classes": len(classes),
        "cases_per_violation_signature": sig_cases,
    }
    for k, v in stats.items():
        cov["n_" + k] = v
    for k, v in hstats.items():
        cov["n_history_" + k] = v
    return cov


def replay(case):
    warnings.simplefilter("ignore")
    if case.get("k") == "hist":
        return replay_history(case)
    spec = case["spec"]
    workdir = tempfile.mkdtemp(prefix="c35_")
    try:
        return check_decls([(0, spec)], workdir, "replay")[0].vs
    finally:
        shutil.rmtree(workdir, ignore_errors=True)
